//! C25 — ORDER BY, LIMIT and OFFSET mean what they say.
//!
//! Generator (`order_limit`): one table `r` of 2–5 nullable columns over
//! BIGINT/INTEGER/DOUBLE(finite multiples of 0.25)/VARCHAR/DATE/BOOLEAN with tiny
//! value domains (heavy ties) and 0/20/50 % NULLs; 0–30 rows, or (1 case in 8;
//! 1 in 3 in the thorough tier) 1000+ rows in ≥2 batches so the in-memory scan is
//! multi-partition; 0–10 random batch cut points (→ up to 11 sorted runs, i.e.
//! single-run, single-pass k-way and multi-pass merges when spilled).
//! Statement: `SELECT [DISTINCT] items FROM r AS t1 [WHERE p] ORDER BY k1..k4
//! [LIMIT l] [OFFSET o]`; keys are output aliases, ordinals, input columns that
//! are not selected, or expressions over input columns; each ASC/DESC ×
//! NULLS FIRST/LAST/default; LIMIT and OFFSET ∈ {absent,0,1,2,n−1,n,n+5,random}.
//! Every case runs in TWO configurations: default memory (full sort, or the
//! fused top-k when LIMIT has no OFFSET) and a tiny memory limit that forces
//! the external sort to spill (measured from the context's spill counter).
//! A second generator (`limit_in_derived`) puts ORDER BY/LIMIT/OFFSET inside a
//! derived table whose order is total (keys cover every output column), with
//! a filter above it: the LIMIT must be applied before the outer predicate.
//!
//! Oracle: `refsql` + the validity predicate of DESIGN §3.4
//! (`refsql::compare_answer`: tie groups occupy the same positions; rows of a
//! tie group cut by the LIMIT/OFFSET window are a sub-multiset of that group).
use super::Property;
use crate::data::*;
use crate::refsql::Db;
use crate::runner::*;
use crate::sqlast::*;
use crate::sqlgen::*;
use proptest::prelude::*;
use serde::{Deserialize, Serialize};

#[path = "c25_util.rs"]
mod util;
use util::*;

#[path = "c25_big.rs"]
mod big;

#[derive(Clone, Debug, Serialize, Deserialize)]
pub struct SortCase {
    pub sql_case: SqlCase,
    /// memory limit (bytes) of the second, spilling configuration
    pub spill_limit: usize,
}

const TYPES: [ColType; 7] = [ColType::Int, ColType::Int32, ColType::Double, ColType::Str, ColType::Date, ColType::Bool, ColType::Int];
const NAMES: [&str; 5] = ["a", "b", "c", "d", "e"];

/// table `r`: random schema, `small` rows or a base block repeated to 1000+ rows
fn table_strategy(tier: Tier) -> BoxedStrategy<Table> {
    let big_weight = tier.pick(1u32, 3);
    let big_max = tier.pick(1300usize, 3000);
    proptest::collection::vec((proptest::sample::select(TYPES.to_vec()), proptest::sample::select(vec![0u32, 20, 50])), 2..=5)
        .prop_flat_map(move |spec| {
            let cols: Vec<Column> = spec.iter().enumerate().map(|(i, (ty, _))| Column { name: NAMES[i].to_string(), ty: *ty }).collect();
            let row = spec.iter().map(|(ty, pct)| small_value(*ty, *pct)).collect::<Vec<_>>();
            let cols2 = cols.clone();
            let small = proptest::collection::vec(row.clone(), 0..=30).prop_map(move |rows| Table { name: "r".into(), cols: cols.clone(), rows });
            let big = (proptest::collection::vec(row, 20..=60), 1000usize..=big_max, any::<u16>()).prop_map(move |(base, n, rot)| {
                // base block repeated with a rotation per repetition: heavy ties, every
                // batch holds every key value
                let mut rows = Vec::with_capacity(n);
                let m = base.len();
                let step = 1 + (rot as usize % m.max(1));
                let mut i = 0usize;
                while rows.len() < n {
                    rows.push(base[(i * step + i / m) % m].clone());
                    i += 1;
                }
                Table { name: "r".into(), cols: cols2.clone(), rows }
            });
            prop_oneof![7 => small, big_weight => big]
        })
        .boxed()
}

fn gen_profile() -> Profile {
    Profile::from_spec("minimal+logic+like+is_distinct_from")
}

fn limit_choice(t: &mut Tape, n: usize) -> Option<u64> {
    Some(match t.pick(10) {
        0 | 1 => return None,
        2 => 0,
        3 => 1,
        4 => 2,
        5 => n.saturating_sub(1),
        6 => n,
        7 => n + 5,
        _ => t.pick(n + 1),
    } as u64)
}
fn offset_choice(t: &mut Tape, n: usize) -> Option<u64> {
    Some(match t.pick(10) {
        0..=4 => return None,
        5 => 0,
        6 => 1,
        7 => 2,
        8 => [n.saturating_sub(1), n, n + 5][t.pick(3)],
        _ => t.pick(n + 1),
    } as u64)
}

/// ORDER BY keys over the select list `out` (alias, type) and the input scope
fn order_keys(g: &mut Gen, sc: &GenScope, out: &[(String, ColType)], only_output: bool) -> Vec<OrderKey> {
    let nk = 1 + g.t.pick(4);
    let mut keys = vec![];
    for _ in 0..nk {
        let kind = if only_output { g.t.pick(2) } else { g.t.pick(8) };
        let e = match kind {
            // output alias
            0 | 2 | 3 if !out.is_empty() => Expr::col(&out[g.t.pick(out.len())].0),
            // ordinal
            1 if !out.is_empty() => Expr::int(g.t.pick(out.len()) as i64 + 1),
            // input column (possibly not selected)
            4 | 5 => {
                let c = &sc.cols[g.t.pick(sc.cols.len())];
                Expr::qcol(&c.rel, &c.name)
            }
            // expression over input columns
            _ => {
                let c = sc.cols[g.t.pick(sc.cols.len())].clone();
                let ty = if c.ty == ColType::Int32 { ColType::Int } else { c.ty };
                match g.expr(sc, ty, 1, false) {
                    // a bare integer literal would be read as an ordinal
                    Expr::Lit(_) => Expr::qcol(&c.rel, &c.name),
                    e => e,
                }
            }
        };
        let desc = g.t.chance(45);
        let nulls_first = match g.t.pick(5) {
            0 | 1 => None,
            2 | 3 => Some(true),
            _ => Some(false),
        };
        keys.push(OrderKey { e, desc, nulls_first });
    }
    keys
}

fn build(tables: Vec<Table>, tape: Vec<u16>, cuts: Vec<usize>) -> SortCase {
    let profile = gen_profile();
    let mut g = Gen::new(tape, &profile);
    let t = &tables[0];
    let n = t.rows.len();
    let sc = GenScope { cols: t.cols.iter().map(|c| ScopeCol { rel: "t1".into(), name: c.name.clone(), ty: c.ty }).collect(), outer: vec![] };
    let from = vec![From::Table { name: "r".into(), alias: Some("t1".into()) }];
    let mut features: Vec<String> = vec![];
    let where_ = if g.t.chance(30) {
        features.push("where".into());
        Some(g.bool_expr(&sc, 1, false))
    } else {
        None
    };
    let distinct = g.t.chance(10);
    let star = !distinct && g.t.chance(15);
    let mut items = vec![];
    let mut out: Vec<(String, ColType)> = vec![];
    if star {
        features.push("star".into());
        items.push(Item::Star);
        out = t.cols.iter().map(|c| (c.name.clone(), c.ty)).collect();
    } else {
        let ni = 1 + g.t.pick(4);
        for i in 0..ni {
            let c = sc.cols[g.t.pick(sc.cols.len())].clone();
            let e = if g.t.chance(20) {
                let ty = if c.ty == ColType::Int32 { ColType::Int } else { c.ty };
                g.expr(&sc, ty, 1, false)
            } else {
                Expr::qcol(&c.rel, &c.name)
            };
            let a = format!("c{}", i + 1);
            items.push(Item::Expr(e, Some(a.clone())));
            out.push((a, c.ty));
        }
    }
    if distinct {
        features.push("distinct".into());
    }
    let order_by = order_keys(&mut g, &sc, &out, distinct);
    let limit = limit_choice(&mut g.t, n);
    let offset = offset_choice(&mut g.t, n);
    let spill_limit = if n >= 1000 { [1usize, 2048, 16384, 65536][g.t.pick(4)] } else { [1usize, 1, 48, 160, 512][g.t.pick(5)] };
    let sel = Select { distinct, items, from, where_, group: Group::None, having: None };
    let mut query = Query::select(sel);
    query.order_by = order_by;
    query.limit = limit;
    query.offset = offset;
    features.push("order_by".into());
    if limit.is_some() {
        features.push("limit".into());
    }
    if offset.is_some() {
        features.push("offset".into());
    }
    for f in &g.features {
        features.push(f.to_string());
    }
    SortCase { sql_case: SqlCase { tables, query, cuts: vec![cuts], features }, spill_limit }
}

/// The select-list expression / input expression a sort key denotes.
fn resolve_key(sel: &Select, t: &Table, k: &Expr) -> Expr {
    let items: Vec<(Expr, String)> = sel
        .items
        .iter()
        .flat_map(|it| match it {
            Item::Star | Item::QStar(_) => t.cols.iter().map(|c| (Expr::qcol("t1", &c.name), c.name.clone())).collect::<Vec<_>>(),
            Item::Expr(e, a) => vec![(e.clone(), a.clone().unwrap_or_default())],
        })
        .collect();
    match k {
        Expr::Lit(Value::Int(i)) if *i >= 1 && (*i as usize) <= items.len() => items[*i as usize - 1].0.clone(),
        Expr::Col { rel: None, name } => items.iter().find(|(_, a)| a.eq_ignore_ascii_case(name)).map(|(e, _)| e.clone()).unwrap_or_else(|| k.clone()),
        _ => k.clone(),
    }
}

/// The values of every sort key for the rows that reach the sort (one column per key).
fn key_values(c: &SqlCase) -> Option<Rows> {
    let SetExpr::Select(sel) = &c.query.body else { return None };
    let items: Vec<Item> = c.query.order_by.iter().enumerate().map(|(i, k)| Item::Expr(resolve_key(sel, &c.tables[0], &k.e), Some(format!("k{}", i)))).collect();
    let q = Query::select(Select { distinct: false, items, from: sel.from.clone(), where_: sel.where_.clone(), group: Group::None, having: None });
    Db::new(&c.tables).run(&q).ok().map(|a| a.rows)
}

/// (some key is NULL for a sorted row, some key declared NULLS FIRST is NULL for a sorted row)
fn null_in_nulls_first_key(c: &SqlCase) -> (bool, bool) {
    let Some(rows) = key_values(c) else { return (false, false) };
    let mut any_null = false;
    let mut nf_null = false;
    for (j, k) in c.query.order_by.iter().enumerate() {
        if rows.iter().any(|r| r[j].is_null()) {
            any_null = true;
            if k.nulls_first == Some(true) {
                nf_null = true;
            }
        }
    }
    (any_null, nf_null)
}

/// Data condition of finding `sort-spill-merge-order`: the k-way merge of the
/// spilled runs compares keys with NULLs hard-coded last *before* reversing for
/// DESC, and only orders Int64/Int32/Float64/Utf8/Date32. It therefore
/// disagrees with the order inside the runs exactly when some key
///  (a) is NULL for a sorted row and is declared ASC NULLS FIRST or DESC NULLS LAST
///      (= the default for DESC), or
///  (b) is of another type (BOOLEAN here) with two distinct non-NULL values.
fn merge_comparator_disagrees(c: &SqlCase) -> bool {
    let Some(rows) = key_values(c) else { return false };
    for (j, k) in c.query.order_by.iter().enumerate() {
        let has_null = rows.iter().any(|r| r[j].is_null());
        if has_null && k.nulls_first.unwrap_or(false) != k.desc {
            return true;
        }
        let mut bools = rows.iter().filter_map(|r| if let Value::Bool(b) = r[j] { Some(b) } else { None });
        if let Some(first) = bools.next() {
            if bools.any(|b| b != first) {
                return true;
            }
        }
    }
    false
}

/// Is a tie group of the full order cut by the OFFSET or LIMIT boundary?
fn tie_at_boundary(a: &crate::refsql::RefAnswer) -> bool {
    let Some((full, groups)) = &a.sorted_full else { return false };
    let n = full.len();
    let off = (a.offset.unwrap_or(0) as usize).min(n);
    let end = match a.limit {
        Some(l) => (off + l as usize).min(n),
        None => n,
    };
    let cut = |p: usize| p > 0 && p < n && groups[p - 1] == groups[p];
    (a.limit.is_some() && cut(end)) || (a.offset.is_some() && cut(off))
}

// ---------------------------------------------------------------------------
// known findings (spilled external sort)
// ---------------------------------------------------------------------------

/// Number of batches the table is registered in. With a spilling memory limit
/// the external sort writes one sorted run per group of input batches, so ≥2
/// batches is the (slightly over-approximating) condition for "≥2 runs are merged".
fn batches(c: &SqlCase) -> usize {
    let n = c.tables[0].rows.len();
    let mut pts: Vec<usize> = c.cuts.first().cloned().unwrap_or_default().into_iter().map(|x| x.min(n)).collect();
    pts.sort();
    pts.len() + 1
}

pub const KF_FETCH: &str = "sort-spill-ignores-fetch";
pub const KF_MERGE: &str = "sort-spill-merge-order";

fn classify(c: &SqlCase, _ev: &Ev, reference: &crate::refsql::RefAnswer, _cfg: &EngineCfg, out: &RunOut, msg: &str) -> Option<&'static str> {
    // both findings live in the spilled branch of ExternalSortExec
    if out.spilled == 0 {
        return None;
    }
    let Ok(got) = &out.rows else { return None };
    let q = &c.query;
    // (DISTINCT: the sort input comes from a hash aggregate, which emits several batches on its own)
    let distinct = matches!(&q.body, SetExpr::Select(s) if s.distinct);
    let merge_sig = (batches(c) >= 2 || distinct) && merge_comparator_disagrees(c);
    // (1) spilled sort fused with LIMIT (no OFFSET / OFFSET 0): the fetch is
    // dropped and every sorted row comes back. To keep searching behind it, the
    // rows returned must still be the complete, correctly ordered sort output.
    if q.limit.is_some() && q.offset.unwrap_or(0) == 0 && msg.starts_with("row count") {
        if let Some((full, _)) = &reference.sorted_full {
            if got.len() == full.len() && got.len() > q.limit.unwrap() as usize {
                let mut unlimited = reference.clone();
                unlimited.limit = None;
                unlimited.offset = None;
                unlimited.rows = full.clone();
                return match crate::refsql::compare_answer(&unlimited, got, 1e-9) {
                    Ok(()) => Some(KF_FETCH),
                    Err(_) if merge_sig => Some(KF_MERGE),
                    Err(_) => None,
                };
            }
        }
        return None;
    }
    // (2) ≥2 sorted runs merged with a comparator that disagrees with the run order
    if merge_sig && msg.starts_with("rows at output positions") {
        return Some(KF_MERGE);
    }
    None
}

pub struct OrderLimit;
impl Check for OrderLimit {
    type Case = SortCase;
    fn name(&self) -> &'static str {
        "order_limit"
    }
    fn rule(&self) -> &'static str {
        "both configurations answered, the spilling configuration really spilled, and (a tie group of the full sort key is cut by the LIMIT or OFFSET boundary, or a sort key declared NULLS FIRST is NULL for some sorted row)"
    }
    fn cases(&self, tier: Tier) -> u32 {
        tier.pick(8000, 150_000)
    }
    fn max_shrink_iters(&self) -> u32 {
        1200
    }
    fn strategy(&self, tier: Tier) -> BoxedStrategy<SortCase> {
        table_strategy(tier)
            .prop_flat_map(|t| {
                let n = t.rows.len();
                (Just(vec![t]), proptest::collection::vec(any::<u16>(), 0..70), proptest::collection::vec(0..=n.max(1), 0..=10))
            })
            .prop_map(|(tables, tape, cuts)| build(tables, tape, cuts))
            .boxed()
    }
    fn test(&self, case: &SortCase, obs: &mut Obs) -> Verdict {
        let c = &case.sql_case;
        let cfgs = [EngineCfg::mem("mem"), EngineCfg::mem("spill").limit(case.spill_limit)];
        let out = judge_multi(c, &cfgs, obs, 1e-9, classify, true);
        let Some(reference) = &out.reference else { return out.verdict };
        // path labels
        for r in &out.per_cfg {
            if r.answered.is_none() {
                continue;
            }
            let plan = r.plan.as_deref().unwrap_or("");
            let path = if r.spilled {
                "spilled"
            } else if plan.lines().any(|l| l.trim() == "Limit") || c.query.limit.is_none() {
                "full_sort"
            } else {
                "fused_topk"
            };
            obs.label(format!("path:{}", path));
            if r.spilled {
                obs.label(format!("spilled_batches:{}", batches(c).min(9)));
            }
        }
        let (any_null, nf_null) = null_in_nulls_first_key(c);
        let tie = tie_at_boundary(reference);
        if tie {
            obs.label("tie_at_boundary");
        }
        if any_null {
            obs.label("null_in_key");
        }
        if nf_null {
            obs.label("null_in_nulls_first_key");
        }
        obs.label(format!("keys:{}", c.query.order_by.len()));
        obs.label(format!("rows:{}", if c.tables[0].rows.len() >= 1000 { "1000+" } else { "small" }));
        let spilled = out.per_cfg.iter().any(|r| r.spilled && r.answered.is_some());
        obs.nontrivial(out.answered() == 2 && spilled && (tie || nf_null));
        out.verdict
    }
}

// ---------------------------------------------------------------------------
// LIMIT/OFFSET inside a derived table with a TOTAL order, filtered from outside
// ---------------------------------------------------------------------------

fn build_derived(tables: Vec<Table>, tape: Vec<u16>, cuts: Vec<usize>) -> SortCase {
    let profile = gen_profile();
    let mut g = Gen::new(tape, &profile);
    let t = &tables[0];
    let n = t.rows.len();
    let sc = GenScope { cols: t.cols.iter().map(|c| ScopeCol { rel: "t1".into(), name: c.name.clone(), ty: c.ty }).collect(), outer: vec![] };
    let mut features: Vec<String> = vec!["derived".into(), "order_by".into()];
    // inner select: 1-3 plain columns (distinct columns so the order below is total)
    let ni = 1 + g.t.pick(3.min(sc.cols.len()));
    let mut picked: Vec<usize> = vec![];
    for _ in 0..ni {
        let i = g.t.pick(sc.cols.len());
        if !picked.contains(&i) {
            picked.push(i);
        }
    }
    let mut items = vec![];
    let mut out: Vec<ScopeCol> = vec![];
    for (j, &i) in picked.iter().enumerate() {
        let c = &sc.cols[i];
        let a = format!("c{}", j + 1);
        items.push(Item::Expr(Expr::qcol("t1", &c.name), Some(a.clone())));
        out.push(ScopeCol { rel: "d".into(), name: a, ty: c.ty });
    }
    let inner_where = if g.t.chance(20) { Some(g.bool_expr(&sc, 1, false)) } else { None };
    // total order: every output column is a key, in a random rotation
    let rot = g.t.pick(out.len());
    let mut order_by = vec![];
    for j in 0..out.len() {
        let c = &out[(j + rot) % out.len()];
        let desc = g.t.chance(45);
        let nulls_first = match g.t.pick(5) {
            0 | 1 => None,
            2 | 3 => Some(true),
            _ => Some(false),
        };
        order_by.push(OrderKey { e: Expr::col(&c.name), desc, nulls_first });
    }
    let mut inner = Query::select(Select { distinct: false, items, from: vec![From::Table { name: "r".into(), alias: Some("t1".into()) }], where_: inner_where, group: Group::None, having: None });
    inner.order_by = order_by;
    // always a LIMIT or an OFFSET (that is the point); mostly windows that really cut
    if n >= 2 && g.t.chance(70) {
        inner.limit = Some(1 + g.t.pick(n - 1) as u64);
        if g.t.chance(35) {
            inner.offset = Some(g.t.pick(n / 2 + 1) as u64);
        }
    } else {
        inner.limit = limit_choice(&mut g.t, n);
        inner.offset = offset_choice(&mut g.t, n);
    }
    if inner.limit.is_none() && inner.offset.is_none() {
        inner.limit = Some((n / 2) as u64);
    }
    features.push("limit".into());
    let dsc = GenScope { cols: out.clone(), outer: vec![] };
    let outer_where = if g.t.chance(90) {
        features.push("where".into());
        Some(if g.t.chance(60) {
            // selective single-column predicate
            let col = out[g.t.pick(out.len())].clone();
            let e = Expr::qcol("d", &col.name);
            match g.t.pick(4) {
                0 => Expr::IsNull { e: Box::new(e), neg: g.t.chance(50) },
                _ if col.ty == ColType::Bool => e,
                _ => {
                    let op = [BinOp::Eq, BinOp::Lt, BinOp::Ne, BinOp::Le, BinOp::Gt, BinOp::Ge][g.t.pick(6)];
                    let ty = if col.ty == ColType::Int32 { ColType::Int } else { col.ty };
                    Expr::bin(e, op, g.literal(ty))
                }
            }
        } else {
            g.bool_expr(&dsc, 1, false)
        })
    } else {
        None
    };
    let outer_items: Vec<Item> = if g.t.chance(25) {
        features.push("global_count".into());
        vec![Item::Expr(Expr::count_star(), Some("n".into()))]
    } else {
        out.iter().map(|c| Item::Expr(Expr::qcol("d", &c.name), Some(format!("o_{}", c.name)))).collect()
    };
    let spill_limit = [1usize, 1, 48, 160, 512][g.t.pick(5)];
    let sel = Select {
        distinct: false,
        items: outer_items,
        from: vec![From::Derived { q: Box::new(inner), alias: "d".into(), cols: None }],
        where_: outer_where,
        group: Group::None,
        having: None,
    };
    for f in &g.features {
        features.push(f.to_string());
    }
    SortCase { sql_case: SqlCase { tables, query: Query::select(sel), cuts: vec![cuts], features }, spill_limit }
}

pub const KF_PUSH: &str = "filter-pushed-below-limit";

/// The statement a predicate pushdown through LIMIT turns the case into:
/// `SELECT items FROM (SELECT * FROM (inner without LIMIT/OFFSET) d WHERE w ORDER BY … LIMIT l OFFSET o) d`.
fn pushed_query(c: &SqlCase) -> Option<Query> {
    let SetExpr::Select(sel) = &c.query.body else { return None };
    let (Some(From::Derived { q, alias, cols }), Some(w)) = (sel.from.first(), &sel.where_) else { return None };
    let mut unlimited = (**q).clone();
    unlimited.limit = None;
    unlimited.offset = None;
    unlimited.order_by = vec![];
    let filtered = Query {
        with: vec![],
        body: SetExpr::Select(Box::new(Select {
            distinct: false,
            items: vec![Item::Star],
            from: vec![From::Derived { q: Box::new(unlimited), alias: alias.clone(), cols: cols.clone() }],
            where_: Some(w.clone()),
            group: Group::None,
            having: None,
        })),
        order_by: q.order_by.clone(),
        limit: q.limit,
        offset: q.offset,
    };
    Some(Query::select(Select {
        distinct: false,
        items: sel.items.clone(),
        from: vec![From::Derived { q: Box::new(filtered), alias: alias.clone(), cols: cols.clone() }],
        where_: None,
        group: Group::None,
        having: None,
    }))
}

fn classify_derived(c: &SqlCase, _ev: &Ev, _r: &crate::refsql::RefAnswer, _cfg: &EngineCfg, out: &RunOut, _msg: &str) -> Option<&'static str> {
    let SetExpr::Select(sel) = &c.query.body else { return None };
    let Some(From::Derived { q, .. }) = sel.from.first() else { return None };
    let Ok(got) = &out.rows else { return None };
    // (0) the outer predicate was evaluated below the derived table's LIMIT/OFFSET:
    // the engine's answer is exactly the answer of that (different) statement
    if let Some(p) = pushed_query(c) {
        if let Ok(a) = Db::new(&c.tables).run(&p) {
            if multiset_eq(&a.rows, got, 1e-9) {
                return Some(KF_PUSH);
            }
        }
    }
    // the spilled sort inside the derived table has the same two defects as a
    // top-level spilled sort; the statement shape decides which one can apply
    if out.spilled == 0 {
        return None;
    }
    let inner = SqlCase { tables: c.tables.clone(), query: (**q).clone(), cuts: c.cuts.clone(), features: vec![] };
    if batches(c) >= 2 && merge_comparator_disagrees(&inner) {
        return Some(KF_MERGE);
    }
    if q.limit.is_some() && q.offset.unwrap_or(0) == 0 {
        // fetch dropped: the answer is exactly that of the statement without the inner LIMIT
        let mut no_limit = c.query.clone();
        if let SetExpr::Select(s2) = &mut no_limit.body {
            if let Some(From::Derived { q: q2, .. }) = s2.from.first_mut() {
                q2.limit = None;
                q2.offset = None;
            }
        }
        if let Ok(a) = Db::new(&c.tables).run(&no_limit) {
            if multiset_eq(&a.rows, got, 1e-9) {
                return Some(KF_FETCH);
            }
        }
    }
    None
}

pub struct LimitInDerived;
impl Check for LimitInDerived {
    type Case = SortCase;
    fn name(&self) -> &'static str {
        "limit_in_derived"
    }
    fn rule(&self) -> &'static str {
        "the engine answered and evaluating the outer predicate BEFORE the derived table's LIMIT/OFFSET (the wrong plan a predicate pushdown through LIMIT produces) would give a different answer than the statement's"
    }
    fn cases(&self, tier: Tier) -> u32 {
        tier.pick(3000, 60_000)
    }
    fn max_shrink_iters(&self) -> u32 {
        1200
    }
    fn strategy(&self, _tier: Tier) -> BoxedStrategy<SortCase> {
        let small = proptest::collection::vec((proptest::sample::select(TYPES.to_vec()), proptest::sample::select(vec![0u32, 20, 50])), 2..=4).prop_flat_map(|spec| {
            let cols: Vec<Column> = spec.iter().enumerate().map(|(i, (ty, _))| Column { name: NAMES[i].to_string(), ty: *ty }).collect();
            let row = spec.iter().map(|(ty, pct)| small_value(*ty, *pct)).collect::<Vec<_>>();
            proptest::collection::vec(row, 0..=24).prop_map(move |rows| Table { name: "r".into(), cols: cols.clone(), rows })
        });
        small
            .prop_flat_map(|t| {
                let n = t.rows.len();
                (Just(vec![t]), proptest::collection::vec(any::<u16>(), 0..60), proptest::collection::vec(0..=n.max(1), 0..=4))
            })
            .prop_map(|(tables, tape, cuts)| build_derived(tables, tape, cuts))
            .boxed()
    }
    fn test(&self, case: &SortCase, obs: &mut Obs) -> Verdict {
        let c = &case.sql_case;
        let cfgs = [EngineCfg::mem("mem"), EngineCfg::mem("spill").limit(case.spill_limit)];
        let out = judge_multi(c, &cfgs, obs, 1e-9, classify_derived, false);
        if out.reference.is_none() {
            return out.verdict;
        }
        // non-triviality: would "filter first, then limit" give another answer?
        let mut nt = false;
        if let (Some(p), Some(reference)) = (pushed_query(c), &out.reference) {
            if let Ok(a) = Db::new(&c.tables).run(&p) {
                if !multiset_eq(&a.rows, &reference.rows, 0.0) {
                    nt = true;
                    obs.label("pushdown_would_change_answer");
                }
            }
        }
        for r in &out.per_cfg {
            if r.spilled && r.answered.is_some() {
                obs.label("path:spilled");
            }
        }
        obs.nontrivial(nt && out.answered() >= 1);
        out.verdict
    }
}

pub fn property() -> Property {
    Property {
        id: "C25",
        level: "exploration",
        assumptions: &[
            "the reference evaluator refsql implements ORDER BY (default NULLS LAST in both directions, as binder.rs documents), LIMIT and OFFSET; answers are compared up to ties with refsql::compare_answer (DESIGN §3.4)",
            "sort keys are finite doubles (multiples of 0.25), no NaN/-0.0; strings compare bytewise",
            "the spilled path is reached with ExecutionConfig::with_memory_limit; 'spilled' is measured from the context's MemoryPool::spilled() counter",
            "an engine error is an allowed outcome (labelled), a wrong answer is not",
            "large_spilled_sort: the table is regenerated from the case parameters (seeded splitmix64), id = input position is unique, so 'a permutation of the input' and 'drawn from the right tie group' are decided per row id; the run layout reported in labels is modelled from spillable.rs generate_runs/merge_runs (per-batch byte estimate, batch i goes to scan partition i % min(rayon threads, batches)) and confirmed only through the total MemoryPool::spilled() byte count; it never decides a verdict",
        ],
        checks: vec![Box::new(OrderLimit), Box::new(LimitInDerived), Box::new(big::LargeSpilledSort)],
    }
}
