//! C40 — CLI output formats round-trip the result.
//!
//! Code under test: `src/cli/output.rs` (`OutputFormatter` CSV/JSON writers).
//! The file lives in the *binary* crate, so it is compiled into the harness
//! (it depends only on arrow and chrono). THE PATH BELOW IS THE ONLY LINE THAT
//! DIFFERS BETWEEN A SANDBOX AND /verif.
//!
//! Input domain: whatever `Vec<RecordBatch>` a query returns — here batches of
//! Utf8/LargeUtf8/Int32/Int64/UInt64/Float32/Float64/Boolean/Decimal128 columns
//! (unique column names), split into 0..3 batches.
//!
//! Oracles
//!  * CSV: the `csv` crate (RFC 4180, `flexible(false)`, no header handling) AND
//!    an independent strict RFC 4180 record parser both return, for the header
//!    and for every row, exactly the cell text: the string itself for strings,
//!    the decimal spelling for integers, `true`/`false`, the empty field for
//!    NULL (as the writer documents), and for floats a field that parses to the
//!    same f64. (A one-column row whose text is empty is an empty line, which
//!    the `csv` crate skips by design; only the strict parser judges those.)
//!  * JSON: `serde_json` parses the output to an array with one object per row,
//!    keys = the column names, values equal to the cells: strings exactly,
//!    integers exactly, floats numerically (1e-15 relative: serde_json's default
//!    float parser is not always correctly rounded), non-finite floats as null
//!    or a string (JSON has no spelling for them), NULL as null, decimals as a
//!    string/number denoting exactly value/10^scale.
use super::Property;

// The formatter source (binary crate) compiled into the harness. THIS PATH IS THE ONLY LINE THAT DIFFERS
// BETWEEN A SANDBOX COPY AND /verif (there: "/repo/src/cli/output.rs").
#[path = "/repo/src/cli/output.rs"]
#[allow(dead_code, clippy::all)]
mod output;

use crate::runner::*;
use arrow::array::*;
use arrow::datatypes::{DataType, Field, Schema};
use arrow::record_batch::RecordBatch;
use output::{OutputFormat, OutputFormatter};
use proptest::prelude::*;
use serde::{Deserialize, Deserializer, Serialize, Serializer};
use serde_json::Value as J;
use std::sync::Arc;

#[derive(Clone, Copy, Debug)]
pub struct Fl(pub f64);
impl Serialize for Fl {
    fn serialize<S: Serializer>(&self, s: S) -> Result<S::Ok, S::Error> {
        s.serialize_str(&format!("{:?}", self.0))
    }
}
impl<'de> Deserialize<'de> for Fl {
    fn deserialize<D: Deserializer<'de>>(d: D) -> Result<Fl, D::Error> {
        let s = String::deserialize(d)?;
        s.parse::<f64>().map(Fl).map_err(serde::de::Error::custom)
    }
}

#[derive(Clone, Debug, Serialize, Deserialize)]
pub enum ColData {
    Utf8(Vec<Option<String>>),
    LargeUtf8(Vec<Option<String>>),
    I32(Vec<Option<i32>>),
    I64(Vec<Option<i64>>),
    U64(Vec<Option<u64>>),
    F32(Vec<Option<Fl>>),
    F64(Vec<Option<Fl>>),
    Bool(Vec<Option<bool>>),
    /// Decimal128(38, scale), unscaled values
    Dec(u8, Vec<Option<i64>>),
}
impl ColData {
    fn len(&self) -> usize {
        match self {
            ColData::Utf8(v) | ColData::LargeUtf8(v) => v.len(),
            ColData::I32(v) => v.len(),
            ColData::I64(v) => v.len(),
            ColData::U64(v) => v.len(),
            ColData::F32(v) | ColData::F64(v) => v.len(),
            ColData::Bool(v) => v.len(),
            ColData::Dec(_, v) => v.len(),
        }
    }
    fn build(&self) -> ArrayRef {
        match self {
            ColData::Utf8(v) => Arc::new(StringArray::from(v.clone())),
            ColData::LargeUtf8(v) => Arc::new(LargeStringArray::from(v.clone())),
            ColData::I32(v) => Arc::new(Int32Array::from(v.clone())),
            ColData::I64(v) => Arc::new(Int64Array::from(v.clone())),
            ColData::U64(v) => Arc::new(UInt64Array::from(v.clone())),
            ColData::F32(v) => Arc::new(Float32Array::from(v.iter().map(|x| x.map(|f| f.0 as f32)).collect::<Vec<_>>())),
            ColData::F64(v) => Arc::new(Float64Array::from(v.iter().map(|x| x.map(|f| f.0)).collect::<Vec<_>>())),
            ColData::Bool(v) => Arc::new(BooleanArray::from(v.clone())),
            ColData::Dec(scale, v) => Arc::new(
                Decimal128Array::from(v.iter().map(|x| x.map(|i| i as i128)).collect::<Vec<_>>())
                    .with_precision_and_scale(38, *scale as i8)
                    .expect("decimal"),
            ),
        }
    }
    fn is_string(&self) -> bool {
        matches!(self, ColData::Utf8(_) | ColData::LargeUtf8(_))
    }
}

#[derive(Clone, Debug, Serialize, Deserialize)]
pub struct Col {
    pub name: String,
    pub data: ColData,
}

#[derive(Clone, Debug, Serialize, Deserialize)]
pub struct OutCase {
    pub cols: Vec<Col>,
    /// batch boundaries; `no_batches` = the result has no batch at all
    pub cuts: Vec<usize>,
    pub no_batches: bool,
}

impl OutCase {
    fn rows(&self) -> usize {
        self.cols.first().map(|c| c.data.len()).unwrap_or(0)
    }
    fn well_formed(&self) -> bool {
        let n = self.rows();
        !self.cols.is_empty()
            && self.cols.iter().all(|c| c.data.len() == n)
            && {
                let mut names: Vec<&str> = self.cols.iter().map(|c| c.name.as_str()).collect();
                names.sort();
                names.windows(2).all(|w| w[0] != w[1])
            }
            && self.cuts.windows(2).all(|w| w[0] < w[1])
            && self.cuts.iter().all(|c| *c > 0 && *c < n.max(1))
            && self.cols.iter().all(|c| match &c.data {
                ColData::Dec(s, _) => *s <= 18,
                _ => true,
            })
    }
    fn batches(&self) -> Vec<RecordBatch> {
        if self.no_batches {
            return vec![];
        }
        let fields: Vec<Field> = self
            .cols
            .iter()
            .map(|c| {
                let a = c.data.build();
                Field::new(c.name.clone(), a.data_type().clone(), true)
            })
            .collect();
        let schema = Arc::new(Schema::new(fields));
        let whole = RecordBatch::try_new(schema, self.cols.iter().map(|c| c.data.build()).collect()).expect("batch");
        let n = self.rows();
        let mut b = vec![0usize];
        b.extend(self.cuts.iter().copied());
        b.push(n);
        b.windows(2).map(|w| whole.slice(w[0], w[1] - w[0])).collect()
    }
}

/// what a CSV field must be
#[derive(Clone, Debug)]
enum CsvWant {
    Text(String),
    /// a field that parses to this f64 (any NaN for NaN)
    Float(f64),
    /// not asserted (decimal display is not a CSV matter)
    Any,
}

fn csv_want(c: &ColData, i: usize) -> CsvWant {
    fn t<T: ToString>(v: &Option<T>) -> CsvWant {
        CsvWant::Text(v.as_ref().map(|x| x.to_string()).unwrap_or_default())
    }
    match c {
        ColData::Utf8(v) | ColData::LargeUtf8(v) => CsvWant::Text(v[i].clone().unwrap_or_default()),
        ColData::I32(v) => t(&v[i]),
        ColData::I64(v) => t(&v[i]),
        ColData::U64(v) => t(&v[i]),
        ColData::Bool(v) => t(&v[i]),
        ColData::F32(v) => v[i].map(|f| CsvWant::Float(f.0 as f32 as f64)).unwrap_or(CsvWant::Text(String::new())),
        ColData::F64(v) => v[i].map(|f| CsvWant::Float(f.0)).unwrap_or(CsvWant::Text(String::new())),
        ColData::Dec(_, v) => {
            if v[i].is_none() {
                CsvWant::Text(String::new())
            } else {
                CsvWant::Any
            }
        }
    }
}

fn csv_field_ok(want: &CsvWant, got: &str, f32col: bool) -> bool {
    match want {
        CsvWant::Text(t) => t == got,
        CsvWant::Any => true,
        CsvWant::Float(f) => {
            if f32col {
                match got.parse::<f32>() {
                    Ok(g) => (g.is_nan() && f.is_nan()) || g as f64 == *f,
                    Err(_) => false,
                }
            } else {
                match got.parse::<f64>() {
                    Ok(g) => (g.is_nan() && f.is_nan()) || g == *f,
                    Err(_) => false,
                }
            }
        }
    }
}

/// Strict RFC 4180 reader: records end with LF or CRLF (the last may lack it),
/// a field is either quoted (`""` = one quote, must be followed by `,` or the
/// record end) or free of `"`, `,`, CR and LF. `allow_bare_cr` switches to the
/// writer's own dialect — only LF ends a record and CR is ordinary data in an
/// unquoted field — and is used only to look behind an open finding.
fn rfc4180(text: &str, allow_bare_cr: bool) -> Result<Vec<Vec<String>>, String> {
    let ch: Vec<char> = text.chars().collect();
    let mut i = 0;
    let mut out = vec![];
    if ch.is_empty() {
        return Ok(out);
    }
    loop {
        // one record
        let mut rec = vec![];
        loop {
            // one field
            let mut f = String::new();
            if i < ch.len() && ch[i] == '"' {
                i += 1;
                loop {
                    if i >= ch.len() {
                        return Err("unterminated quoted field".into());
                    }
                    if ch[i] == '"' {
                        if i + 1 < ch.len() && ch[i + 1] == '"' {
                            f.push('"');
                            i += 2;
                        } else {
                            i += 1;
                            break;
                        }
                    } else {
                        f.push(ch[i]);
                        i += 1;
                    }
                }
                if i < ch.len() && !(ch[i] == ',' || ch[i] == '\n' || (ch[i] == '\r' && i + 1 < ch.len() && ch[i + 1] == '\n')) {
                    return Err(format!("text after the closing quote of a field (record {})", out.len()));
                }
            } else {
                while i < ch.len() && ch[i] != ',' && ch[i] != '\n' {
                    if ch[i] == '"' {
                        return Err(format!("quote inside an unquoted field (record {})", out.len()));
                    }
                    if ch[i] == '\r' && !allow_bare_cr {
                        if i + 1 < ch.len() && ch[i + 1] == '\n' {
                            break;
                        }
                        return Err(format!("bare CR inside an unquoted field (record {})", out.len()));
                    }
                    f.push(ch[i]);
                    i += 1;
                }
            }
            rec.push(f);
            if i < ch.len() && ch[i] == ',' {
                i += 1;
                continue;
            }
            break;
        }
        out.push(rec);
        // record end
        if i < ch.len() && ch[i] == '\r' && !allow_bare_cr {
            i += 1;
        }
        if i < ch.len() && ch[i] == '\n' {
            i += 1;
        }
        if i >= ch.len() {
            return Ok(out);
        }
    }
}

fn csv_crate(text: &str) -> Result<Vec<Vec<String>>, String> {
    let mut rd = csv::ReaderBuilder::new().has_headers(false).flexible(false).from_reader(text.as_bytes());
    let mut out = vec![];
    for r in rd.records() {
        let r = r.map_err(|e| e.to_string())?;
        out.push(r.iter().map(|s| s.to_string()).collect());
    }
    Ok(out)
}

fn needs_csv_quote(s: &str) -> bool {
    s.contains(',') || s.contains('"') || s.contains('\n') || s.contains('\r')
}

fn clip(s: &str) -> String {
    let mut t: String = s.chars().take(600).collect();
    if t.len() < s.len() {
        t.push_str("…");
    }
    format!("{:?}", t)
}

// ---------------------------------------------------------------------------
// generators
// ---------------------------------------------------------------------------

fn text(special: u32) -> BoxedStrategy<String> {
    // Line breaks and other control characters are (for JSON) an open finding, a bare CR is one for CSV:
    // quotes/commas/backslashes carry most of the "hot" weight so that most non-trivial cases stay clear of them.
    let tok = prop_oneof![
        20 => "[a-zA-Z0-9 ]{1,4}",
        special => prop_oneof![Just(","), Just("\""), Just("\"\""), Just(",\""), Just("'"), Just(";"), Just(" "), Just("\\"), Just("\\n"), Just("\\\""), Just("/")].prop_map(String::from),
        special / 4 + 1 => prop_oneof![Just("\n"), Just("\r\n"), Just("\n\n")].prop_map(String::from),
        special / 8 + 1 => Just("\r".to_string()),
        special / 4 + 1 => prop_oneof![Just("\t"), Just("\u{0}"), Just("\u{1}"), Just("\u{8}"), Just("\u{b}"), Just("\u{c}"), Just("\u{1b}"), Just("\u{1f}"), Just("\u{7f}")].prop_map(String::from),
        special / 2 + 1 => prop_oneof![Just("é"), Just("ß"), Just("日本"), Just("😀"), Just("\u{2028}"), Just("\u{feff}"), Just("\u{85}"), Just("ñ́")].prop_map(String::from),
        2 => prop_oneof![Just("NULL"), Just("null"), Just("NaN"), Just("true"), Just("1.5"), Just("-0")].prop_map(String::from),
    ];
    prop_oneof![1 => Just(String::new()), 10 => proptest::collection::vec(tok, 1..5).prop_map(|v| v.concat())].boxed()
}

fn opt<T: std::fmt::Debug + Clone + 'static>(s: BoxedStrategy<T>, n: usize) -> BoxedStrategy<Vec<Option<T>>> {
    proptest::collection::vec(prop_oneof![6 => s.prop_map(Some), 1 => Just(None)], n).boxed()
}

fn f64s(nonfinite: u32) -> BoxedStrategy<Fl> {
    prop_oneof![
        6 => (-2000i32..2000).prop_map(|k| Fl(k as f64 / 8.0)),
        // |x| < 1e300: serde_json's default number parser reports "number out of range" for the
        // (valid) positional spelling of values next to f64::MAX — an oracle limit, not an engine matter
        3 => any::<f64>().prop_map(|x| Fl(if x.is_finite() && x.abs() < 1e300 { x } else { 0.5 })),
        2 => prop_oneof![Just(0.1), Just(-0.0), Just(1e21), Just(1e-7), Just(1e299), Just(f64::MIN_POSITIVE), Just(5e-324), Just(1.0e15), Just(123456789.125)].prop_map(Fl),
        nonfinite => prop_oneof![Just(f64::NAN), Just(f64::INFINITY), Just(f64::NEG_INFINITY)].prop_map(Fl),
    ]
    .boxed()
}
fn f32s(nonfinite: u32) -> BoxedStrategy<Fl> {
    prop_oneof![
        6 => (-2000i32..2000).prop_map(|k| Fl(k as f64 / 8.0)),
        3 => any::<f32>().prop_map(|x| Fl(if x.is_finite() { x as f64 } else { 0.5 })),
        2 => prop_oneof![Just(0.1f32), Just(-0.0), Just(1e21), Just(f32::MAX), Just(f32::MIN_POSITIVE)].prop_map(|x| Fl(x as f64)),
        nonfinite => prop_oneof![Just(f64::NAN), Just(f64::INFINITY), Just(f64::NEG_INFINITY)].prop_map(Fl),
    ]
    .boxed()
}

fn col_data(n: usize) -> BoxedStrategy<ColData> {
    prop_oneof![
        // strings: mostly with hot characters, the NT of this property
        8 => opt(text(8), n).prop_map(ColData::Utf8),
        2 => opt(text(0), n).prop_map(ColData::Utf8),
        1 => opt(text(8), n).prop_map(ColData::LargeUtf8),
        2 => opt(prop_oneof![4 => -5i64..6, 1 => Just(i64::MAX), 1 => Just(i64::MIN), 2 => any::<i64>()].boxed(), n).prop_map(ColData::I64),
        1 => opt(any::<i32>().boxed(), n).prop_map(ColData::I32),
        1 => opt(prop_oneof![3 => 0u64..5, 1 => Just(u64::MAX), 1 => any::<u64>()].boxed(), n).prop_map(ColData::U64),
        // non-finite floats are an open finding in the JSON writer: keep them in ~1/4 of the float columns
        3 => opt(f64s(0), n).prop_map(ColData::F64),
        1 => opt(f64s(3), n).prop_map(ColData::F64),
        1 => opt(f32s(0), n).prop_map(ColData::F32),
        1 => opt(any::<bool>().boxed(), n).prop_map(ColData::Bool),
        1 => (0u8..7, opt(prop_oneof![3 => -2000i64..2000, 1 => any::<i64>()].boxed(), n)).prop_map(|(s, v)| ColData::Dec(s, v)),
    ]
    .boxed()
}

fn col_name() -> BoxedStrategy<String> {
    prop_oneof![
        30 => "[a-z][a-z0-9_]{0,6}",
        3 => prop_oneof![Just("SUM(x)"), Just("count(*)"), Just("total price"), Just("prix_é"), Just("a.b"), Just("x + 1"), Just("'lit'")].prop_map(String::from),
        // names that need CSV quoting / JSON escaping (open findings): rare
        1 => prop_oneof![Just("a,b"), Just("concat(a, b)"), Just("say \"hi\""), Just("line\nbreak"), Just("back\\slash"), Just("tab\there"), Just("cr\rname")].prop_map(String::from),
    ]
    .boxed()
}

fn case_strategy(tier: Tier) -> BoxedStrategy<OutCase> {
    let max_rows = tier.pick(8usize, 40);
    (1usize..5, prop_oneof![1 => Just(0usize), 3 => Just(1usize), 8 => 2..=max_rows])
        .prop_flat_map(|(nc, nr)| {
            (
                proptest::collection::vec((col_name(), col_data(nr)), nc),
                proptest::collection::vec(any::<u16>(), 0..3),
                prop_oneof![30 => Just(false), 1 => Just(true)],
            )
        })
        .prop_map(|(cols, cutsel, no_batches)| {
            let mut seen = std::collections::BTreeSet::new();
            let cols: Vec<Col> = cols
                .into_iter()
                .enumerate()
                .map(|(i, (mut name, data))| {
                    if !seen.insert(name.clone()) {
                        name = format!("{}_{}", name, i);
                        seen.insert(name.clone());
                    }
                    Col { name, data }
                })
                .collect();
            let n = cols[0].data.len();
            let mut cuts: Vec<usize> = if n >= 2 { cutsel.iter().map(|s| 1 + crate::data::pick_idx(*s, n - 1)).collect() } else { vec![] };
            cuts.sort();
            cuts.dedup();
            OutCase { cols, cuts, no_batches }
        })
        .boxed()
}

fn hot_char(c: char) -> bool {
    c == '"' || c == '\n' || c == '\r' || (c as u32) < 0x20 || c == '\u{7f}'
}

fn labels(c: &OutCase, obs: &mut Obs) -> bool {
    let mut hot = false;
    let mut ctrl = false;
    let mut nonascii = false;
    for col in &c.cols {
        if let ColData::Utf8(v) | ColData::LargeUtf8(v) = &col.data {
            for s in v.iter().flatten() {
                hot |= s.chars().any(hot_char);
                ctrl |= s.chars().any(|c| (c as u32) < 0x20);
                nonascii |= !s.is_ascii();
            }
        }
    }
    if hot {
        obs.label("cell:quote/linebreak/control");
    }
    if ctrl {
        obs.label("cell:control-char");
    }
    if nonascii {
        obs.label("cell:non-ascii");
    }
    if c.cols.iter().any(|c| needs_csv_quote(&c.name)) {
        obs.label("name:needs-csv-quote");
    }
    if c.cuts.len() > 0 {
        obs.label("multi-batch");
    }
    if c.no_batches {
        obs.label("no-batches");
    }
    obs.label(format!("cols:{}", c.cols.len()));
    hot
}

// ---------------------------------------------------------------------------
// check 1: CSV
// ---------------------------------------------------------------------------

pub struct CsvRoundTrip;
impl Check for CsvRoundTrip {
    type Case = OutCase;
    fn name(&self) -> &'static str {
        "csv_roundtrip"
    }
    fn rule(&self) -> &'static str {
        ">=1 row and a string cell contains a quote, a line break (CR/LF) or a control character"
    }
    fn cases(&self, tier: Tier) -> u32 {
        tier.pick(4000, 1_500_000)
    }
    fn strategy(&self, tier: Tier) -> BoxedStrategy<OutCase> {
        case_strategy(tier)
    }
    fn test(&self, c: &OutCase, obs: &mut Obs) -> Verdict {
        if !c.well_formed() {
            return Verdict::Discard("malformed case".into());
        }
        let hot = labels(c, obs);
        let batches = c.batches();
        let out = OutputFormatter::new(OutputFormat::Csv).format_to_string(&batches);
        if c.no_batches {
            // nothing is displayed for a result without batches
            return if out.is_empty() { Verdict::Pass } else { Verdict::Fail(format!("no batches but CSV output {}", clip(&out))) };
        }
        let n = c.rows();
        let nc = c.cols.len();
        obs.nontrivial(n >= 1 && hot);
        let names: Vec<String> = c.cols.iter().map(|c| c.name.clone()).collect();
        // judge a parsed document (header + rows); `skip_empty_single` = the csv crate drops empty lines
        let judge = |recs: &[Vec<String>], with_header: bool, skip_empty_single: bool| -> Result<(), String> {
            let mut k = 0usize;
            if with_header {
                match recs.first() {
                    Some(h) if *h == names => {}
                    other => return Err(format!("header parsed as {:?}, column names are {:?}", other, names)),
                }
                k = 1;
            }
            for r in 0..n {
                let wants: Vec<CsvWant> = c.cols.iter().map(|col| csv_want(&col.data, r)).collect();
                if skip_empty_single && nc == 1 && matches!(&wants[0], CsvWant::Text(t) if t.is_empty()) {
                    continue;
                }
                let Some(rec) = recs.get(k) else {
                    return Err(format!("row {} missing: only {} records parsed", r, recs.len()));
                };
                k += 1;
                if rec.len() != nc {
                    return Err(format!("row {} parsed into {} fields, the result has {} columns: {:?}", r, rec.len(), nc, rec));
                }
                for (j, w) in wants.iter().enumerate() {
                    if !csv_field_ok(w, &rec[j], matches!(c.cols[j].data, ColData::F32(_))) {
                        return Err(format!("row {} column {:?}: parsed {:?}, the cell is {:?}", r, names[j], rec[j], w));
                    }
                }
            }
            if k != recs.len() {
                return Err(format!("{} extra record(s) parsed, e.g. {:?}", recs.len() - k, recs[k]));
            }
            Ok(())
        };
        let full = |text: &str, with_header: bool, lenient_cr: bool| -> Result<(), String> {
            let strict = rfc4180(text, lenient_cr).map_err(|e| format!("not RFC 4180: {}", e))?;
            judge(&strict, with_header, false).map_err(|e| format!("[strict RFC 4180 reader] {}", e))?;
            if !lenient_cr {
                let lib = csv_crate(text).map_err(|e| format!("csv crate: {}", e))?;
                judge(&lib, with_header, true).map_err(|e| format!("[csv crate] {}", e))?;
            }
            Ok(())
        };
        let first = match full(&out, true, false) {
            Ok(()) => return Verdict::Pass,
            Err(e) => e,
        };
        let msg = format!("CSV output does not parse back to the result: {}\n  output = {}", first, clip(&out));
        // ---- look behind the open findings -------------------------------
        // (a) header written unquoted: replace exactly that raw header line by the correctly quoted one
        //     and judge the document again
        let raw_header = format!("{}\n", names.join(","));
        let header_finding = names.iter().any(|s| needs_csv_quote(s)) && out.starts_with(&raw_header);
        let repaired: String = if header_finding {
            let q: Vec<String> = names
                .iter()
                .map(|s| if needs_csv_quote(s) { format!("\"{}\"", s.replace('"', "\"\"")) } else { s.clone() })
                .collect();
            format!("{}\n{}", q.join(","), &out[raw_header.len()..])
        } else {
            out.clone()
        };
        let body = repaired.as_str();
        let with_header = true;
        if header_finding {
            if full(body, true, false).is_ok() {
                obs.label("known:header-unquoted");
                return Verdict::Known { id: "c40-csv-header-not-quoted".into(), msg };
            }
        }
        // (b) a cell with a bare CR (and no `,`/`"`/LF) is written unquoted
        let bare_cr_cell = c.cols.iter().any(|col| match &col.data {
            ColData::Utf8(v) | ColData::LargeUtf8(v) => {
                v.iter().flatten().any(|s| s.contains('\r') && !s.contains(',') && !s.contains('"') && !s.contains('\n'))
            }
            _ => false,
        });
        if bare_cr_cell && full(body, with_header, true).is_ok() {
            obs.label("known:bare-cr-unquoted");
            return Verdict::Known {
                id: if header_finding { "c40-csv-header-not-quoted" } else { "c40-csv-bare-cr-not-quoted" }.into(),
                msg,
            };
        }
        Verdict::Fail(msg)
    }
}

// ---------------------------------------------------------------------------
// check 2: JSON
// ---------------------------------------------------------------------------

/// Exact decimal comparison: does `text` denote unscaled/10^scale ?
fn decimal_text_is(text: &str, unscaled: i64, scale: u8) -> bool {
    let (neg, body) = match text.strip_prefix('-') {
        Some(b) => (true, b),
        None => (false, text),
    };
    let (ip, fp) = match body.split_once('.') {
        Some((a, b)) => (a, b),
        None => (body, ""),
    };
    if ip.is_empty() || !ip.chars().all(|c| c.is_ascii_digit()) || !fp.chars().all(|c| c.is_ascii_digit()) {
        return false;
    }
    if fp.len() > scale as usize && fp[scale as usize..].chars().any(|c| c != '0') {
        return false;
    }
    let mut digits = String::from(ip);
    let mut f = fp.to_string();
    while f.len() < scale as usize {
        f.push('0');
    }
    digits.push_str(&f[..scale as usize]);
    let mag: i128 = match digits.parse() {
        Ok(m) => m,
        Err(_) => return false,
    };
    let got = if neg { -mag } else { mag };
    got == unscaled as i128
}

/// Re-spell the two things JSON cannot contain but the writer emits raw (open
/// findings), so that the rest of the document can still be judged: control
/// characters inside string literals -> \u00XX; bare NaN/inf/-inf tokens -> null.
fn sanitize_json(s: &str) -> (String, bool, bool) {
    let ch: Vec<char> = s.chars().collect();
    let mut out = String::with_capacity(s.len());
    let (mut in_str, mut esc) = (false, false);
    let (mut fixed_ctrl, mut fixed_nonfinite) = (false, false);
    let mut i = 0;
    while i < ch.len() {
        let c = ch[i];
        if in_str {
            if esc {
                esc = false;
                out.push(c);
            } else if c == '\\' {
                esc = true;
                out.push(c);
            } else if c == '"' {
                in_str = false;
                out.push(c);
            } else if (c as u32) < 0x20 {
                fixed_ctrl = true;
                out.push_str(&format!("\\u{:04x}", c as u32));
            } else {
                out.push(c);
            }
            i += 1;
            continue;
        }
        if c == '"' {
            in_str = true;
            out.push(c);
            i += 1;
            continue;
        }
        let rest: String = ch[i..ch.len().min(i + 4)].iter().collect();
        if rest.starts_with("NaN") {
            out.push_str("null");
            fixed_nonfinite = true;
            i += 3;
        } else if rest.starts_with("-inf") {
            out.push_str("null");
            fixed_nonfinite = true;
            i += 4;
        } else if rest.starts_with("inf") {
            out.push_str("null");
            fixed_nonfinite = true;
            i += 3;
        } else {
            out.push(c);
            i += 1;
        }
    }
    (out, fixed_ctrl, fixed_nonfinite)
}

pub struct JsonRoundTrip;
impl JsonRoundTrip {
    /// Ok(()) or the first difference; `dec_sign` is set when the only kind of
    /// difference seen so far is the decimal sign finding.
    fn judge(c: &OutCase, doc: &J, dec_sign_only: &mut Option<String>) -> Result<(), String> {
        let arr = doc.as_array().ok_or_else(|| "top level is not an array".to_string())?;
        let n = if c.no_batches { 0 } else { c.rows() };
        if arr.len() != n {
            return Err(format!("{} objects in the array, {} rows in the result", arr.len(), n));
        }
        for (r, o) in arr.iter().enumerate() {
            let o = o.as_object().ok_or_else(|| format!("row {} is not an object", r))?;
            if o.len() != c.cols.len() {
                return Err(format!("row {} has {} keys, the result has {} columns: {:?}", r, o.len(), c.cols.len(), o.keys().collect::<Vec<_>>()));
            }
            for col in &c.cols {
                let v = o.get(&col.name).ok_or_else(|| format!("row {} has no key {:?} (keys {:?})", r, col.name, o.keys().collect::<Vec<_>>()))?;
                let bad = |want: String| Err(format!("row {} column {:?}: JSON value {} but the cell is {}", r, col.name, v, want));
                match &col.data {
                    ColData::Utf8(d) | ColData::LargeUtf8(d) => match &d[r] {
                        None if v.is_null() => {}
                        Some(s) if v.as_str() == Some(s.as_str()) => {}
                        w => return bad(format!("{:?}", w)),
                    },
                    ColData::I32(d) => {
                        if d[r].map(|x| J::from(x)).unwrap_or(J::Null) != *v {
                            return bad(format!("{:?}", d[r]));
                        }
                    }
                    ColData::I64(d) => {
                        if d[r].map(|x| J::from(x)).unwrap_or(J::Null) != *v {
                            return bad(format!("{:?}", d[r]));
                        }
                    }
                    ColData::U64(d) => {
                        if d[r].map(|x| J::from(x)).unwrap_or(J::Null) != *v {
                            return bad(format!("{:?}", d[r]));
                        }
                    }
                    ColData::Bool(d) => {
                        if d[r].map(|x| J::from(x)).unwrap_or(J::Null) != *v {
                            return bad(format!("{:?}", d[r]));
                        }
                    }
                    ColData::F32(d) | ColData::F64(d) => {
                        let is32 = matches!(col.data, ColData::F32(_));
                        match d[r] {
                            None => {
                                if !v.is_null() {
                                    return bad("NULL".into());
                                }
                            }
                            Some(Fl(f)) => {
                                let f = if is32 { f as f32 as f64 } else { f };
                                if !f.is_finite() {
                                    // JSON has no spelling: null or a string are both faithful enough
                                    if !(v.is_null() || v.is_string()) {
                                        return bad(format!("{:?}", f));
                                    }
                                } else {
                                    let ok = match v.as_f64() {
                                        Some(g) => {
                                            if is32 {
                                                g as f32 as f64 == f || (g - f).abs() <= f.abs() * 1e-6
                                            } else {
                                                // (subnormals: one unit in the last place is 4.9e-324 absolute)
                                                g == f || (g - f).abs() <= f.abs() * 1e-15 || (g - f).abs() <= 1e-322
                                            }
                                        }
                                        None => false,
                                    };
                                    if !ok {
                                        return bad(format!("{:?}", f));
                                    }
                                }
                            }
                        }
                    }
                    ColData::Dec(scale, d) => match d[r] {
                        None => {
                            if !v.is_null() {
                                return bad("NULL".into());
                            }
                        }
                        Some(u) => {
                            let text = match v {
                                J::String(s) => s.clone(),
                                J::Number(x) => x.to_string(),
                                _ => return bad(format!("{} / 10^{}", u, scale)),
                            };
                            if !decimal_text_is(&text, u, *scale) {
                                // open finding: -0.xx printed without its sign
                                let small_neg = u < 0 && *scale > 0 && (u.unsigned_abs() as u128) < 10u128.pow(*scale as u32);
                                if small_neg && !text.starts_with('-') && decimal_text_is(&format!("-{}", text), u, *scale) {
                                    dec_sign_only.get_or_insert(format!(
                                        "row {} column {:?}: decimal {}e-{} printed as {:?}",
                                        r, col.name, u, scale, text
                                    ));
                                    continue;
                                }
                                return bad(format!("{} / 10^{}", u, scale));
                            }
                        }
                    },
                }
            }
        }
        Ok(())
    }
}
impl Check for JsonRoundTrip {
    type Case = OutCase;
    fn name(&self) -> &'static str {
        "json_roundtrip"
    }
    fn rule(&self) -> &'static str {
        ">=1 row and a string cell contains a quote, a line break (CR/LF) or a control character"
    }
    fn cases(&self, tier: Tier) -> u32 {
        tier.pick(4000, 1_500_000)
    }
    fn strategy(&self, tier: Tier) -> BoxedStrategy<OutCase> {
        case_strategy(tier)
    }
    fn test(&self, c: &OutCase, obs: &mut Obs) -> Verdict {
        if !c.well_formed() {
            return Verdict::Discard("malformed case".into());
        }
        if c.cols.iter().any(|col| match &col.data {
            ColData::F64(v) => v.iter().flatten().any(|f| f.0.is_finite() && f.0.abs() >= 1e300),
            _ => false,
        }) {
            return Verdict::Discard("float beyond 1e300 (limit of the oracle's JSON number parser)".into());
        }
        let hot = labels(c, obs);
        let batches = c.batches();
        let out = OutputFormatter::new(OutputFormat::Json).format_to_string(&batches);
        obs.nontrivial(!c.no_batches && c.rows() >= 1 && hot);
        let mut dec_sign: Option<String> = None;
        let direct = match serde_json::from_str::<J>(&out) {
            Ok(doc) => Self::judge(c, &doc, &mut dec_sign).map_err(|e| format!("parsed document differs: {}", e)),
            Err(e) => Err(format!("not JSON: {}", e)),
        };
        let first = match direct {
            Ok(()) => match dec_sign {
                None => return Verdict::Pass,
                Some(m) => {
                    obs.label("known:decimal-sign");
                    return Verdict::Known {
                        id: "c40-decimal-negative-fraction-loses-sign".into(),
                        msg: format!("JSON output does not carry the cell's value: {}\n  output = {}", m, clip(&out)),
                    };
                }
            },
            Err(e) => e,
        };
        let msg = format!("JSON output does not parse back to the result: {}\n  output = {}", first, clip(&out));
        // ---- look behind the open findings -------------------------------
        // column names are written raw: a name with `"` or `\` cannot be repaired by the sanitizer
        let name_breaks = c.cols.iter().any(|col| col.name.contains('"') || col.name.contains('\\'));
        if name_breaks && !c.no_batches && c.rows() > 0 {
            obs.label("known:field-name-unescaped");
            return Verdict::Known { id: "c40-json-field-name-not-escaped".into(), msg };
        }
        let (fixed, ctrl, nonfinite) = sanitize_json(&out);
        let mut behind = String::new();
        if ctrl || nonfinite {
            let mut ds = None;
            let parsed = serde_json::from_str::<J>(&fixed);
            match &parsed {
                Err(e) => behind = format!("\n  (after re-spelling raw control characters / non-finite tokens: still not JSON: {})", e),
                Ok(doc) => {
                    if let Err(e) = Self::judge(c, doc, &mut ds) {
                        behind = format!("\n  (after re-spelling raw control characters / non-finite tokens: {})", e);
                    }
                }
            }
            if let Ok(doc) = parsed {
                if Self::judge(c, &doc, &mut ds).is_ok() {
                    // which finding? control characters come from string cells / names, tokens from float cells
                    let has_ctrl_input = c.cols.iter().any(|col| {
                        col.name.chars().any(|ch| (ch as u32) < 0x20)
                            || match &col.data {
                                ColData::Utf8(v) | ColData::LargeUtf8(v) => v.iter().flatten().any(|s| s.chars().any(|ch| (ch as u32) < 0x20)),
                                _ => false,
                            }
                    });
                    let has_nonfinite_input = c.cols.iter().any(|col| match &col.data {
                        ColData::F32(v) | ColData::F64(v) => v.iter().flatten().any(|f| !f.0.is_finite()),
                        _ => false,
                    });
                    if ctrl && has_ctrl_input {
                        obs.label("known:control-char-raw");
                        return Verdict::Known { id: "c40-json-control-chars-not-escaped".into(), msg };
                    }
                    if nonfinite && has_nonfinite_input {
                        obs.label("known:nonfinite-bare");
                        return Verdict::Known { id: "c40-json-nonfinite-float-bare".into(), msg };
                    }
                }
            }
        }
        Verdict::Fail(format!("{}{}", msg, behind))
    }
}

pub fn property() -> Property {
    Property {
        id: "C40",
        level: "exploration",
        assumptions: &[
            "the formatter source src/cli/output.rs is compiled into the harness (it is in the binary crate); the REPL itself only calls OutputFormatter::print on the query's batches (main.rs), which is write() to stdout",
            "column names are unique (a JSON object cannot carry two equal keys)",
            "CSV: NULL is the empty field (documented by the writer); float cells are compared numerically, decimal cells are not asserted in CSV (their text is a display matter); a one-column row with empty text is an empty line, which only the strict RFC 4180 reader judges (the csv crate skips empty lines by design)",
            "JSON: non-finite floats may be null or a string; finite floats are |x| < 1e300 and compared to 1e-15 relative (serde_json's default float parser is not always correctly rounded and rejects the positional spelling of values next to f64::MAX)",
        ],
        checks: vec![Box::new(CsvRoundTrip), Box::new(JsonRoundTrip)],
    }
}
