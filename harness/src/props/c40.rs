//! C40 — not implemented yet.
use super::Property;

pub fn property() -> Property {
    Property { id: "C40", level: "exploration", assumptions: &[], checks: vec![] }
}
