//! C36 — Scalar functions compute their documented values.
//!
//! Every case picks one function signature from the table in `c36_specs.rs`
//! and a batch of argument tuples (empty / multi-byte strings, negative, zero,
//! boundary numbers, NULLs). The call is evaluated through SQL
//!   * over columns of a generated table, in one batch and re-sliced at
//!     random cut points (vectorised path),
//!   * with every argument written as a literal (literal path; the optimizer
//!     does not fold scalar functions, so this exercises literal typing,
//!     `constant_int_value` fast paths and NULL literals),
//!   * "mixed": some arguments columns, the others literals (the usual shape
//!     `SUBSTR(col, 2, 3)` that has dedicated kernels),
//! and the check demands
//!   (1) agreement with the independent reference of the table (Rust std only,
//!       own calendar arithmetic) wherever a repo document settles the value,
//!   (2) laws (round trips, idempotence, additivity, digests' known answers),
//!   (3) NULL argument => NULL for strict arguments, and equality of all
//!       evaluation paths on every tuple.
//! An engine error is never a wrong value (labelled `err:`), a panic neither
//! (labelled `panic:`); both are reported in the evidence labels.
use super::Property;
use crate::data::*;
use crate::engine::*;
use crate::runner::*;
use proptest::prelude::*;
use query_engine::ExecutionContext;
use serde::{Deserialize, Serialize};
use std::sync::OnceLock;

#[path = "c36_gen.rs"]
mod gen;
#[path = "c36_kat.rs"]
mod kat;
#[path = "c36_ref.rs"]
mod r;
#[path = "c36_specs.rs"]
mod specs;

use r::Exp;
use specs::{Fam, Spec};

fn table() -> &'static Vec<Spec> {
    static T: OnceLock<Vec<Spec>> = OnceLock::new();
    T.get_or_init(specs::build)
}
fn find(name: &str) -> Option<&'static Spec> {
    table().iter().find(|s| s.name == name)
}

#[derive(Clone, Debug, Serialize, Deserialize)]
pub struct FnCase {
    /// key into the function table
    pub spec: String,
    /// arguments written as literals in the mixed evaluation (they are
    /// constant over `rows`)
    pub lit_mask: Vec<bool>,
    /// write NULL literals bare instead of CAST(NULL AS type)
    pub bare_null: bool,
    pub rows: Vec<Vec<Value>>,
    pub cuts: Vec<usize>,
}

// ---------------------------------------------------------------------------
// generation
// ---------------------------------------------------------------------------

fn default_for(ty: ColType) -> Value {
    match ty {
        ColType::Int | ColType::Int32 => Value::Int(1),
        ColType::Double => Value::Double(1.5),
        ColType::Str => Value::Str("m".into()),
        ColType::Date => Value::Date(19000),
        ColType::Bool => Value::Bool(true),
    }
}
fn asciify(v: &mut Value) {
    if let Value::Str(s) = v {
        if !s.is_ascii() {
            *s = s.chars().map(|c| if c.is_ascii() { c } else { 'x' }).collect();
        }
    }
}

/// Steer a generated case away from the open known-finding classes (applied
/// to ~85 % of the cases so the search continues behind them).
fn steer(spec: &Spec, c: &mut FnCase) {
    // NULLs in arguments whose NULL handling is a known finding
    for row in c.rows.iter_mut() {
        for (k, pct) in spec.nulls.iter().enumerate() {
            if *pct > 0 && *pct < 7 && row[k].is_null() {
                row[k] = default_for(spec.kinds[k].coltype());
            }
        }
    }
    match spec.name {
        "LENGTH" | "CHAR_LENGTH" | "STRPOS" | "POSITION" | "HAMMING_DISTANCE" => {
            for row in c.rows.iter_mut() {
                for v in row.iter_mut() {
                    asciify(v);
                }
            }
        }
        "CRC32" => {
            for row in c.rows.iter_mut() {
                if let Value::Str(s) = &mut row[0] {
                    let mut tries = 0;
                    while r::crc32(s.as_bytes()) >= (1 << 31) && tries < 40 {
                        s.push((b'a' + (tries % 26) as u8) as char);
                        tries += 1;
                    }
                }
            }
        }
        "SUBSTR/2" | "SUBSTRING/3" | "SUBSTRING/from-for" => {
            let all_lit = c.lit_mask.iter().skip(1).all(|m| *m);
            if !all_lit {
                for row in c.rows.iter_mut() {
                    if row[0].is_null() {
                        row[0] = Value::Str("x".into());
                    }
                }
            }
        }
        _ => {}
    }
}

fn case_strategy(fam: Fam, tier: Tier) -> BoxedStrategy<FnCase> {
    let idxs: Vec<usize> = table().iter().enumerate().filter(|(_, s)| s.fam == fam).map(|(i, _)| i).collect();
    let max_rows = tier.pick(16usize, 32usize);
    proptest::sample::select(idxs)
        .prop_flat_map(move |si| {
            let spec = &table()[si];
            let row: Vec<BoxedStrategy<gen::Raw>> = spec.kinds.iter().zip(spec.nulls.iter()).map(|(k, n)| gen::raw(*k, *n)).collect();
            let nk = spec.kinds.len();
            (
                proptest::collection::vec(row, 1..=max_rows),
                proptest::collection::vec(any::<bool>(), nk),
                0u8..100,
                proptest::collection::vec(0usize..=max_rows, 0..4),
                0u8..100,
                0u8..100,
            )
                .prop_map(move |(raws, mut mask, mask_sel, cuts, steer_sel, bare_sel)| {
                    let spec = &table()[si];
                    let mut rows: Vec<Vec<Value>> = raws.iter().map(|rw| gen::finish_row(&spec.kinds, rw)).collect();
                    // half of the cases: every argument varies per row
                    if mask_sel < 50 {
                        for m in mask.iter_mut() {
                            *m = false;
                        }
                    }
                    // known finding: parameters read at row 0 only -> mostly constant
                    if mask_sel % 10 != 0 {
                        for k in &spec.row0 {
                            mask[*k] = true;
                        }
                    }
                    // dependent kinds follow their source: keep them varying
                    for (k, kind) in spec.kinds.iter().enumerate() {
                        if kind.dependent() && !spec.row0.contains(&k) {
                            mask[k] = false;
                        }
                    }
                    let first = rows[0].clone();
                    for row in rows.iter_mut() {
                        for (k, m) in mask.iter().enumerate() {
                            if *m {
                                row[k] = first[k].clone();
                            }
                        }
                    }
                    let mut c = FnCase { spec: spec.name.to_string(), lit_mask: mask, bare_null: bare_sel < 8, rows, cuts };
                    if steer_sel < 85 {
                        steer(spec, &mut c);
                    }
                    c
                })
        })
        .boxed()
}

// ---------------------------------------------------------------------------
// evaluation through SQL
// ---------------------------------------------------------------------------

fn sqltype(ty: ColType) -> &'static str {
    match ty {
        ColType::Int | ColType::Int32 => "BIGINT",
        ColType::Double => "DOUBLE",
        ColType::Str => "VARCHAR",
        ColType::Date => "DATE",
        ColType::Bool => "BOOLEAN",
    }
}

fn lit(v: &Value, ty: ColType, bare_null: bool) -> String {
    match v {
        Value::Null => {
            if bare_null {
                "NULL".into()
            } else {
                format!("CAST(NULL AS {})", sqltype(ty))
            }
        }
        Value::Double(d) if d.is_nan() => "NAN()".into(),
        Value::Double(d) if d.is_infinite() => {
            if *d > 0.0 {
                "INFINITY()".into()
            } else {
                "(-INFINITY())".into()
            }
        }
        Value::Int(i) if ty == ColType::Double => Value::Double(*i as f64).sql(),
        _ => v.sql(),
    }
}

fn render(tpl: &str, args: &[String]) -> String {
    let mut out = tpl.to_string();
    for (k, a) in args.iter().enumerate() {
        out = out.replace(&format!("{{{}}}", k), a);
    }
    out
}

fn call_with_literals(spec: &Spec, tpl: &str, tuple: &[Value], bare: bool) -> String {
    let args: Vec<String> = tuple.iter().zip(spec.kinds.iter()).map(|(v, k)| lit(v, k.coltype(), bare)).collect();
    render(tpl, &args)
}

/// rows of an answer; columns of Arrow type Null are SQL NULLs
fn rows_fixed(a: &Answer) -> Rows {
    let mut out = vec![];
    for b in &a.batches {
        for i in 0..b.num_rows() {
            out.push(
                (0..b.num_columns())
                    .map(|c| {
                        let col = b.column(c);
                        if col.data_type() == &arrow::datatypes::DataType::Null {
                            Value::Null
                        } else {
                            cell(col.as_ref(), i)
                        }
                    })
                    .collect(),
            );
        }
    }
    out
}

fn arg_table(spec: &Spec, rows: &[Vec<Value>], id0: usize) -> Table {
    let mut cols = vec![Column { name: "id".into(), ty: ColType::Int }];
    for (k, kind) in spec.kinds.iter().enumerate() {
        cols.push(Column { name: format!("a{}", k), ty: kind.coltype() });
    }
    Table {
        name: "t".into(),
        cols,
        rows: rows
            .iter()
            .enumerate()
            .map(|(i, r)| {
                let mut row = vec![Value::Int((id0 + i) as i64)];
                row.extend(r.iter().cloned());
                row
            })
            .collect(),
    }
}

/// `SELECT id, <expr> FROM t` over the argument table split at `cuts`
fn eval_table(spec: &Spec, rows: &[Vec<Value>], expr: &str, cuts: &[usize]) -> Result<Vec<Value>, String> {
    let t = arg_table(spec, rows, 0);
    let mut ctx = ExecutionContext::new();
    register_mem(&mut ctx, &t, cuts);
    let sql = format!("SELECT id, {} AS r FROM t", expr);
    let a = run_sql_full(&ctx, &sql)?;
    let mut got = rows_fixed(&a);
    if got.len() != rows.len() {
        return Err(format!("WRONG-ROWCOUNT: {} rows for {} input rows", got.len(), rows.len()));
    }
    got.sort_by_key(|r| match r[0] {
        Value::Int(i) => i,
        _ => -1,
    });
    for (i, rr) in got.iter().enumerate() {
        if rr[0] != Value::Int(i as i64) {
            return Err(format!("WRONG-ROWCOUNT: ids are not 0..{}", rows.len()));
        }
    }
    Ok(got.into_iter().map(|mut rr| rr.pop().unwrap()).collect())
}

type Outcome = Result<Value, String>;

/// column-path evaluation; when the statement fails as a whole the rows are
/// evaluated one at a time so that one erroring tuple does not hide the rest
fn eval_cols(spec: &Spec, rows: &[Vec<Value>], expr: &str, cuts: &[usize]) -> Vec<Outcome> {
    match eval_table(spec, rows, expr, cuts) {
        Ok(v) => v.into_iter().map(Ok).collect(),
        Err(e) if e.starts_with("WRONG-ROWCOUNT") => rows.iter().map(|_| Err(e.clone())).collect(),
        Err(_) => rows
            .iter()
            .map(|row| eval_table(spec, std::slice::from_ref(row), expr, &[]).map(|mut v| v.pop().unwrap()))
            .collect(),
    }
}

fn one_row_ctx() -> ExecutionContext {
    let t = Table { name: "one".into(), cols: vec![Column { name: "id".into(), ty: ColType::Int }], rows: vec![vec![Value::Int(0)]] };
    mem_ctx(&[t])
}

/// literal-path evaluation: all tuples in one statement, or one by one when
/// the statement fails
fn eval_lits(exprs: &[String]) -> Vec<Outcome> {
    let ctx = one_row_ctx();
    let items: Vec<String> = exprs.iter().enumerate().map(|(i, e)| format!("{} AS r{}", e, i)).collect();
    let sql = format!("SELECT {} FROM one", items.join(", "));
    if let Ok(a) = run_sql_full(&ctx, &sql) {
        let got = rows_fixed(&a);
        if got.len() == 1 && got[0].len() == exprs.len() {
            return got.into_iter().next().unwrap().into_iter().map(Ok).collect();
        }
    }
    exprs
        .iter()
        .map(|e| {
            let a = run_sql_full(&ctx, &format!("SELECT {} AS r FROM one", e))?;
            let got = rows_fixed(&a);
            if got.len() == 1 && got[0].len() == 1 {
                Ok(got[0][0].clone())
            } else {
                Err(format!("WRONG-ROWCOUNT: {} rows from a one-row table", got.len()))
            }
        })
        .collect()
}

// ---------------------------------------------------------------------------
// oracle
// ---------------------------------------------------------------------------

fn expectation(spec: &Spec, tuple: &[Value]) -> Exp {
    for (k, v) in tuple.iter().enumerate() {
        if v.is_null() && spec.strict[k] {
            return Exp::V(Value::Null);
        }
    }
    (spec.refn)(tuple)
}

fn agrees(spec: &Spec, got: &Value, want: &Exp) -> Result<(), String> {
    match want {
        Exp::Undoc => Ok(()),
        Exp::V(w) => {
            if value_eq(got, w, 0.0) {
                Ok(())
            } else {
                Err(format!("documented value {}", fmt_value(w)))
            }
        }
        Exp::A(w) => {
            if value_eq(got, &Value::Double(*w), spec.tol) {
                Ok(())
            } else {
                Err(format!("reference value {:?} (rel. tolerance {:e})", w, spec.tol))
            }
        }
        Exp::P(p) => p(got).map_err(|e| format!("requirement: {}", e)),
    }
}

struct Failure {
    path: &'static str,
    row: usize,
    /// first row of the batch the row was evaluated in (column paths)
    batch_first: Option<usize>,
    got: Value,
    /// for path disagreements: the other path, its value and its batch start
    other: Option<(&'static str, Value, Option<usize>)>,
    /// true when the value contradicts the reference (not only another path)
    vs_reference: bool,
    msg: String,
}

fn batch_first(cuts: &[usize], n: usize, row: usize) -> usize {
    let mut pts: Vec<usize> = cuts.iter().map(|c| (*c).min(n)).collect();
    pts.sort();
    let mut lo = 0;
    for p in pts {
        if row < p {
            break;
        }
        lo = p;
    }
    lo
}

fn tuple_is_nontrivial(t: &[Value]) -> bool {
    t.iter().any(|v| match v {
        Value::Null => true,
        Value::Str(s) => s.is_empty() || !s.is_ascii(),
        Value::Int(i) => *i <= 0 || *i >= (1 << 31),
        Value::Double(d) => *d <= 0.0 || !d.is_finite() || d.abs() >= 4503599627370496.0,
        Value::Date(d) => *d < 0 || r::civil_from_days(*d as i64).2 >= 28,
        Value::Bool(_) => false,
    })
}

/// Signatures of the open known findings (see known_findings.json).
fn classify(spec: &Spec, c: &FnCase, f: &Failure) -> Option<&'static str> {
    known::classify(spec, c, f)
}

#[path = "c36_known.rs"]
mod known;

fn run_case(c: &FnCase, obs: &mut Obs) -> Verdict {
    let spec = match find(&c.spec) {
        Some(s) => s,
        None => return Verdict::Discard(format!("unknown function key {}", c.spec)),
    };
    let nk = spec.kinds.len();
    if c.rows.is_empty() || c.rows.iter().any(|r| r.len() != nk) || c.lit_mask.len() != nk {
        return Verdict::Discard("malformed case".into());
    }
    let n = c.rows.len();
    obs.label(format!("fn:{}", spec.name));
    obs.nontrivial(c.rows.iter().any(|t| tuple_is_nontrivial(t)) || nk == 0);
    let want: Vec<Exp> = c.rows.iter().map(|t| expectation(spec, t)).collect();
    if want.iter().all(|w| matches!(w, Exp::Undoc)) {
        obs.label("reference:none");
    } else {
        obs.label("reference:some");
    }

    let col_args: Vec<String> = (0..nk).map(|k| format!("a{}", k)).collect();
    let col_expr = render(&spec.tpl, &col_args);
    let mut paths: Vec<(&'static str, Vec<Outcome>, Option<Vec<usize>>)> = vec![];
    paths.push(("column", eval_cols(spec, &c.rows, &col_expr, &[]), Some(vec![])));
    if !c.cuts.is_empty() {
        paths.push(("column/resliced", eval_cols(spec, &c.rows, &col_expr, &c.cuts), Some(c.cuts.clone())));
    }
    let lit_exprs: Vec<String> = c.rows.iter().map(|t| call_with_literals(spec, &spec.tpl, t, c.bare_null)).collect();
    paths.push(("literal", eval_lits(&lit_exprs), None));
    if c.lit_mask.iter().any(|m| *m) {
        let mixed: Vec<String> = (0..nk)
            .map(|k| if c.lit_mask[k] { lit(&c.rows[0][k], spec.kinds[k].coltype(), c.bare_null) } else { format!("a{}", k) })
            .collect();
        paths.push(("mixed", eval_cols(spec, &c.rows, &render(&spec.tpl, &mixed), &c.cuts), Some(c.cuts.clone())));
    }

    let mut failures: Vec<Failure> = vec![];
    for (pname, outs, cuts) in &paths {
        for (row, out) in outs.iter().enumerate() {
            match out {
                Err(e) => {
                    if e.starts_with("WRONG-ROWCOUNT") {
                        return Verdict::Fail(format!("{}: {} path: {}", spec.name, pname, e));
                    }
                    if is_panic(e) {
                        obs.label(format!("panic:{}", spec.name));
                    } else {
                        obs.label(format!("err:{}:{}", pname, spec.name));
                    }
                }
                Ok(got) => {
                    if let Err(msg) = agrees(spec, got, &want[row]) {
                        failures.push(Failure {
                            path: pname,
                            row,
                            batch_first: cuts.as_ref().map(|cu| batch_first(cu, n, row)),
                            got: got.clone(),
                            other: None,
                            vs_reference: true,
                            msg: format!("differs from the {}", msg),
                        });
                    }
                }
            }
        }
    }
    // path agreement: on every tuple all successful paths give the same value
    for row in 0..n {
        let mut first: Option<(&'static str, &Value, Option<usize>)> = None;
        for (pname, outs, cuts) in &paths {
            if let Ok(v) = &outs[row] {
                match first {
                    None => first = Some((pname, v, cuts.as_ref().map(|cu| batch_first(cu, n, row)))),
                    Some((p0, v0, b0)) => {
                        if !value_eq(v0, v, 0.0) {
                            failures.push(Failure {
                                path: pname,
                                row,
                                batch_first: cuts.as_ref().map(|cu| batch_first(cu, n, row)),
                                got: v.clone(),
                                other: Some((p0, v0.clone(), b0)),
                                vs_reference: false,
                                msg: format!("path disagreement: the {} path gives {}", p0, fmt_value(v0)),
                            });
                        }
                    }
                }
            }
        }
    }
    // law: another expression must give the same value on every row
    if let Some(alt) = &spec.same_as {
        let alt_out = eval_cols(spec, &c.rows, &render(alt, &col_args), &[]);
        for row in 0..n {
            if let (Ok(a), Ok(b)) = (&paths[0].1[row], &alt_out[row]) {
                if !value_eq(a, b, 0.0) {
                    failures.push(Failure {
                        path: "column",
                        row,
                        batch_first: Some(0),
                        got: a.clone(),
                        other: None,
                        vs_reference: true,
                        msg: format!("law violated: {} gives {}", render(alt, &col_args), fmt_value(b)),
                    });
                }
            }
        }
    }

    if failures.is_empty() {
        return Verdict::Pass;
    }
    let describe = |f: &Failure| {
        format!(
            "{} [{} path, row {}]: {} = {} {}",
            spec.name,
            f.path,
            f.row,
            call_with_literals(spec, &spec.tpl, &c.rows[f.row], c.bare_null && (f.path == "literal" || f.path == "mixed")),
            fmt_value(&f.got),
            f.msg
        )
    };
    let mut known: Option<(String, String)> = None;
    for f in &failures {
        match classify(spec, c, f) {
            Some(id) => {
                if known.is_none() {
                    known = Some((id.to_string(), describe(f)));
                }
            }
            None => return Verdict::Fail(describe(f)),
        }
    }
    let (id, msg) = known.unwrap();
    Verdict::Known { id, msg }
}

// ---------------------------------------------------------------------------
// checks (one per family, same machinery)
// ---------------------------------------------------------------------------

macro_rules! family_check {
    ($ty:ident, $name:expr, $fam:expr, $quick:expr) => {
        pub struct $ty;
        impl Check for $ty {
            type Case = FnCase;
            fn name(&self) -> &'static str {
                $name
            }
            fn rule(&self) -> &'static str {
                "some argument tuple has a NULL, an empty or non-ASCII string, a number <= 0 / >= 2^31 / non-finite / >= 2^52, or a date before 1970 or at a month end"
            }
            fn cases(&self, tier: Tier) -> u32 {
                tier.pick($quick, $quick * 40)
            }
            fn strategy(&self, tier: Tier) -> BoxedStrategy<FnCase> {
                case_strategy($fam, tier)
            }
            fn max_shrink_iters(&self) -> u32 {
                300
            }
            fn test(&self, c: &FnCase, obs: &mut Obs) -> Verdict {
                run_case(c, obs)
            }
        }
    };
}
family_check!(MathFns, "math", Fam::Math, 16000);
family_check!(StringFns, "string", Fam::Str, 20000);
family_check!(BitDateCondFns, "bitwise_date_conditional", Fam::BitDateCond, 20000);
family_check!(LawFns, "laws_encodings_digests", Fam::Laws, 12000);
family_check!(PathFns, "path_agreement_only", Fam::Paths, 8000);

pub fn property() -> Property {
    Property {
        id: "C36",
        level: "exploration",
        assumptions: &[
            "documented = tests/function_validation_tests.rs pairs + conventions and the plan's Trino signatures; tuples no repo document settles (SUBSTR start<=0, SPLIT_PART out of range, TRANSLATE with short `to`, DATE_DIFF partial months, CONCAT with NULL, DAY_OF_WEEK numbering, special-casing Unicode letters, non-space whitespace) are checked for path agreement only",
            "an engine error or panic is not a wrong value (labelled err:/panic:)",
            "floating results: relative tolerance 1e-12 against Rust std (1e-9 for LOG(b,x)); ROUND(x,d) by a validity predicate",
            "for functions without reference (SOUNDEX, URL_EXTRACT_*, XXHASH64, ...) only NULL propagation and path agreement are checked",
            "non-deterministic functions (RANDOM, NOW, UUID, CURRENT_*) excluded; array/map/timestamp functions not covered",
        ],
        checks: vec![Box::new(MathFns), Box::new(StringFns), Box::new(BitDateCondFns), Box::new(LawFns), Box::new(PathFns)],
    }
}
