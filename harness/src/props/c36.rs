//! C36 — not implemented yet.
use super::Property;

pub fn property() -> Property {
    Property { id: "C36", level: "exploration", assumptions: &[], checks: vec![] }
}
