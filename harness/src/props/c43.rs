//! C43 — Exact vector search is the literal ORDER BY … LIMIT.
//!
//! Generator: a table `vt(id BIGINT unique, cat BIGINT small-domain nullable,
//! v FixedSizeList<Float32, d>)`, d ∈ {1,2,3,4,8,9,17}, vectors drawn from a
//! small pool of small-integer / half-integer component vectors (so every
//! distance is exactly representable and ties are frequent), NULL vectors,
//! zero vectors; registered as a memory table (one batch cut into *sliced*
//! pieces) or as Parquet, under the default Exact mode or the Indexed mode
//! (these providers have no index, so the exact path must be taken anyway).
//! Statements: `SELECT id, cat FROM vt [WHERE cat ..] ORDER BY f(v, [lit])
//! [ASC|DESC] [NULLS FIRST|LAST] [, id] [LIMIT k [OFFSET m]]` for the four
//! functions, k ∈ 0..n+3, plus the shapes that must not be rewritten (extra
//! sort key, no LIMIT, distance inside an expression, the "wrong" direction,
//! a join, argument order swapped).
//!
//! Oracles: (1) differential — the production optimizer vs the production rule
//! list minus VectorSearchPushdown; (2) reference — the returned ids are
//! distinct rows of the (filtered) table whose reference keys form exactly the
//! window [m, m+k) of the reference ordering: equal multiset of keys (so ties
//! may be broken either way), output sorted by key, NULL keys where ordered.
use super::Property;
use crate::data::*;
use crate::engine::*;
use crate::runner::*;
use arrow::array::*;
use arrow::datatypes::{DataType, Field, Schema};
use proptest::prelude::*;
use proptest::strategy::BoxedStrategy;
use query_engine::execution::{ExecutionConfig, VectorSearchMode};
use query_engine::optimizer::OptimizerRule;
use query_engine::ExecutionContext;
use serde::{Deserialize, Serialize};
use std::sync::Arc;

#[path = "c03_util.rs"]
mod util;

#[derive(Clone, Debug, Serialize, Deserialize)]
pub struct VecCase {
    pub dim: usize,
    /// per row: cat (None = NULL), vector (None = NULL vector)
    pub rows: Vec<(Option<i64>, Option<Vec<f32>>)>,
    /// row cut points of the memory batches (slices of one batch)
    pub cuts: Vec<usize>,
    pub parquet: bool,
    pub row_group_size: usize,
    pub indexed_mode: bool,
    /// 0 l2_distance, 1 cosine_distance, 2 cosine_similarity, 3 dot_product
    pub func: u8,
    pub query: Vec<f32>,
    pub int_literal: bool,
    pub desc: bool,
    /// None default, Some(true) NULLS FIRST, Some(false) NULLS LAST
    pub nulls_first: Option<bool>,
    pub limit: Option<usize>,
    pub offset: Option<usize>,
    /// 0 canonical, 1 extra sort key `, id`, 2 distance + 1, 3 join with dim, 4 swapped argument order
    pub shape: u8,
    /// WHERE cat >= lit
    pub filter: Option<i64>,
    /// also project the vector column
    pub select_vector: bool,
}

const FUNCS: [&str; 4] = ["l2_distance", "cosine_distance", "cosine_similarity", "dot_product"];

fn lit(c: &VecCase) -> String {
    let parts: Vec<String> = c
        .query
        .iter()
        .map(|x| {
            if c.int_literal && x.fract() == 0.0 {
                format!("{}", *x as i64)
            } else {
                format!("{:?}", *x as f64)
            }
        })
        .collect();
    format!("[{}]", parts.join(", "))
}

pub fn render(c: &VecCase) -> String {
    let f = FUNCS[c.func as usize % 4];
    let call = if c.shape == 4 { format!("{}({}, vt.v)", f, lit(c)) } else { format!("{}(vt.v, {})", f, lit(c)) };
    let key = if c.shape == 2 { format!("({} + 1)", call) } else { call };
    let mut sql = format!("SELECT vt.id, vt.cat{} FROM vt", if c.select_vector { ", vt.v" } else { "" });
    if c.shape == 3 {
        sql.push_str(" INNER JOIN dim ON vt.cat = dim.dcat");
    }
    if let Some(l) = c.filter {
        sql.push_str(&format!(" WHERE vt.cat >= {}", l));
    }
    sql.push_str(&format!(" ORDER BY {} {}", key, if c.desc { "DESC" } else { "ASC" }));
    match c.nulls_first {
        Some(true) => sql.push_str(" NULLS FIRST"),
        Some(false) => sql.push_str(" NULLS LAST"),
        None => {}
    }
    if c.shape == 1 {
        sql.push_str(", vt.id ASC");
    }
    if let Some(k) = c.limit {
        sql.push_str(&format!(" LIMIT {}", k));
        if let Some(m) = c.offset {
            sql.push_str(&format!(" OFFSET {}", m));
        }
    }
    sql
}

/// reference key of a row (None = NULL): exact arithmetic in f64 over f32 inputs
fn ref_key(c: &VecCase, v: &Option<Vec<f32>>) -> Option<f64> {
    let v = v.as_ref()?;
    let q = &c.query;
    let dot: f64 = v.iter().zip(q).map(|(a, b)| (*a as f64) * (*b as f64)).sum();
    let nv: f64 = v.iter().map(|a| (*a as f64) * (*a as f64)).sum::<f64>().sqrt();
    let nq: f64 = q.iter().map(|a| (*a as f64) * (*a as f64)).sum::<f64>().sqrt();
    let sim = if nv * nq == 0.0 { 0.0 } else { dot / (nv * nq) };
    let k = match c.func % 4 {
        0 => v.iter().zip(q).map(|(a, b)| ((*a - *b) as f64) * ((*a - *b) as f64)).sum::<f64>().sqrt(),
        1 => 1.0 - sim,
        2 => sim,
        _ => dot,
    };
    Some(if c.shape == 2 { k + 1.0 } else { k })
}

fn close(a: f64, b: f64) -> bool {
    a == b || (a - b).abs() <= 1e-6 * a.abs().max(b.abs()).max(1.0)
}

fn key_eq(a: &Option<f64>, b: &Option<f64>) -> bool {
    match (a, b) {
        (None, None) => true,
        (Some(x), Some(y)) => close(*x, *y),
        _ => false,
    }
}

/// -1 / 0 / 1: does `a` sort before `b` under the statement's direction and NULL placement?
fn key_cmp(c: &VecCase, a: &Option<f64>, b: &Option<f64>) -> std::cmp::Ordering {
    use std::cmp::Ordering::*;
    // default NULL ordering is NULLS LAST for both directions (binder.rs)
    let nulls_first = c.nulls_first.unwrap_or(false);
    match (a, b) {
        (None, None) => Equal,
        (None, Some(_)) => {
            if nulls_first {
                Less
            } else {
                Greater
            }
        }
        (Some(_), None) => {
            if nulls_first {
                Greater
            } else {
                Less
            }
        }
        (Some(x), Some(y)) => {
            if close(*x, *y) {
                Equal
            } else if (x < y) != c.desc {
                Less
            } else {
                Greater
            }
        }
    }
}

fn vt_batch(c: &VecCase) -> RecordBatch {
    let n = c.rows.len();
    let ids = Int64Array::from((0..n as i64).collect::<Vec<_>>());
    let cats = Int64Array::from(c.rows.iter().map(|r| r.0).collect::<Vec<_>>());
    let mut b = FixedSizeListBuilder::new(Float32Builder::new(), c.dim as i32);
    for (_, v) in &c.rows {
        match v {
            Some(v) => {
                for x in v {
                    b.values().append_value(*x);
                }
                b.append(true);
            }
            None => {
                for _ in 0..c.dim {
                    b.values().append_null();
                }
                b.append(false);
            }
        }
    }
    let v = b.finish();
    let schema = Arc::new(Schema::new(vec![
        Field::new("id", DataType::Int64, true),
        Field::new("cat", DataType::Int64, true),
        Field::new("v", v.data_type().clone(), true),
    ]));
    RecordBatch::try_new(schema, vec![Arc::new(ids), Arc::new(cats), Arc::new(v)]).unwrap()
}

fn dim_table() -> Table {
    Table {
        name: "dim".into(),
        cols: vec![Column { name: "dcat".into(), ty: ColType::Int }, Column { name: "label".into(), ty: ColType::Str }],
        rows: vec![vec![Value::Int(0), Value::Str("zero".into())], vec![Value::Int(2), Value::Str("two".into())], vec![Value::Int(3), Value::Str("three".into())]],
    }
}

fn context(c: &VecCase, dir: &TempDir) -> Result<ExecutionContext, String> {
    let config = ExecutionConfig { vector_search_mode: if c.indexed_mode { VectorSearchMode::Indexed } else { VectorSearchMode::Exact }, ..ExecutionConfig::default() };
    let mut ctx = ExecutionContext::with_config(config);
    let batch = vt_batch(c);
    if c.parquet {
        use parquet::arrow::ArrowWriter;
        use parquet::file::properties::WriterProperties;
        let d = dir.path().join("vt");
        std::fs::create_dir_all(&d).map_err(|e| e.to_string())?;
        let props = WriterProperties::builder().set_max_row_group_size(c.row_group_size.max(1)).build();
        let f = std::fs::File::create(d.join("part-000.parquet")).map_err(|e| e.to_string())?;
        let mut w = ArrowWriter::try_new(f, batch.schema(), Some(props)).map_err(|e| e.to_string())?;
        if batch.num_rows() > 0 {
            w.write(&batch).map_err(|e| e.to_string())?;
        }
        w.close().map_err(|e| e.to_string())?;
        ctx.register_parquet("vt", &d).map_err(|e| e.to_string())?;
    } else {
        let n = batch.num_rows();
        let mut pts: Vec<usize> = c.cuts.iter().map(|x| (*x).min(n)).collect();
        pts.sort();
        pts.push(n);
        let mut lo = 0;
        let mut batches = vec![];
        for p in pts {
            batches.push(batch.slice(lo, p - lo));
            lo = p;
        }
        ctx.register_table("vt", batch.schema(), batches);
    }
    register_mem(&mut ctx, &dim_table(), &[]);
    Ok(ctx)
}

fn without_pushdown() -> Vec<Arc<dyn OptimizerRule>> {
    util::production().into_iter().filter(|r| r.name() != "VectorSearchPushdown").collect()
}

fn vec_case(tier: Tier) -> BoxedStrategy<VecCase> {
    let max_rows = tier.pick(12usize, 60);
    (prop_oneof![Just(1usize), Just(2), Just(3), Just(4), Just(8), Just(9), Just(17)], prop_oneof![1 => Just(0usize), 12 => 1..=max_rows])
        .prop_flat_map(move |(dim, n)| {
            let comp = prop_oneof![Just(0f32), Just(1f32), Just(-1f32), Just(2f32), Just(0.5f32), Just(-2f32)];
            let vector = proptest::collection::vec(comp.clone(), dim);
            // a small pool → duplicate vectors → distance ties
            let pool = proptest::collection::vec(vector.clone(), 1..=4);
            (
                Just(dim),
                pool,
                proptest::collection::vec((prop_oneof![1 => Just(None), 5 => (0i64..4).prop_map(Some)], 0u8..8), n),
                vector,
                proptest::collection::vec(0..=max_rows, 0..3),
                (any::<bool>(), prop_oneof![Just(1usize), Just(2), Just(5), Just(1024)], any::<bool>()),
                (0u8..4, prop_oneof![6 => Just(true), 1 => Just(false)], any::<bool>(), prop_oneof![8 => Just(None), 1 => Just(Some(true)), 1 => Just(Some(false))]),
                (prop_oneof![1 => Just(None), 8 => (0..=n + 3).prop_map(Some)], prop_oneof![3 => Just(None), 2 => (0..=n + 1).prop_map(Some)]),
                (prop_oneof![14 => Just(0u8), 2 => Just(1u8), 2 => Just(2u8), 2 => Just(3u8), 3 => Just(4u8)], prop_oneof![4 => Just(None), 1 => (0i64..4).prop_map(Some)], any::<bool>()),
            )
        })
        .prop_map(|(dim, pool, rowspec, query, cuts, (parquet, row_group_size, indexed_mode), (func, natural_dir, int_literal, nulls_first), (limit, offset), (shape, filter, select_vector))| {
            let rows = rowspec
                .into_iter()
                .map(|(cat, sel)| {
                    let v = match sel {
                        0 => None,
                        1 => Some(vec![0f32; dim]),
                        s => Some(pool[(s as usize) % pool.len()].clone()),
                    };
                    (cat, v)
                })
                .collect();
            // natural direction = nearest first (ASC for distances, DESC for similarities)
            let similarity = func >= 2;
            let desc = if natural_dir { similarity } else { !similarity };
            VecCase { dim, rows, cuts, parquet, row_group_size, indexed_mode, func, query, int_literal, desc, nulls_first, limit, offset, shape, filter, select_vector }
        })
        .boxed()
}

pub struct ExactKnn;

impl ExactKnn {
    /// check one engine answer (rows = [id, cat, ...]) against the reference window
    fn check_rows(&self, c: &VecCase, rows: &Rows, what: &str) -> Result<(), String> {
        // reference: filtered rows with keys
        let dim_cats = [0i64, 2, 3];
        let mut cand: Vec<(i64, Option<f64>)> = vec![];
        for (i, (cat, v)) in c.rows.iter().enumerate() {
            if let Some(l) = c.filter {
                match cat {
                    Some(x) if *x >= l => {}
                    _ => continue,
                }
            }
            if c.shape == 3 {
                match cat {
                    Some(x) if dim_cats.contains(x) => {}
                    _ => continue,
                }
            }
            cand.push((i as i64, ref_key(c, v)));
        }
        cand.sort_by(|a, b| key_cmp(c, &a.1, &b.1).then(a.0.cmp(&b.0)));
        // (OFFSET is only written together with LIMIT)
        let off = if c.limit.is_some() { c.offset.unwrap_or(0).min(cand.len()) } else { 0 };
        let end = match c.limit {
            Some(k) => (off + k).min(cand.len()),
            None => cand.len(),
        };
        let window = &cand[off..end];
        if rows.len() != window.len() {
            return Err(format!("{}: {} rows returned, the ORDER BY/LIMIT/OFFSET window has {}", what, rows.len(), window.len()));
        }
        // returned ids: distinct, existing, carrying the table's cat
        let mut seen = std::collections::BTreeSet::new();
        let mut got_keys: Vec<Option<f64>> = vec![];
        for r in rows {
            let id = match r.first() {
                Some(Value::Int(i)) if *i >= 0 && (*i as usize) < c.rows.len() => *i,
                o => return Err(format!("{}: returned id {:?} is not a row of the table", what, o)),
            };
            if !seen.insert(id) {
                return Err(format!("{}: row id {} returned twice", what, id));
            }
            if !cand.iter().any(|(i, _)| *i == id) {
                return Err(format!("{}: row id {} does not satisfy the WHERE/JOIN", what, id));
            }
            let want_cat = match c.rows[id as usize].0 {
                Some(x) => Value::Int(x),
                None => Value::Null,
            };
            if r.get(1) != Some(&want_cat) {
                return Err(format!("{}: row id {} returned with cat {:?}, the table has {:?}", what, id, r.get(1), want_cat));
            }
            got_keys.push(ref_key(c, &c.rows[id as usize].1));
        }
        // sorted as requested
        for w in got_keys.windows(2) {
            if key_cmp(c, &w[0], &w[1]) == std::cmp::Ordering::Greater {
                return Err(format!("{}: output is not ordered by the sort key: {:?} before {:?}", what, w[0], w[1]));
            }
        }
        // the window's keys, as a multiset (position by position after sorting both the same way)
        for (i, (g, w)) in got_keys.iter().zip(window.iter()).enumerate() {
            if !key_eq(g, &w.1) {
                return Err(format!(
                    "{}: the returned rows are not the window of best keys: position {} has key {:?}, the reference window has {:?}\n returned keys: {:?}\n reference window keys: {:?}",
                    what,
                    i,
                    g,
                    w.1,
                    got_keys,
                    window.iter().map(|x| x.1).collect::<Vec<_>>()
                ));
            }
        }
        if c.shape == 1 {
            // total order: exact id sequence
            let ids: Vec<i64> = rows.iter().map(|r| if let Value::Int(i) = r[0] { i } else { -1 }).collect();
            let want: Vec<i64> = window.iter().map(|x| x.0).collect();
            if ids != want {
                return Err(format!("{}: with the id tiebreaker the order is total: got ids {:?}, expected {:?}", what, ids, want));
            }
        }
        Ok(())
    }
}

impl Check for ExactKnn {
    type Case = VecCase;
    fn name(&self) -> &'static str {
        "exact_knn"
    }
    fn rule(&self) -> &'static str {
        "the rewrite fired (the optimized plan contains a VectorSearch node) and k < number of table rows"
    }
    fn cases(&self, tier: Tier) -> u32 {
        tier.pick(3000, 60_000)
    }
    fn strategy(&self, tier: Tier) -> BoxedStrategy<VecCase> {
        vec_case(tier)
    }
    fn test(&self, c: &VecCase, obs: &mut Obs) -> Verdict {
        let sql = render(c);
        obs.sample(serde_json::json!({ "sql": sql, "rows": c.rows.len(), "dim": c.dim, "parquet": c.parquet, "indexed_mode": c.indexed_mode }));
        let dir = TempDir::new("c43");
        let ctx = match context(c, &dir) {
            Ok(x) => x,
            Err(e) => return Verdict::Discard(format!("registration:{}", crate::sqlcheck::short_err(&e))),
        };
        obs.label(format!("func:{}", FUNCS[c.func as usize % 4]));
        obs.label(format!("shape:{}", c.shape));
        obs.label(if c.parquet { "parquet" } else { "memory" });
        obs.label(if c.indexed_mode { "mode:indexed" } else { "mode:exact" });
        let fired = match std::panic::catch_unwind(std::panic::AssertUnwindSafe(|| ctx.optimized_plan(&sql))) {
            Ok(Ok(p)) => format!("{}", p).contains("VectorSearch"),
            Ok(Err(e)) => {
                obs.label(format!("plan_error:{}", crate::sqlcheck::short_err(&e.to_string())));
                return Verdict::Pass;
            }
            Err(_) => false,
        };
        obs.label(if fired { "rewrite_fired" } else { "rewrite_not_fired" });
        let n = c.rows.len();
        obs.nontrivial(fired && c.limit.map(|k| k < n).unwrap_or(false));
        let natural = c.desc == (c.func % 4 >= 2);
        if fired && (c.shape == 1 || c.shape == 2 || c.shape == 3 || !natural || c.limit.is_none() || c.nulls_first == Some(true)) {
            return Verdict::Fail(format!("the k-NN rewrite fired on a shape it must leave alone\n sql: {}", sql));
        }
        let tables = || {
            format!(
                " sql: {}\n dim={} parquet={} indexed_mode={} cuts={:?}\n rows (id, cat, v, reference key):\n{}",
                sql,
                c.dim,
                c.parquet,
                c.indexed_mode,
                c.cuts,
                c.rows.iter().enumerate().map(|(i, (cat, v))| format!("  ({}, {:?}, {:?}, {:?})", i, cat, v, ref_key(c, v))).collect::<Vec<_>>().join("\n")
            )
        };
        let with = run_sql(&ctx, &sql);
        let without = run_with_rules(&ctx, &sql, without_pushdown());
        match (&with, &without) {
            (Err(a), Err(_)) => {
                obs.label(format!("both_error:{}", crate::sqlcheck::short_err(a)));
                return Verdict::Pass;
            }
            (Err(a), Ok(_)) => {
                if fired {
                    return Verdict::Fail(format!("the statement fails only with the k-NN rewrite: {}\n{}", a, tables()));
                }
                obs.label(format!("only_production_errors:{}", crate::sqlcheck::short_err(a)));
                return Verdict::Pass;
            }
            (Ok(_), Err(b)) => {
                obs.label(format!("only_baseline_errors:{}", crate::sqlcheck::short_err(b)));
            }
            (Ok(a), Ok(b)) => {
                // differential: same number of rows and the same key sequence
                let keys = |rows: &Rows| -> Vec<Option<f64>> {
                    rows.iter()
                        .map(|r| match r.first() {
                            Some(Value::Int(i)) if *i >= 0 && (*i as usize) < n => ref_key(c, &c.rows[*i as usize].1),
                            _ => None,
                        })
                        .collect()
                };
                let (ka, kb) = (keys(a), keys(b));
                if ka.len() != kb.len() || ka.iter().zip(kb.iter()).any(|(x, y)| !key_eq(x, y)) {
                    return Verdict::Fail(format!(
                        "with and without VectorSearchPushdown the statement returns different rows (rewrite fired: {})\n with: {} rows, keys {:?}\n{} without: {} rows, keys {:?}\n{}{}",
                        fired,
                        a.len(),
                        ka,
                        fmt_rows(a, 30),
                        b.len(),
                        kb,
                        fmt_rows(b, 30),
                        tables()
                    ));
                }
                if let Err(m) = self.check_rows(c, b, "without the rewrite") {
                    // the literal ORDER BY/LIMIT itself is wrong: not this property's subject
                    obs.label("baseline_sort_limit_disagrees_with_reference");
                    if std::env::var("C43_DEBUG_BASELINE").is_ok() {
                        return Verdict::Fail(format!("BASELINE: {}\n engine rows:\n{}{}", m, fmt_rows(b, 40), tables()));
                    }
                    return Verdict::Pass;
                }
            }
        }
        if let Ok(a) = &with {
            if let Err(m) = self.check_rows(c, a, "production") {
                return Verdict::Fail(format!("{} (rewrite fired: {})\n engine rows:\n{}{}", m, fired, fmt_rows(a, 40), tables()));
            }
        }
        Verdict::Pass
    }
}

pub fn property() -> Property {
    Property {
        id: "C43",
        level: "exploration",
        assumptions: &[
            "vector components are small integers / halves, so the engine's f32 accumulation is exact and distances are compared with a 1e-6 relative tolerance; rows whose keys are equal within it are ties",
            "NULL vectors have a NULL distance, ordered NULLS LAST by default for both directions (binder.rs)",
            "memory and Parquet providers have no vector index: in Indexed mode the exact path must be taken as well",
            "when the statement WITHOUT the rewrite already disagrees with the reference ordering, the case is only labelled (plain ORDER BY/LIMIT correctness belongs to C01/C08)",
        ],
        checks: vec![Box::new(ExactKnn)],
    }
}
