//! C43 — not implemented yet.
use super::Property;

pub fn property() -> Property {
    Property { id: "C43", level: "exploration", assumptions: &[], checks: vec![] }
}
