//! Shared helpers of C34 / C35 (the serving front door): deterministic table
//! specs written as Parquet, in-process nodes on port 0, HTTP and Flight
//! clients that classify every outcome (never panic, never wait unboundedly).
#![allow(dead_code)]
use crate::data::{self, ColType, Column, ParquetLayout, Table, Value};
use arrow::datatypes::{DataType, Schema, SchemaRef};
use arrow::record_batch::RecordBatch;
use arrow_flight::client::FlightClient;
use arrow_flight::decode::DecodedPayload;
use arrow_flight::flight_service_client::FlightServiceClient;
use arrow_flight::{FlightDescriptor, Ticket};
use futures::TryStreamExt;
use query_engine::distributed::{http_client, spawn, HttpResponse, ServeOptions, ServerHandle, TableLoader};
use query_engine::ExecutionContext;
use serde::{Deserialize, Serialize};
use serde_json::Value as J;
use std::path::{Path, PathBuf};
use std::sync::OnceLock;
use std::time::{Duration, Instant};

/// Generous bound on any single network exchange. Hitting it is
/// "inconclusive" (Discard), never a violation.
pub const OP_TIMEOUT: Duration = Duration::from_secs(120);
/// Bound on waiting for a state (tables loaded, membership view).
pub const STATE_TIMEOUT: Duration = Duration::from_secs(90);

pub fn isolate_env() {
    static ONCE: OnceLock<()> = OnceLock::new();
    ONCE.get_or_init(|| {
        std::env::remove_var("QE_ADVERTISE_ADDR");
        std::env::remove_var("QE_NODE_ID");
        std::env::remove_var("POD_IP");
    });
}

// ---------------------------------------------------------------------------
// tables
// ---------------------------------------------------------------------------

/// A table described by a handful of numbers (a replay file stays small even
/// for >4096 rows); the rows are a pure function of the spec.
#[derive(Clone, Debug, Serialize, Deserialize, PartialEq)]
pub struct TableSpec {
    pub rows: usize,
    /// k = i % kmod
    pub kmod: u32,
    /// every `null_every`-th row has NULL in k, v and s (0 = no NULLs)
    pub null_every: u32,
    /// base width of the string column
    pub str_width: u16,
    /// every `wide_every`-th row carries a string of `wide_len` chars (0 = never)
    pub wide_every: u32,
    pub wide_len: u32,
    pub salt: u32,
    pub rg_size: usize,
    pub files: u8,
    /// keep the grouping key `k` free of NULLs (v and s still get them)
    #[serde(default)]
    pub k_not_null: bool,
}

const ALPHA: [&str; 14] = ["a", "b", "C", "d", "é", "z", " ", ",", "\"", "ß", "0", "'", "\n", "\\"];

fn mix(a: u64, b: u64) -> u64 {
    let mut x = a.wrapping_mul(0x9E3779B97F4A7C15) ^ b.wrapping_mul(0xD6E8FEB86659FD93);
    x ^= x >> 29;
    x = x.wrapping_mul(0xBF58476D1CE4E5B9);
    x ^ (x >> 32)
}

pub fn gen_string(i: usize, width: usize, salt: u32) -> String {
    let mut s = String::new();
    for j in 0..width {
        let h = mix(i as u64 + 1, (j as u64) << 32 | salt as u64);
        s.push_str(ALPHA[(h % ALPHA.len() as u64) as usize]);
    }
    s
}

/// t(id BIGINT unique, k BIGINT, v DOUBLE (multiples of 0.25), s VARCHAR, dt DATE)
pub fn gen_table(name: &str, spec: &TableSpec) -> Table {
    let cols = vec![
        Column { name: "id".into(), ty: ColType::Int },
        Column { name: "k".into(), ty: ColType::Int },
        Column { name: "v".into(), ty: ColType::Double },
        Column { name: "s".into(), ty: ColType::Str },
        Column { name: "dt".into(), ty: ColType::Date },
    ];
    let kmod = spec.kmod.max(1) as usize;
    let mut rows = Vec::with_capacity(spec.rows);
    for i in 0..spec.rows {
        let null = spec.null_every > 0 && i % spec.null_every as usize == (spec.null_every as usize - 1);
        let h = mix(i as u64, spec.salt as u64);
        let width = if spec.wide_every > 0 && i % spec.wide_every as usize == 0 {
            spec.wide_len as usize
        } else {
            (h % (spec.str_width as u64 + 1)) as usize
        };
        rows.push(vec![
            Value::Int(i as i64),
            if null && !spec.k_not_null { Value::Null } else { Value::Int((i % kmod) as i64) },
            if null { Value::Null } else { Value::Double(((h >> 8) % 33) as f64 * 0.25 - 4.0) },
            if null { Value::Null } else { Value::Str(gen_string(i, width, spec.salt)) },
            Value::Date(10957 + (h >> 16) as i32 % 400),
        ]);
    }
    Table { name: name.to_string(), cols, rows }
}

/// d(k BIGINT unique, name VARCHAR) — the small replicated dimension table.
pub fn gen_dim(name: &str, n: usize) -> Table {
    Table {
        name: name.to_string(),
        cols: vec![
            Column { name: "k".into(), ty: ColType::Int },
            Column { name: "name".into(), ty: ColType::Str },
        ],
        rows: (0..n)
            .map(|i| vec![Value::Int(i as i64), Value::Str(format!("n{}", i % 3))])
            .collect(),
    }
}

/// Write a table as a Parquet directory `<root>/<name>/part-*.parquet`.
pub fn write_table(root: &Path, t: &Table, rg_size: usize, files: u8) -> PathBuf {
    let dir = root.join(&t.name);
    let n = t.rows.len();
    let files = files.max(1) as usize;
    let cuts: Vec<usize> = (1..files).map(|f| n * f / files).collect();
    let layout = ParquetLayout { file_cuts: cuts, row_group_size: rg_size.max(1), stats: 1, dictionary: true };
    data::write_parquet(t, &dir, &layout);
    dir
}

pub fn local_ctx(dirs: &[(String, PathBuf)]) -> Result<ExecutionContext, String> {
    let mut ctx = ExecutionContext::new();
    for (n, d) in dirs {
        ctx.register_parquet(n.clone(), d).map_err(|e| e.to_string())?;
    }
    Ok(ctx)
}

pub fn ok_loader(dirs: Vec<(String, PathBuf)>) -> TableLoader {
    Box::new(move || {
        let mut ctx = ExecutionContext::new();
        for (n, d) in &dirs {
            ctx.register_parquet(n.clone(), d)?;
        }
        Ok(ctx)
    })
}

// ---------------------------------------------------------------------------
// nodes
// ---------------------------------------------------------------------------

/// Options of a test node: ephemeral ports, and a discovery interval so long
/// that the ONLY probe rounds are the ones a `set_peers` kick causes — the
/// membership view is then frozen while the statements run.
pub fn node_options(node_id: u64) -> ServeOptions {
    ServeOptions {
        bind: "127.0.0.1:0".into(),
        node_id: Some(node_id),
        discovery_interval: Duration::from_secs(3600),
        probe_timeout: Duration::from_millis(15_000),
        ..Default::default()
    }
}

pub async fn spawn_node(node_id: u64, loader: TableLoader) -> Result<ServerHandle, String> {
    isolate_env();
    spawn(node_options(node_id), loader).await.map_err(|e| e.to_string())
}

/// (address, status, is_self) triples of a node's own membership view.
pub fn view(h: &ServerHandle) -> Vec<(String, String, bool)> {
    h.state()
        .membership
        .members()
        .into_iter()
        .map(|m| (m.address.clone(), format!("{:?}", m.status).to_lowercase(), m.is_self))
        .collect()
}

/// number of members this node would fan out to (self + peers seen up)
pub fn up_count(v: &[(String, String, bool)]) -> usize {
    v.iter().filter(|(_, st, me)| *me || st == "up").count()
}

/// Wait until `pred` holds; `kick` is called every 400 ms while it does not
/// (a `set_peers` kick is lost when the discovery loop is not sleeping).
pub async fn wait_until<P: FnMut() -> bool, K: FnMut()>(mut pred: P, mut kick: K, limit: Duration) -> bool {
    let start = Instant::now();
    let mut last_kick = Instant::now();
    loop {
        if pred() {
            return true;
        }
        if start.elapsed() > limit {
            return false;
        }
        if last_kick.elapsed() > Duration::from_millis(400) {
            kick();
            last_kick = Instant::now();
        }
        tokio::time::sleep(Duration::from_millis(10)).await;
    }
}

pub async fn shutdown_all(handles: Vec<ServerHandle>) {
    for h in handles {
        let _ = tokio::time::timeout(Duration::from_secs(30), h.shutdown()).await;
    }
}

// ---------------------------------------------------------------------------
// HTTP
// ---------------------------------------------------------------------------

pub async fn http_post(addr: &str, path: &str, body: &str) -> Result<HttpResponse, String> {
    http_client::post_text(addr, path, body, OP_TIMEOUT).await.map_err(|e| e.to_string())
}
pub async fn http_get(addr: &str, path: &str) -> Result<HttpResponse, String> {
    http_client::get(addr, path, OP_TIMEOUT).await.map_err(|e| e.to_string())
}

pub fn is_timeout(e: &str) -> bool {
    e.contains("timed out")
}

pub fn decode_ipc(bytes: &[u8]) -> Result<(SchemaRef, Vec<RecordBatch>), String> {
    let r = arrow::ipc::reader::StreamReader::try_new(std::io::Cursor::new(bytes), None)
        .map_err(|e| format!("IPC stream does not open: {e}"))?;
    let schema = r.schema();
    let mut out = vec![];
    for b in r {
        out.push(b.map_err(|e| format!("IPC batch does not decode: {e}"))?);
    }
    Ok((schema, out))
}

pub fn error_text(resp: &HttpResponse) -> String {
    serde_json::from_slice::<J>(&resp.body)
        .ok()
        .and_then(|v| v.get("error").and_then(|e| e.as_str()).map(String::from))
        .unwrap_or_else(|| resp.text())
}

// ---------------------------------------------------------------------------
// Flight
// ---------------------------------------------------------------------------

pub async fn flight_client(addr: std::net::SocketAddr) -> Result<FlightClient, String> {
    let ch = tonic::transport::Endpoint::from_shared(format!("http://{addr}"))
        .map_err(|e| e.to_string())?
        .connect_timeout(Duration::from_secs(60))
        .connect()
        .await
        .map_err(|e| format!("flight connect: {e}"))?;
    // no client-side size limits: a limit of the *client* must never look like
    // a disagreement between the two front doors
    let inner = FlightServiceClient::new(ch)
        .max_decoding_message_size(512 << 20)
        .max_encoding_message_size(512 << 20);
    Ok(FlightClient::new_from_inner(inner))
}

#[derive(Debug, Clone)]
pub struct FlightMsg {
    /// "schema" | "batch" | "none"
    pub kind: &'static str,
    pub rows: usize,
    pub has_meta: bool,
}

#[derive(Debug)]
pub struct FlightAnswer {
    pub info_schema: Result<Schema, String>,
    pub ticket: Vec<u8>,
    pub stream_schema: Option<SchemaRef>,
    pub batches: Vec<RecordBatch>,
    pub msgs: Vec<FlightMsg>,
    pub metas: Vec<Vec<u8>>,
}

#[derive(Debug)]
pub enum FlightOutcome {
    Ok(FlightAnswer),
    /// refused with a gRPC status at `stage` ("info" | "doget" | "stream")
    Status { stage: &'static str, code: tonic::Code, msg: String },
    /// the client could not make sense of the reply (protocol/decoding)
    Broken { stage: &'static str, msg: String },
    Timeout,
}

fn classify(stage: &'static str, e: arrow_flight::error::FlightError) -> FlightOutcome {
    match e {
        arrow_flight::error::FlightError::Tonic(s) => {
            FlightOutcome::Status { stage, code: s.code(), msg: s.message().to_string() }
        }
        other => FlightOutcome::Broken { stage, msg: format!("{other:?}") },
    }
}

/// DoGet on a ticket, keeping the raw message sequence.
pub async fn flight_do_get(client: &mut FlightClient, ticket: Vec<u8>, info_schema: Result<Schema, String>) -> FlightOutcome {
    let fut = async {
        let stream = match client.do_get(Ticket::new(ticket.clone())).await {
            Ok(s) => s,
            Err(e) => return classify("doget", e),
        };
        let mut dec = stream.into_inner();
        let mut ans = FlightAnswer {
            info_schema,
            ticket: ticket.clone(),
            stream_schema: None,
            batches: vec![],
            msgs: vec![],
            metas: vec![],
        };
        loop {
            match dec.try_next().await {
                Ok(None) => break,
                Ok(Some(d)) => {
                    let has_meta = !d.inner.app_metadata.is_empty();
                    if has_meta {
                        ans.metas.push(d.inner.app_metadata.to_vec());
                    }
                    match d.payload {
                        DecodedPayload::Schema(s) => {
                            ans.stream_schema = Some(s);
                            ans.msgs.push(FlightMsg { kind: "schema", rows: 0, has_meta });
                        }
                        DecodedPayload::RecordBatch(b) => {
                            ans.msgs.push(FlightMsg { kind: "batch", rows: b.num_rows(), has_meta });
                            ans.batches.push(b);
                        }
                        DecodedPayload::None => ans.msgs.push(FlightMsg { kind: "none", rows: 0, has_meta }),
                    }
                }
                Err(e) => return classify("stream", e),
            }
        }
        FlightOutcome::Ok(ans)
    };
    match tokio::time::timeout(OP_TIMEOUT, fut).await {
        Ok(o) => o,
        Err(_) => FlightOutcome::Timeout,
    }
}

/// GetFlightInfo(cmd) on `info_client`, then DoGet(ticket) on `get_client`.
pub async fn flight_query(info_client: &mut FlightClient, get_client: Option<&mut FlightClient>, cmd: Vec<u8>) -> FlightOutcome {
    let info = match tokio::time::timeout(OP_TIMEOUT, info_client.get_flight_info(FlightDescriptor::new_cmd(cmd))).await {
        Err(_) => return FlightOutcome::Timeout,
        Ok(Err(e)) => return classify("info", e),
        Ok(Ok(i)) => i,
    };
    let info_schema = Schema::try_from(arrow_flight::IpcMessage(info.schema.clone())).map_err(|e| e.to_string());
    let Some(ticket) = info.endpoint.first().and_then(|e| e.ticket.clone()) else {
        return FlightOutcome::Broken { stage: "info", msg: "FlightInfo carries no endpoint/ticket".into() };
    };
    let c = match get_client {
        Some(c) => c,
        None => info_client,
    };
    flight_do_get(c, ticket.ticket.to_vec(), info_schema).await
}

pub enum SchemaOutcome {
    Ok(Schema),
    Status(tonic::Code, String),
    Broken(String),
    Timeout,
}
pub async fn flight_get_schema(client: &mut FlightClient, cmd: Vec<u8>) -> SchemaOutcome {
    match tokio::time::timeout(OP_TIMEOUT, client.get_schema(FlightDescriptor::new_cmd(cmd))).await {
        Err(_) => SchemaOutcome::Timeout,
        Ok(Ok(s)) => SchemaOutcome::Ok(s),
        Ok(Err(arrow_flight::error::FlightError::Tonic(s))) => SchemaOutcome::Status(s.code(), s.message().to_string()),
        Ok(Err(e)) => SchemaOutcome::Broken(format!("{e:?}")),
    }
}

// ---------------------------------------------------------------------------
// schema comparison (names and types, up to nullability and dictionary encoding)
// ---------------------------------------------------------------------------

fn norm_type(t: &DataType) -> DataType {
    match t {
        DataType::Dictionary(_, v) => norm_type(v),
        other => other.clone(),
    }
}
pub fn schema_sig(s: &Schema) -> Vec<(String, DataType)> {
    s.fields().iter().map(|f| (f.name().clone(), norm_type(f.data_type()))).collect()
}
pub fn fmt_sig(s: &[(String, DataType)]) -> String {
    s.iter().map(|(n, t)| format!("{n}:{t:?}")).collect::<Vec<_>>().join(", ")
}

// ---------------------------------------------------------------------------
// loaders and peers for lifecycle histories (C35)
// ---------------------------------------------------------------------------

/// A loader that waits for `release` (a send, or the sender being dropped),
/// then sleeps `sleep_ms`, then loads — or fails with `fail`.
pub fn staged_loader(
    dirs: Vec<(String, PathBuf)>,
    gated: bool,
    sleep_ms: u64,
    fail: Option<String>,
) -> (TableLoader, std::sync::mpsc::Sender<()>) {
    let (tx, rx) = std::sync::mpsc::channel::<()>();
    let loader: TableLoader = Box::new(move || {
        if gated {
            let _ = rx.recv();
        }
        if sleep_ms > 0 {
            std::thread::sleep(Duration::from_millis(sleep_ms));
        }
        if let Some(msg) = fail {
            return Err(query_engine::error::QueryError::Execution(msg));
        }
        let mut ctx = ExecutionContext::new();
        for (n, d) in &dirs {
            ctx.register_parquet(n.clone(), d)?;
        }
        Ok(ctx)
    });
    (loader, tx)
}

/// An address nobody listens on, reserved for the life of the value: the
/// socket is bound but never listens, so a connect is refused at once and no
/// other process on this shared box can take the port meanwhile.
pub struct DeadPort {
    _sock: tokio::net::TcpSocket,
    pub addr: String,
}
pub fn dead_port() -> Result<DeadPort, String> {
    let s = tokio::net::TcpSocket::new_v4().map_err(|e| e.to_string())?;
    s.bind("127.0.0.1:0".parse().unwrap()).map_err(|e| e.to_string())?;
    let a = s.local_addr().map_err(|e| e.to_string())?;
    Ok(DeadPort { _sock: s, addr: a.to_string() })
}
