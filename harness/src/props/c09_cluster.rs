//! In-process cluster shared by C09 / C10 / C45 (DESIGN §3.7 a).
//!
//! * Tables are real Parquet directories (multi-file, tiny row groups) written
//!   with `data::write_parquet` under one `data::TempDir`; a byte-identical
//!   copy under another directory is mounted by the peers flagged `copy`.
//! * `InProc` is a `FragmentTransport` that models the real HTTP exchange
//!   (`HttpTransport::send` ⇄ `POST /fragment`) step by step without a socket:
//!   request → JSON → (wire) → JSON → `execute_fragment` on the peer context →
//!   `encode_ipc` → (status, `x-qe-rows`, body) → (wire) → the client-side
//!   rules of `HttpTransport::send` (non-2xx ⇒ Err, rows = header or 0).
//!   A *fault script* may act on either wire for chosen (address, table)
//!   exchanges (used by C10). Every exchange is logged.
#![allow(dead_code)]
use crate::data::*;
use crate::engine::{block_on, panic_text};
use query_engine::distributed::coordinator::encode_ipc;
use query_engine::distributed::{
    execute_fragment, DistributedResult, FragmentRequest, FragmentTransport, Participant,
};
use query_engine::{ExecutionContext, QueryError};
use serde::{Deserialize, Serialize};
use query_engine::planner::Expr as LExpr;
use query_engine::planner::LogicalPlan;
use std::collections::{BTreeMap, BTreeSet};
use std::sync::{Arc, Mutex};

/// One table and how it is laid out on disk.
#[derive(Clone, Debug, Serialize, Deserialize, PartialEq)]
pub struct PqTable {
    pub table: Table,
    pub layout: ParquetLayout,
}

/// Shape of the cluster: `nodes` participants, the initiator at `self_pos`;
/// participant i (≠ self) mounts the copy directory when `copy[i]`.
#[derive(Clone, Debug, Serialize, Deserialize, PartialEq)]
pub struct ClusterSpec {
    pub nodes: usize,
    pub self_pos: usize,
    pub copy: Vec<bool>,
}

impl ClusterSpec {
    pub fn normalized(&self) -> ClusterSpec {
        let nodes = self.nodes.clamp(1, 8);
        ClusterSpec { nodes, self_pos: self.self_pos.min(nodes - 1), copy: (0..nodes).map(|i| self.copy.get(i).copied().unwrap_or(false)).collect() }
    }
}

pub fn cluster_strategy(max_nodes: usize) -> impl proptest::strategy::Strategy<Value = ClusterSpec> {
    use proptest::prelude::*;
    (1usize..=max_nodes, any::<u16>(), proptest::collection::vec(any::<bool>(), 8)).prop_map(|(nodes, sel, copy)| ClusterSpec {
        nodes,
        self_pos: pick_idx(sel, nodes),
        copy: copy.into_iter().take(nodes).collect(),
    })
}

/// Layouts that give several files and tiny row groups (so that a table has
/// several splits, sometimes fewer than nodes).
pub fn tiny_layout_strategy(max_rows: usize) -> impl proptest::strategy::Strategy<Value = ParquetLayout> {
    use proptest::prelude::*;
    (
        proptest::collection::vec(0..=max_rows.max(1), 0..4),
        prop_oneof![3 => Just(1usize), 3 => Just(2), 3 => Just(3), 2 => Just(5), 2 => Just(8), 1 => Just(1 << 20)],
        prop_oneof![4 => Just(1u8), 1 => Just(0u8), 1 => Just(2u8)],
        any::<bool>(),
    )
        .prop_map(|(file_cuts, row_group_size, stats, dictionary)| ParquetLayout { file_cuts, row_group_size, stats, dictionary })
}

pub struct Cluster {
    pub dir: TempDir,
    pub base: ExecutionContext,
    pub participants: Vec<Participant>,
    /// address -> peer context (remote participants only)
    pub peers: BTreeMap<String, Arc<ExecutionContext>>,
}

fn ctx_over(dir: &std::path::Path, tables: &[PqTable]) -> Result<ExecutionContext, String> {
    let mut ctx = ExecutionContext::new();
    for t in tables {
        ctx.register_parquet(t.table.name.clone(), dir.join(&t.table.name)).map_err(|e| format!("register {}: {}", t.table.name, e))?;
    }
    Ok(ctx)
}

pub fn address_of(i: usize) -> String {
    format!("10.9.0.{}:7777", i + 1)
}

impl Cluster {
    pub fn build(tag: &str, tables: &[PqTable], spec: &ClusterSpec) -> Result<Cluster, String> {
        Self::build_with_copy(tag, tables, spec, None)
    }

    /// As `build`, but the participants with `copy[i]` mount a directory that was WRITTEN from
    /// `copy_tables` (a divergent copy of the data: other rows, other files) instead of a
    /// byte-identical copy of the initiator's files.
    pub fn build_with_copy(tag: &str, tables: &[PqTable], spec: &ClusterSpec, copy_tables: Option<&[PqTable]>) -> Result<Cluster, String> {
        let spec = spec.normalized();
        let dir = TempDir::new(tag);
        let orig = dir.path().join("mnt-a");
        for t in tables {
            write_parquet(&t.table, &orig.join(&t.table.name), &t.layout);
        }
        let need_copy = (0..spec.nodes).any(|i| i != spec.self_pos && spec.copy[i]);
        let copy = dir.path().join("mnt-b").join("deeper");
        if let (true, Some(ct)) = (need_copy, copy_tables) {
            for t in ct {
                write_parquet(&t.table, &copy.join(&t.table.name), &t.layout);
            }
        } else if need_copy {
            for t in tables {
                let from = orig.join(&t.table.name);
                let to = copy.join(&t.table.name);
                std::fs::create_dir_all(&to).map_err(|e| e.to_string())?;
                let mut names: Vec<_> = std::fs::read_dir(&from).map_err(|e| e.to_string())?.filter_map(|e| e.ok()).map(|e| e.path()).collect();
                // copy in reverse order so directory enumeration order differs where the fs keeps creation order
                names.sort();
                names.reverse();
                for p in names {
                    std::fs::copy(&p, to.join(p.file_name().unwrap())).map_err(|e| e.to_string())?;
                }
            }
        }
        let base = ctx_over(&orig, tables)?;
        let peer_a = Arc::new(ctx_over(&orig, tables)?);
        let peer_b = if need_copy { Some(Arc::new(ctx_over(&copy, tables)?)) } else { None };
        let mut participants = vec![];
        let mut peers = BTreeMap::new();
        for i in 0..spec.nodes {
            let address = address_of(i);
            let is_self = i == spec.self_pos;
            participants.push(Participant { node_id: 100 + i as u64, address: address.clone(), is_self });
            if !is_self {
                let p = if spec.copy[i] { peer_b.clone().unwrap() } else { peer_a.clone() };
                peers.insert(address, p);
            }
        }
        Ok(Cluster { dir, base, participants, peers })
    }

    pub fn transport(&self, script: Vec<ScriptEntry>) -> InProc {
        InProc { peers: self.peers.clone(), script, log: Mutex::new(vec![]) }
    }
}

// ---------------------------------------------------------------------------
// faults
// ---------------------------------------------------------------------------

#[derive(Clone, Debug, Serialize, Deserialize, PartialEq)]
pub enum Fault {
    /// the connection fails: `send` returns Err without reaching the worker
    TransportErr,
    /// the reply arrives with this (non-2xx) status and an error body
    HttpStatus(u16),
    /// 200 with a zero-length body
    EmptyBody,
    /// body cut to its first `n` bytes
    TruncateAt(usize),
    /// one body byte xor-ed
    CorruptAt { offset: usize, xor: u8 },
    /// the end-of-stream marker (last 8 bytes) removed
    DropEos,
    /// the `x-qe-rows` header carries rows+delta (clamped at 0)
    RowsHeader(i64),
    /// the `x-qe-rows` header is absent
    RowsHeaderMissing,
    /// `splits_digest` of the request altered on the way to the worker
    DigestAltered,
}

impl Fault {
    pub fn kind(&self) -> &'static str {
        match self {
            Fault::TransportErr => "transport_err",
            Fault::HttpStatus(_) => "http_status",
            Fault::EmptyBody => "empty_body",
            Fault::TruncateAt(_) => "truncate",
            Fault::CorruptAt { .. } => "corrupt",
            Fault::DropEos => "drop_eos",
            Fault::RowsHeader(_) => "rows_header",
            Fault::RowsHeaderMissing => "rows_header_missing",
            Fault::DigestAltered => "digest_altered",
        }
    }
}

/// Apply `fault` to the exchange with `address` about `table`.
#[derive(Clone, Debug, Serialize, Deserialize, PartialEq)]
pub struct ScriptEntry {
    pub address: String,
    pub table: String,
    pub fault: Fault,
}

/// What went over the (modelled) wire in one exchange, before faults.
#[derive(Clone, Debug)]
pub struct Exchange {
    pub address: String,
    pub table: String,
    pub shard_index: usize,
    pub status: u16,
    pub rows: usize,
    pub body: Vec<u8>,
    pub faulted: Vec<&'static str>,
}

/// The effect of a body-level fault on the reply bytes (shared by the transport
/// and by C10's pre-screening of corrupted replies).
pub fn apply_body_fault(body: &mut Vec<u8>, f: &Fault) {
    match f {
        Fault::EmptyBody => body.clear(),
        Fault::TruncateAt(n) => body.truncate(*n),
        Fault::CorruptAt { offset, xor } => {
            if let Some(b) = body.get_mut(*offset) {
                *b ^= if *xor == 0 { 1 } else { *xor };
            }
        }
        Fault::DropEos => {
            if body.ends_with(&[0xff, 0xff, 0xff, 0xff, 0, 0, 0, 0]) {
                let n = body.len() - 8;
                body.truncate(n);
            }
        }
        _ => {}
    }
}

pub struct InProc {
    pub peers: BTreeMap<String, Arc<ExecutionContext>>,
    pub script: Vec<ScriptEntry>,
    pub log: Mutex<Vec<Exchange>>,
}

impl InProc {
    pub fn exchanges(&self) -> Vec<Exchange> {
        let mut v = self.log.lock().unwrap().clone();
        v.sort_by(|a, b| (a.table.as_str(), a.shard_index).cmp(&(b.table.as_str(), b.shard_index)));
        v
    }
}

#[async_trait::async_trait]
impl FragmentTransport for InProc {
    async fn send(&self, address: &str, req: &FragmentRequest) -> query_engine::Result<(Vec<u8>, usize, f64)> {
        let faults: Vec<Fault> = self.script.iter().filter(|s| s.address == address && s.table == req.table).map(|s| s.fault.clone()).collect();
        let mut applied: Vec<&'static str> = faults.iter().map(|f| f.kind()).collect();
        applied.sort();
        if faults.iter().any(|f| matches!(f, Fault::TransportErr)) {
            self.log.lock().unwrap().push(Exchange { address: address.into(), table: req.table.clone(), shard_index: req.shard_index, status: 0, rows: 0, body: vec![], faulted: applied });
            return Err(QueryError::Execution(format!("connection refused: {address}")));
        }
        // --- request wire (HttpTransport::send: serde_json::to_vec) ---------
        let mut wire = serde_json::to_value(req).map_err(|e| QueryError::Execution(format!("cannot encode fragment request: {e}")))?;
        if faults.iter().any(|f| matches!(f, Fault::DigestAltered)) {
            let d = wire["splits_digest"].as_u64().unwrap_or(0);
            wire["splits_digest"] = serde_json::json!(d ^ 0x0000_0100_0000_0001);
        }
        let wire = serde_json::to_vec(&wire).unwrap();
        // --- worker: server.rs `fragment()` --------------------------------
        let peer = self.peers.get(address).cloned();
        let (mut status, mut rows_header, mut body): (u16, Option<String>, Vec<u8>) = match peer {
            None => (503, None, br#"{"error":"no such peer","status":503}"#.to_vec()),
            Some(ctx) => match serde_json::from_slice::<FragmentRequest>(&wire) {
                Err(e) => (400, None, serde_json::to_vec(&serde_json::json!({"error": format!("malformed fragment request: {e}"), "status": 400})).unwrap()),
                Ok(request) => {
                    // the server runs the fragment on a spawned task: a panic becomes a 500
                    let joined = crate::engine::rt()
                        .spawn(async move {
                            let (result, _stats) = execute_fragment(&ctx, &request).await?;
                            let bytes = encode_ipc(&result.schema, &result.batches)?;
                            Ok::<_, QueryError>((bytes, result.row_count))
                        })
                        .await;
                    match joined {
                        Ok(Ok((bytes, rows))) => (200, Some(rows.to_string()), bytes),
                        Ok(Err(e)) => (400, None, serde_json::to_vec(&serde_json::json!({"error": e.to_string(), "status": 400})).unwrap()),
                        Err(e) => (500, None, serde_json::to_vec(&serde_json::json!({"error": format!("fragment task failed: {e}"), "status": 500})).unwrap()),
                    }
                }
            },
        };
        self.log.lock().unwrap().push(Exchange {
            address: address.into(),
            table: req.table.clone(),
            shard_index: req.shard_index,
            status,
            rows: rows_header.as_ref().and_then(|r| r.parse().ok()).unwrap_or(0),
            body: body.clone(),
            faulted: applied,
        });
        // --- response wire ------------------------------------------------
        for f in &faults {
            match f {
                Fault::HttpStatus(s) => {
                    status = *s;
                    body = serde_json::to_vec(&serde_json::json!({"error": "injected", "status": s})).unwrap();
                    rows_header = None;
                }
                Fault::RowsHeader(d) => {
                    if let Some(r) = rows_header.as_ref().and_then(|r| r.parse::<i64>().ok()) {
                        rows_header = Some((r + d).max(0).to_string());
                    }
                }
                Fault::RowsHeaderMissing => rows_header = None,
                other => apply_body_fault(&mut body, other),
            }
        }
        // --- client: HttpTransport::send ------------------------------------
        if !(200..300).contains(&status) {
            let detail = serde_json::from_slice::<serde_json::Value>(&body)
                .ok()
                .and_then(|v| v.get("error").and_then(|e| e.as_str()).map(String::from))
                .unwrap_or_else(|| String::from_utf8_lossy(&body).into_owned());
            return Err(QueryError::Execution(format!("HTTP {} — {detail}", status)));
        }
        let rows = rows_header.and_then(|v| v.parse::<usize>().ok()).unwrap_or(0);
        Ok((body, rows, 0.0))
    }
}

// ---------------------------------------------------------------------------
// running
// ---------------------------------------------------------------------------

pub enum DistOutcome {
    Ok(DistributedResult),
    NotImplemented(String),
    Err(String),
    Panic(String),
}

pub fn run_any_distributed(cl: &Cluster, sql: &str, tr: &InProc) -> DistOutcome {
    if std::env::var("C09_DEBUG").is_ok() {
        // triage aid: show where an engine panic comes from
        std::panic::set_hook(Box::new(|info| {
            eprintln!("PANIC: {}\n{}", info, std::backtrace::Backtrace::force_capture());
        }));
    }
    let r = std::panic::catch_unwind(std::panic::AssertUnwindSafe(|| {
        block_on(query_engine::distributed::execute_any_distributed(&cl.base, sql, &cl.participants, tr))
    }));
    match r {
        Ok(Ok(d)) => DistOutcome::Ok(d),
        Ok(Err(QueryError::NotImplemented(m))) => DistOutcome::NotImplemented(m),
        Ok(Err(e)) => DistOutcome::Err(e.to_string()),
        Err(p) => DistOutcome::Panic(panic_text(p)),
    }
}

pub fn run_gathered(cl: &Cluster, plan: &query_engine::distributed::GatherPlan, tr: &InProc) -> DistOutcome {
    let r = std::panic::catch_unwind(std::panic::AssertUnwindSafe(|| {
        block_on(query_engine::distributed::execute_gathered(&cl.base, plan, &cl.participants, tr))
    }));
    match r {
        Ok(Ok(d)) => DistOutcome::Ok(d),
        Ok(Err(QueryError::NotImplemented(m))) => DistOutcome::NotImplemented(m),
        Ok(Err(e)) => DistOutcome::Err(e.to_string()),
        Err(p) => DistOutcome::Panic(panic_text(p)),
    }
}

/// The shape the planner elects for `sql` ("concat" / "two_phase" / "top_n" /
/// "gather"), or the planning error.
pub fn planned_shape(ctx: &ExecutionContext, sql: &str) -> Result<&'static str, String> {
    use query_engine::distributed::{plan_distributed, MergeShape};
    let r = std::panic::catch_unwind(std::panic::AssertUnwindSafe(|| plan_distributed(ctx, sql)));
    match r {
        Ok(Ok(p)) => Ok(match p.shape {
            MergeShape::Concat => "concat",
            MergeShape::TwoPhase => "two_phase",
            MergeShape::TopN => "top_n",
            MergeShape::Gather => "gather",
        }),
        Ok(Err(QueryError::NotImplemented(_))) => Ok("gather"),
        Ok(Err(e)) => Err(e.to_string()),
        Err(p) => Err(format!("PANIC: {}", panic_text(p))),
    }
}

// ---------------------------------------------------------------------------
// Arrow IPC stream framing (independent of the engine's decoder)
// ---------------------------------------------------------------------------

#[derive(Clone, Debug, PartialEq)]
pub struct IpcMessage {
    /// byte offset one past this message (metadata + body)
    pub end: usize,
    /// "schema" / "batch" / "dictionary" / "eos" / "other"
    pub kind: &'static str,
    /// rows of a record batch message
    pub rows: i64,
    /// where the message body (buffers) starts
    pub body_start: usize,
}

/// Walk the encapsulated-message framing of an IPC stream.
pub fn ipc_messages(bytes: &[u8]) -> Result<Vec<IpcMessage>, String> {
    let mut out = vec![];
    let mut pos = 0usize;
    let u32_at = |p: usize| -> Option<u32> { bytes.get(p..p + 4).map(|b| u32::from_le_bytes([b[0], b[1], b[2], b[3]])) };
    while pos < bytes.len() {
        let first = u32_at(pos).ok_or("short prefix")?;
        let (len, hdr) = if first == 0xFFFF_FFFF { (u32_at(pos + 4).ok_or("short length")? as usize, 8) } else { (first as usize, 4) };
        if len == 0 {
            out.push(IpcMessage { end: pos + hdr, kind: "eos", rows: 0, body_start: pos + hdr });
            pos += hdr;
            break;
        }
        let meta = bytes.get(pos + hdr..pos + hdr + len).ok_or("short metadata")?;
        let msg = arrow::ipc::root_as_message(meta).map_err(|e| format!("flatbuffer: {e}"))?;
        let body_len = msg.bodyLength() as usize;
        let (kind, rows) = match msg.header_type() {
            arrow::ipc::MessageHeader::Schema => ("schema", 0),
            arrow::ipc::MessageHeader::RecordBatch => ("batch", msg.header_as_record_batch().map(|b| b.length()).unwrap_or(0)),
            arrow::ipc::MessageHeader::DictionaryBatch => ("dictionary", 0),
            _ => ("other", 0),
        };
        let body_start = pos + hdr + len;
        let end = body_start + body_len;
        if end > bytes.len() {
            return Err("short body".into());
        }
        out.push(IpcMessage { end, kind, rows, body_start });
        pos = end;
    }
    if pos != bytes.len() {
        return Err(format!("{} trailing bytes", bytes.len() - pos));
    }
    Ok(out)
}

/// Largest length an IPC stream *declares* for a message body beyond the bytes
/// that are actually there (0 = the framing is consistent, or it breaks in a way
/// a reader notices before allocating). A reader that allocates the declared
/// size before reading is at the mercy of this number.
pub fn declared_overrun(bytes: &[u8]) -> u64 {
    let mut pos = 0usize;
    let u32_at = |p: usize| -> Option<u32> { bytes.get(p..p + 4).map(|b| u32::from_le_bytes([b[0], b[1], b[2], b[3]])) };
    while pos < bytes.len() {
        let Some(first) = u32_at(pos) else { return 0 };
        let (len, hdr) = if first == 0xFFFF_FFFF {
            match u32_at(pos + 4) {
                Some(l) => (l as i32, 8),
                None => return 0,
            }
        } else {
            (first as i32, 4)
        };
        if len == 0 {
            return 0;
        }
        if len < 0 {
            return 0; // Vec capacity overflow: a panic, not an abort
        }
        let len = len as usize;
        let Some(meta) = bytes.get(pos + hdr..pos + hdr + len) else { return 0 };
        let Ok(msg) = arrow::ipc::root_as_message(meta) else { return 0 };
        let body_len = msg.bodyLength();
        let remaining = (bytes.len() - (pos + hdr + len)) as u64;
        if body_len < 0 {
            return u64::MAX;
        }
        if body_len as u64 > remaining {
            return body_len as u64 - remaining;
        }
        pos += hdr + len + body_len as usize;
    }
    0
}

// ---------------------------------------------------------------------------
// ordered comparison against a full (un-limited) answer
// ---------------------------------------------------------------------------

#[derive(Clone, Debug)]
pub struct KeySpec {
    pub col: usize,
    pub desc: bool,
    /// None = engine default (NULLS LAST for both directions)
    pub nulls_first: Option<bool>,
}

pub fn key_cmp(a: &[Value], b: &[Value], keys: &[KeySpec]) -> std::cmp::Ordering {
    use std::cmp::Ordering::*;
    for k in keys {
        let (x, y) = (&a[k.col], &b[k.col]);
        let nf = k.nulls_first.unwrap_or(false);
        let o = match (x.is_null(), y.is_null()) {
            (true, true) => Equal,
            (true, false) => {
                if nf {
                    Less
                } else {
                    Greater
                }
            }
            (false, true) => {
                if nf {
                    Greater
                } else {
                    Less
                }
            }
            (false, false) => {
                let o = x.canon_cmp(y);
                if k.desc {
                    o.reverse()
                } else {
                    o
                }
            }
        };
        if o != Equal {
            return o;
        }
    }
    Equal
}

/// Build the `RefAnswer` shape of `refsql::compare_answer` from the rows of the
/// statement *without* LIMIT/OFFSET: rows sorted on the keys, tie-group ids.
pub fn ordered_reference(full: &Rows, keys: &[KeySpec], limit: Option<u64>, offset: Option<u64>) -> crate::refsql::RefAnswer {
    let mut rows = full.clone();
    rows.sort_by(|a, b| key_cmp(a, b, keys));
    let mut groups = Vec::with_capacity(rows.len());
    let mut g = 0usize;
    for i in 0..rows.len() {
        if i > 0 && key_cmp(&rows[i - 1], &rows[i], keys) != std::cmp::Ordering::Equal {
            g += 1;
        }
        groups.push(g);
    }
    let off = (offset.unwrap_or(0) as usize).min(rows.len());
    let end = match limit {
        Some(l) => (off + l as usize).min(rows.len()),
        None => rows.len(),
    };
    crate::refsql::RefAnswer { cols: vec![], rows: rows[off..end].to_vec(), sorted_full: Some((rows, groups)), limit, offset }
}

// ---------------------------------------------------------------------------
// walker over the bound plan
// ---------------------------------------------------------------------------

#[derive(Clone, Copy, PartialEq, Eq, Debug, PartialOrd, Ord)]
pub enum Role {
    Output,
    Filter,
}

#[derive(Default)]
pub struct Walk {
    /// relation alias -> table names it denotes (a set: >1 means ambiguous)
    alias: BTreeMap<String, BTreeSet<String>>,
    /// tables scanned anywhere; true when some scan is inside a subquery expression only
    scanned: BTreeMap<String, (bool, bool)>, // (seen in main tree, seen in a subquery expression)
    /// (relation, column, role, inside subquery expression)
    refs: Vec<(Option<String>, String, Role, bool)>,
}

impl Walk {
    fn plan(&mut self, p: &LogicalPlan, in_sub: bool) {
        match p {
            LogicalPlan::Scan(n) => {
                let e = self.scanned.entry(n.table_name.clone()).or_insert((false, false));
                if in_sub {
                    e.1 = true;
                } else {
                    e.0 = true;
                }
                for f in n.schema.fields() {
                    if let Some(r) = &f.relation {
                        self.alias.entry(r.clone()).or_default().insert(n.table_name.clone());
                    }
                }
                self.alias.entry(n.table_name.clone()).or_default().insert(n.table_name.clone());
                if let Some(f) = &n.filter {
                    self.expr(f, Role::Filter, in_sub);
                }
            }
            LogicalPlan::Filter(n) => {
                self.expr(&n.predicate, Role::Filter, in_sub);
                self.plan(&n.input, in_sub);
            }
            LogicalPlan::Project(n) => {
                for e in &n.exprs {
                    self.expr(e, Role::Output, in_sub);
                }
                self.plan(&n.input, in_sub);
            }
            LogicalPlan::Join(n) => {
                for (l, r) in &n.on {
                    self.expr(l, Role::Filter, in_sub);
                    self.expr(r, Role::Filter, in_sub);
                }
                if let Some(f) = &n.filter {
                    self.expr(f, Role::Filter, in_sub);
                }
                self.plan(&n.left, in_sub);
                self.plan(&n.right, in_sub);
            }
            LogicalPlan::Aggregate(n) => {
                for e in n.group_by.iter().chain(n.aggregates.iter()) {
                    self.expr(e, Role::Output, in_sub);
                }
                self.plan(&n.input, in_sub);
            }
            LogicalPlan::Window(n) => {
                for (_, w) in &n.window_exprs {
                    for e in w.args.iter().chain(w.partition_by.iter()) {
                        self.expr(e, Role::Output, in_sub);
                    }
                    for o in &w.order_by {
                        self.expr(&o.expr, Role::Output, in_sub);
                    }
                }
                self.plan(&n.input, in_sub);
            }
            LogicalPlan::Sort(n) => {
                for o in &n.order_by {
                    self.expr(&o.expr, Role::Filter, in_sub);
                }
                self.plan(&n.input, in_sub);
            }
            LogicalPlan::DelimJoin(n) => {
                for (l, r) in &n.on {
                    self.expr(l, Role::Filter, in_sub);
                    self.expr(r, Role::Filter, in_sub);
                }
                for e in &n.delim_columns {
                    self.expr(e, Role::Filter, in_sub);
                }
                self.plan(&n.left, in_sub);
                self.plan(&n.right, in_sub);
            }
            LogicalPlan::Values(n) => {
                for row in &n.values {
                    for e in row {
                        self.expr(e, Role::Output, in_sub);
                    }
                }
            }
            other => {
                for c in other.children() {
                    self.plan(c, in_sub);
                }
            }
        }
    }

    fn expr(&mut self, e: &LExpr, role: Role, in_sub: bool) {
        match e {
            LExpr::Column(c) => self.refs.push((c.relation.clone(), c.name.clone(), role, in_sub)),
            LExpr::Literal(_) | LExpr::Wildcard | LExpr::QualifiedWildcard(_) => {}
            LExpr::BinaryExpr { left, right, .. } => {
                self.expr(left, role, in_sub);
                self.expr(right, role, in_sub);
            }
            LExpr::UnaryExpr { expr, .. } | LExpr::Cast { expr, .. } | LExpr::Alias { expr, .. } => self.expr(expr, role, in_sub),
            LExpr::Aggregate { args, .. } | LExpr::ScalarFunc { args, .. } => {
                for a in args {
                    self.expr(a, role, in_sub);
                }
            }
            LExpr::Case { operand, when_then, else_expr } => {
                if let Some(o) = operand {
                    self.expr(o, role, in_sub);
                }
                for (w, t) in when_then {
                    self.expr(w, role, in_sub);
                    self.expr(t, role, in_sub);
                }
                if let Some(x) = else_expr {
                    self.expr(x, role, in_sub);
                }
            }
            LExpr::InList { expr, list, .. } => {
                self.expr(expr, role, in_sub);
                for l in list {
                    self.expr(l, role, in_sub);
                }
            }
            LExpr::Between { expr, low, high, .. } => {
                self.expr(expr, role, in_sub);
                self.expr(low, role, in_sub);
                self.expr(high, role, in_sub);
            }
            LExpr::ScalarSubquery(p) => self.plan(p, true),
            LExpr::Exists { subquery, .. } => self.plan(subquery, true),
            LExpr::InSubquery { expr, subquery, .. } => {
                self.expr(expr, role, in_sub);
                self.plan(subquery, true);
            }
            LExpr::WindowFunction(w) => {
                for a in w.args.iter().chain(w.partition_by.iter()) {
                    self.expr(a, role, in_sub);
                }
                for o in &w.order_by {
                    self.expr(&o.expr, role, in_sub);
                }
            }
        }
    }
}

/// What the bound statement reads: (table, column) -> (read for output, read in filter/join/sort, read inside a subquery expression)
pub struct Reads {
    pub cols: BTreeMap<(String, String), (bool, bool, bool)>,
    pub tables: BTreeMap<String, (bool, bool)>,
}

pub fn reads_of(bound: &LogicalPlan, tables: &[PqTable]) -> Reads {
    let mut w = Walk::default();
    w.plan(bound, false);
    let has_col = |t: &str, c: &str| tables.iter().find(|x| x.table.name == t).and_then(|x| x.table.cols.iter().find(|k| k.name == c)).is_some();
    let mut cols: BTreeMap<(String, String), (bool, bool, bool)> = BTreeMap::new();
    for (rel, name, role, in_sub) in &w.refs {
        let table: Option<String> = match rel {
            Some(r) => match w.alias.get(r) {
                Some(ts) if ts.len() == 1 => ts.iter().next().cloned(),
                _ => None,
            },
            None => {
                let cands: Vec<&String> = w.scanned.keys().filter(|t| has_col(t, name)).collect();
                if cands.len() == 1 {
                    Some(cands[0].clone())
                } else {
                    None
                }
            }
        };
        let Some(t) = table else { continue };
        if !has_col(&t, name) {
            continue;
        }
        let e = cols.entry((t, name.clone())).or_insert((false, false, false));
        if *in_sub {
            e.2 = true;
        } else if *role == Role::Output {
            e.0 = true;
        } else {
            e.1 = true;
        }
    }
    Reads { cols, tables: w.scanned }
}


/// Compare what the bound statement reads with what `plan_gather` gathers.
/// Returns the gaps (empty = complete). `None` when either step fails.
pub fn gather_gaps(ctx: &ExecutionContext, sql: &str, tables: &[PqTable]) -> Option<(Reads, Vec<String>)> {
    let bound = std::panic::catch_unwind(std::panic::AssertUnwindSafe(|| ctx.logical_plan(sql))).ok()?.ok()?;
    let reads = reads_of(&bound, tables);
    let plan = std::panic::catch_unwind(std::panic::AssertUnwindSafe(|| query_engine::distributed::plan_gather(ctx, sql))).ok()?.ok()?;
    let gaps = gaps_of(&reads, &plan);
    Some((reads, gaps))
}

pub fn gaps_of(reads: &Reads, plan: &query_engine::distributed::GatherPlan) -> Vec<String> {
    let mut missing: Vec<String> = vec![];
    for t in reads.tables.keys() {
        if !plan.tables.iter().any(|g| &g.name == t) {
            missing.push(format!("table {} is scanned by the bound statement but not gathered", t));
        }
    }
    for ((t, col), (o, f, s)) in &reads.cols {
        if let Some(g) = plan.tables.iter().find(|g| &g.name == t) {
            if let Some(cols) = &g.columns {
                if !cols.contains(col) {
                    missing.push(format!("{}.{} is read ({}{}{}) but gathered columns are {:?}", t, col, if *o { "output " } else { "" }, if *f { "filter " } else { "" }, if *s { "subquery" } else { "" }, cols));
                }
            }
        }
    }
    missing
}
