//! C16 — Peer HTTP responses are framed or rejected.
//!
//! Code under test: `distributed::http_client::{request, get, post_json}` over a
//! real loopback socket, and `parse_response` (hook `verif_parse_response`).
//!
//! A case describes the byte stream S a peer sends before it closes (or
//! stalls): a response (status line, headers with a correct / missing / wrong /
//! duplicated / unparseable Content-Length, body) cut at a generated point and
//! written in generated chunk sizes.  The oracle is a function of S only:
//!
//!   * the client returns `Err`, or `Ok(r)`;
//!   * `Ok(r)` requires that S contains a complete head (status line, header
//!     lines, blank line), `r.status` is the status S carries, every header
//!     line of S is present in `r.headers` (lower-cased name, trimmed value),
//!     and `r.body` is the complete body: all bytes after the head — or, when S
//!     declares a Content-Length n and carries more than n body bytes, possibly
//!     just the first n;
//!   * when every Content-Length line of S is a plain number and S carries
//!     fewer body bytes than each of them, `Ok` is a violation (the body would
//!     be shorter than declared);
//!   * the call never panics and returns within its timeout plus a generous
//!     slack, also when the peer stalls with the socket open.
//! `Err` is always acceptable (the property allows rejection); how often a
//! fully well-formed response is accepted is measured, not judged.
use super::Property;
use crate::runner::*;
use proptest::prelude::*;
use query_engine::distributed::http_client::{self, verif_parse_response, HttpResponse};
use serde::{Deserialize, Serialize};
use std::io::{Read, Write};
use std::time::{Duration, Instant};

const KF_CL: &str = "c16-content-length-ignored";

// ---------------------------------------------------------------------------
// case model
// ---------------------------------------------------------------------------
#[derive(Clone, Debug, Serialize, Deserialize)]
pub enum BodySpec {
    Bytes(Vec<u8>),
    /// `pat` repeated `n` times
    Repeat { pat: Vec<u8>, n: usize },
}
impl BodySpec {
    fn bytes(&self) -> Vec<u8> {
        match self {
            BodySpec::Bytes(b) => b.clone(),
            BodySpec::Repeat { pat, n } => {
                let mut v = Vec::with_capacity(pat.len() * n);
                for _ in 0..*n {
                    v.extend_from_slice(pat);
                }
                v
            }
        }
    }
}

#[derive(Clone, Debug, Serialize, Deserialize)]
pub enum ContentLength {
    Missing,
    Correct,
    /// declared = actual + delta (delta may be negative; clamped at 0)
    Off(i64),
    /// two Content-Length lines: (actual + d1, actual + d2)
    Twice(i64, i64),
    /// a value that is not a decimal number
    Text(String),
}

#[derive(Clone, Debug, Serialize, Deserialize)]
pub struct Response {
    /// e.g. "HTTP/1.1 200 OK" (no CRLF). `status` = the code it carries, or
    /// None when the line carries none (then Ok is a violation)
    pub status_line: String,
    pub status: Option<u16>,
    /// extra headers (name, value), printable ASCII, no CR/LF
    pub headers: Vec<(String, String)>,
    pub content_length: ContentLength,
    /// where the Content-Length line(s) go among the headers
    pub cl_pos: u8,
    pub body: BodySpec,
}

#[derive(Clone, Debug, Serialize, Deserialize)]
pub struct Delivery {
    /// cut the stream: None = whole; Some(sel) = keep a sel-selected prefix
    pub cut: Option<Cut>,
    /// sizes of successive writes (cycled); each >= 1
    pub writes: Vec<usize>,
    /// sleep this many milliseconds between writes (0..3)
    pub gap_ms: u8,
    /// after the last byte: close, or hold the socket open
    pub stall: bool,
}
#[derive(Clone, Debug, Serialize, Deserialize)]
pub enum Cut {
    /// inside the head (status line / headers / blank line): monotone selector
    Head(u32),
    /// inside the body: monotone selector over 0..body_len (strictly shorter)
    Body(u32),
    /// anywhere
    Any(u32),
}

fn pick32(sel: u32, len: usize) -> usize {
    ((sel as u64 * len as u64) >> 32) as usize
}

struct Built {
    stream: Vec<u8>,
    head_len: usize,
}

fn build(r: &Response, cut: &Option<Cut>) -> Built {
    let body = r.body.bytes();
    let mut lines: Vec<String> = r.headers.iter().map(|(k, v)| format!("{}: {}", k, v)).collect();
    let actual = body.len() as i64;
    let cl_lines: Vec<String> = match &r.content_length {
        ContentLength::Missing => vec![],
        ContentLength::Correct => vec![format!("Content-Length: {}", actual)],
        ContentLength::Off(d) => vec![format!("Content-Length: {}", (actual + d).max(0))],
        ContentLength::Twice(a, b) => vec![
            format!("Content-Length: {}", (actual + a).max(0)),
            format!("content-length: {}", (actual + b).max(0)),
        ],
        ContentLength::Text(t) => vec![format!("Content-Length: {}", t)],
    };
    let at = pick32((r.cl_pos as u32) << 24, lines.len() + 1);
    for (i, l) in cl_lines.into_iter().enumerate() {
        lines.insert((at + i).min(lines.len()), l);
    }
    let mut s = r.status_line.clone().into_bytes();
    s.extend_from_slice(b"\r\n");
    for l in &lines {
        s.extend_from_slice(l.as_bytes());
        s.extend_from_slice(b"\r\n");
    }
    s.extend_from_slice(b"\r\n");
    let head_len = s.len();
    s.extend_from_slice(&body);
    let keep = match cut {
        None => s.len(),
        Some(Cut::Head(sel)) => pick32(*sel, head_len),
        Some(Cut::Body(sel)) => head_len + pick32(*sel, body.len()),
        Some(Cut::Any(sel)) => pick32(*sel, s.len() + 1),
    };
    s.truncate(keep);
    Built { stream: s, head_len }
}

// ---------------------------------------------------------------------------
// oracle: what the stream S says (independent reader)
// ---------------------------------------------------------------------------
#[derive(Debug)]
struct Said {
    /// None: S has no complete head
    head: Option<SaidHead>,
}
#[derive(Debug)]
struct SaidHead {
    status: Option<u16>,
    headers: Vec<(String, String)>,
    rest: Vec<u8>,
    /// parseable Content-Length values in S
    cls: Vec<u64>,
    /// some Content-Length value was not a plain decimal number
    cl_unparseable: bool,
    /// the head consists of printable ASCII lines separated by CRLF only (no
    /// bare CR/LF, control or non-ASCII bytes): only then are its lines judged
    clean: bool,
}

fn trim_ows(s: &str) -> &str {
    s.trim_matches(|c| c == ' ' || c == '\t')
}

fn read_stream(s: &[u8]) -> Said {
    let Some(p) = s.windows(4).position(|w| w == b"\r\n\r\n") else {
        return Said { head: None };
    };
    let hb = &s[..p];
    let clean = (0..hb.len()).all(|i| match hb[i] {
        b'\r' => hb.get(i + 1) == Some(&b'\n'),
        b'\n' => i > 0 && hb[i - 1] == b'\r',
        b'\t' => true,
        c => (0x20..0x7f).contains(&c),
    });
    let head = String::from_utf8_lossy(hb).into_owned();
    let rest = s[p + 4..].to_vec();
    let mut lines = head.split("\r\n");
    let status_line = lines.next().unwrap_or("");
    // status-line = HTTP-version SP status-code SP reason-phrase
    let mut toks = status_line.split(' ').filter(|t| !t.is_empty());
    let version = toks.next().unwrap_or("");
    let code = toks.next().unwrap_or("");
    // a tab (or anything else odd) in the status line makes its tokenisation
    // ambiguous: then the status is not judged
    let plain = status_line.bytes().all(|b| (0x20..0x7f).contains(&b));
    let status = if plain && version.starts_with("HTTP/") && code.len() == 3 && code.bytes().all(|b| b.is_ascii_digit()) {
        code.parse::<u16>().ok()
    } else {
        None
    };
    let mut headers = vec![];
    let mut cls = vec![];
    let mut cl_unparseable = false;
    for l in lines {
        if let Some((k, v)) = l.split_once(':') {
            let (k, v) = (trim_ows(k).to_ascii_lowercase(), trim_ows(v).to_string());
            if k == "content-length" {
                if !v.is_empty() && v.bytes().all(|b| b.is_ascii_digit()) && v.len() <= 18 {
                    cls.push(v.parse::<u64>().unwrap());
                } else {
                    cl_unparseable = true;
                }
            }
            headers.push((k, v));
        }
    }
    Said { head: Some(SaidHead { status, headers, rest, cls, cl_unparseable, clean }) }
}

enum Outcome {
    Ok(HttpResponse),
    Err(String),
}

/// Judge a client outcome against the stream. `obs` gets labels.
fn judge(stream: &[u8], out: &Outcome, obs: &mut Obs) -> Verdict {
    let said = read_stream(stream);
    let r = match out {
        Outcome::Err(_) => {
            obs.label("client:Err");
            if let Some(h) = &said.head {
                let complete = h.clean && h.status.is_some() && !h.cl_unparseable && h.cls.iter().all(|c| *c == h.rest.len() as u64);
                if complete {
                    obs.label("well-formed complete response -> Err (not judged)");
                    if let Outcome::Err(e) = out {
                        obs.label(if e.contains("timed out") { "wf-err:timed out" } else { "wf-err:other" });
                    }
                }
            }
            return Verdict::Pass;
        }
        Outcome::Ok(r) => r,
    };
    obs.label("client:Ok");
    let show = |b: &[u8]| -> String {
        let cut = b.len().min(200);
        let mut s: String = b[..cut].iter().map(|c| std::ascii::escape_default(*c).to_string()).collect();
        if cut < b.len() {
            s.push_str(&format!("…(+{} bytes)", b.len() - cut));
        }
        s
    };
    let Some(h) = &said.head else {
        return Verdict::Fail(format!(
            "Ok(status {}, {} headers, {} body bytes) although the peer closed before the end of the headers; stream = {}",
            r.status,
            r.headers.len(),
            r.body.len(),
            show(stream)
        ));
    };
    if !h.clean {
        // bare CR/LF, control or non-ASCII bytes in the head: line structure is
        // ambiguous, nothing beyond "no panic, no hang" is judged
        obs.label("unclean head accepted (not judged)");
        return Verdict::Pass;
    }
    match h.status {
        None => {
            // no well-formed status line: the client may still find a number; not judged
            obs.label("odd status line accepted (not judged)");
        }
        Some(s) if s != r.status => {
            return Verdict::Fail(format!("Ok with status {} but the peer sent status {}; stream = {}", r.status, s, show(stream)));
        }
        _ => {}
    }
    // every header line of S is present (multiset inclusion)
    let mut have: Vec<(String, String)> = r.headers.iter().map(|(k, v)| (k.to_ascii_lowercase(), trim_ows(v).to_string())).collect();
    for (k, v) in &h.headers {
        match have.iter().position(|(hk, hv)| hk == k && hv == v) {
            Some(i) => {
                have.swap_remove(i);
            }
            None => {
                return Verdict::Fail(format!(
                    "Ok but header {:?}: {:?} sent by the peer is missing from the result {:?}; stream = {}",
                    k,
                    v,
                    r.headers,
                    show(stream)
                ))
            }
        }
    }
    // body
    let rest = &h.rest;
    // shortness is judged when every Content-Length line of S is a plain
    // number: fewer body bytes than EVERY declared value cannot be complete
    let judged_cl = !h.cls.is_empty() && !h.cl_unparseable;
    let min_cl = h.cls.iter().copied().min().unwrap_or(0);
    if judged_cl && (rest.len() as u64) < min_cl {
        let msg = format!(
            "Ok with a {}-byte body although the peer declared Content-Length {:?} and closed after {} body bytes; stream = {}",
            r.body.len(),
            h.cls,
            rest.len(),
            show(stream)
        );
        if r.body == *rest {
            obs.label("known:content-length-ignored");
            return Verdict::Known { id: KF_CL.into(), msg };
        }
        return Verdict::Fail(msg);
    }
    let body_ok = r.body == *rest || h.cls.iter().any(|c| (*c as usize) <= rest.len() && r.body == rest[..*c as usize]);
    if !body_ok {
        return Verdict::Fail(format!(
            "Ok with body {} but the peer sent body {} (Content-Length values {:?})",
            show(&r.body),
            show(rest),
            h.cls
        ));
    }
    Verdict::Pass
}

// ---------------------------------------------------------------------------
// generators
// ---------------------------------------------------------------------------
fn status_line() -> impl Strategy<Value = (String, Option<u16>)> {
    let code = prop_oneof![
        4 => Just(200u16),
        1 => Just(204u16),
        1 => Just(404u16),
        1 => Just(500u16),
        1 => Just(503u16),
        2 => 100u16..600,
        1 => Just(999u16),
    ];
    let reason = prop_oneof![
        3 => Just("OK".to_string()),
        1 => Just("".to_string()),
        1 => Just("Not Found".to_string()),
        // digits in the reason: a reader taking the wrong token finds another number
        2 => Just("Error 404 after 200".to_string()),
        1 => Just("503 Service Unavailable".to_string()),
        1 => "[A-Za-z0-9 ]{0,20}",
    ];
    let good = (prop_oneof![4 => Just("HTTP/1.1"), 1 => Just("HTTP/1.0")], code, reason).prop_map(|(v, c, r)| {
        let l = if r.is_empty() { format!("{} {}", v, c) } else { format!("{} {} {}", v, c, r) };
        (l, Some(c))
    });
    let bad = prop_oneof![
        Just("".to_string()),
        Just("HTTP/1.1".to_string()),
        Just("HTTP/1.1 OK".to_string()),
        Just("200 OK".to_string()),
        Just("HTTP/1.1 2OO OK".to_string()),
        Just("HTTP/1.1 abc 200".to_string()),
        Just("garbage".to_string()),
    ]
    .prop_map(|l| (l, None));
    prop_oneof![12 => good, 1 => bad]
}

fn header() -> impl Strategy<Value = (String, String)> {
    let name = prop_oneof![
        Just("Content-Type".to_string()),
        Just("X-QE-Rows".to_string()),
        Just("x-qe-elapsed-ms".to_string()),
        Just("Connection".to_string()),
        Just("X-Content-Length-Hint".to_string()),
        "[A-Za-z][A-Za-z0-9-]{0,10}",
    ];
    let value = prop_oneof![
        Just("application/json".to_string()),
        Just("close".to_string()),
        Just("42".to_string()),
        Just("a: b:c".to_string()),
        Just("".to_string()),
        "[!-~]([ -~]{0,14}[!-~])?",
    ];
    (name, value).prop_filter("not a content-length", |(n, _)| !n.eq_ignore_ascii_case("content-length") && !n.eq_ignore_ascii_case("transfer-encoding"))
}

fn body(tier: Tier) -> impl Strategy<Value = BodySpec> {
    let big = tier.pick(16 * 1024usize, 64 * 1024usize);
    prop_oneof![
        1 => Just(BodySpec::Bytes(vec![])),
        4 => prop::collection::vec(any::<u8>(), 1..40).prop_map(BodySpec::Bytes),
        2 => Just(BodySpec::Bytes(b"{\"status\":\"ok\",\"node_id\":3}".to_vec())),
        // a body that contains a blank line / something that looks like a head
        2 => Just(BodySpec::Bytes(b"a\r\n\r\nHTTP/1.1 500 X\r\nContent-Length: 0\r\n\r\nb".to_vec())),
        2 => (prop::collection::vec(any::<u8>(), 1..9), 1usize..big).prop_map(|(pat, n)| BodySpec::Repeat { n: (n / pat.len()).max(1), pat }),
    ]
}

fn response(tier: Tier) -> impl Strategy<Value = Response> {
    let cl = prop_oneof![
        3 => Just(ContentLength::Missing),
        8 => Just(ContentLength::Correct),
        2 => prop_oneof![1i64..5, 1i64..2000, -5i64..0, -2000i64..0].prop_map(ContentLength::Off),
        1 => (prop_oneof![Just(0i64), -3i64..4], prop_oneof![Just(0i64), -3i64..4]).prop_map(|(a, b)| ContentLength::Twice(a, b)),
        1 => prop_oneof![Just("abc".to_string()), Just("-1".to_string()), Just("1e3".to_string()), Just("".to_string()), Just("12 34".to_string()), Just("99999999999999999999999".to_string())]
            .prop_map(ContentLength::Text),
    ];
    (status_line(), prop::collection::vec(header(), 0..5), cl, any::<u8>(), body(tier)).prop_map(|((status_line, status), headers, content_length, cl_pos, body)| Response {
        status_line,
        status,
        headers,
        content_length,
        cl_pos,
        body,
    })
}

/// `known_class_weight`: weight of cuts inside the body (on a response with a
/// Content-Length that is the open finding's class)
fn delivery(stall_weight: u32) -> impl Strategy<Value = Delivery> {
    let cut = prop_oneof![
        6 => Just(None),
        4 => any::<u32>().prop_map(|s| Some(Cut::Head(s))),
        2 => any::<u32>().prop_map(|s| Some(Cut::Body(s))),
        1 => any::<u32>().prop_map(|s| Some(Cut::Any(s))),
    ];
    (
        cut,
        prop::collection::vec(prop_oneof![2 => 1usize..8, 2 => 8usize..200, 1 => 200usize..70_000], 1..5),
        prop_oneof![3 => Just(0u8), 1 => 1u8..3],
        prop::bool::weighted(stall_weight as f64 / 100.0),
    )
        .prop_map(|(cut, writes, gap_ms, stall)| Delivery { cut, writes, gap_ms, stall })
}

fn classify(resp: &Response, built: &Built, d: &Delivery, obs: &mut Obs) -> bool {
    let full_len = built.head_len + resp.body.bytes().len();
    let cut_in_head = built.stream.len() < built.head_len;
    let cut_in_body = !cut_in_head && built.stream.len() < full_len;
    let declares = !matches!(resp.content_length, ContentLength::Missing);
    if cut_in_head {
        obs.label("cut:head");
    } else if cut_in_body {
        obs.label(if declares { "cut:body,with-CL" } else { "cut:body,no-CL" });
    } else {
        obs.label("cut:none");
    }
    obs.label(match resp.content_length {
        ContentLength::Missing => "cl:missing",
        ContentLength::Correct => "cl:correct",
        ContentLength::Off(d) if d > 0 => "cl:too-big",
        ContentLength::Off(_) => "cl:too-small",
        ContentLength::Twice(..) => "cl:twice",
        ContentLength::Text(_) => "cl:text",
    });
    if d.stall {
        obs.label("stall");
    }
    let mismatch = matches!(resp.content_length, ContentLength::Off(_) | ContentLength::Twice(..) | ContentLength::Text(_));
    cut_in_head || cut_in_body || mismatch
}

// ---------------------------------------------------------------------------
// check 1: byte level (no socket)
// ---------------------------------------------------------------------------
#[derive(Clone, Debug, Serialize, Deserialize)]
pub struct ParseCase {
    pub resp: Response,
    pub cut: Option<Cut>,
    /// optional byte flips applied to the stream afterwards: (selector, new byte)
    pub noise: Vec<(u32, u8)>,
}
pub struct ParseBytes;
impl Check for ParseBytes {
    type Case = ParseCase;
    fn name(&self) -> &'static str {
        "parse_response"
    }
    fn rule(&self) -> &'static str {
        "the stream is cut (inside the head or the body), or its Content-Length disagrees with / does not describe the body, or bytes were overwritten"
    }
    fn cases(&self, tier: Tier) -> u32 {
        tier.pick(20_000, 2_000_000)
    }
    fn strategy(&self, tier: Tier) -> BoxedStrategy<ParseCase> {
        (
            response(tier),
            delivery(0).prop_map(|d| d.cut),
            prop_oneof![5 => Just(vec![]), 1 => prop::collection::vec((any::<u32>(), prop_oneof![Just(b'\r'), Just(b'\n'), Just(b':'), Just(b' '), any::<u8>()]), 1..4)],
        )
            .prop_map(|(resp, cut, noise)| ParseCase { resp, cut, noise })
            .boxed()
    }
    fn test(&self, c: &ParseCase, obs: &mut Obs) -> Verdict {
        let built = build(&c.resp, &c.cut);
        let d = Delivery { cut: c.cut.clone(), writes: vec![1], gap_ms: 0, stall: false };
        let mut nt = classify(&c.resp, &built, &d, obs);
        let mut stream = built.stream.clone();
        for (sel, b) in &c.noise {
            if !stream.is_empty() {
                let i = pick32(*sel, stream.len());
                stream[i] = *b;
                nt = true;
                obs.label("noise");
            }
        }
        obs.nontrivial(nt);
        let out = match std::panic::catch_unwind(|| verif_parse_response(&stream)) {
            Err(_) => return Verdict::Fail(format!("parse_response panicked on {:?}", String::from_utf8_lossy(&stream))),
            Ok(Ok(r)) => Outcome::Ok(r),
            Ok(Err(e)) => Outcome::Err(e.to_string()),
        };
        judge(&stream, &out, obs)
    }
}

// ---------------------------------------------------------------------------
// check 2: over a real socket
// ---------------------------------------------------------------------------
#[derive(Clone, Debug, Serialize, Deserialize)]
pub enum Call {
    Get,
    PostJson(Vec<u8>),
    Request { method: String, body: Option<Vec<u8>> },
}
#[derive(Clone, Debug, Serialize, Deserialize)]
pub struct SocketCase {
    pub resp: Response,
    pub delivery: Delivery,
    pub call: Call,
}

/// timeouts: a closing peer gets a long one (it must not fire); a stalling
/// peer a short one (it must fire, and promptly)
const CLOSE_TIMEOUT: Duration = Duration::from_secs(20);
const STALL_TIMEOUT: Duration = Duration::from_millis(150);
/// how long past its timeout the call may take before we call it a hang
/// (very generous: the machine may be heavily loaded)
const SLACK: Duration = Duration::from_secs(15);

pub struct OverSocket;
impl Check for OverSocket {
    type Case = SocketCase;
    fn name(&self) -> &'static str {
        "socket"
    }
    fn rule(&self) -> &'static str {
        "the stream is cut (inside the head or the body), or its Content-Length disagrees with / does not describe the body, or the peer stalls, or a complete response arrives in >= 3 writes"
    }
    fn cases(&self, tier: Tier) -> u32 {
        tier.pick(1500, 60_000)
    }
    fn workers(&self, _tier: Tier) -> usize {
        8
    }
    fn max_shrink_iters(&self) -> u32 {
        // a hanging client costs timeout + slack per evaluation
        24
    }
    fn strategy(&self, tier: Tier) -> BoxedStrategy<SocketCase> {
        let call = prop_oneof![
            4 => Just(Call::Get),
            2 => prop::collection::vec(any::<u8>(), 0..200).prop_map(Call::PostJson),
            1 => (prop_oneof![Just("PUT".to_string()), Just("DELETE".to_string()), Just("HEAD".to_string())], prop::option::of(prop::collection::vec(any::<u8>(), 0..5000)))
                .prop_map(|(method, body)| Call::Request { method, body }),
        ];
        (response(tier), delivery(12), call).prop_map(|(resp, delivery, call)| SocketCase { resp, delivery, call }).boxed()
    }
    fn test(&self, c: &SocketCase, obs: &mut Obs) -> Verdict {
        let built = build(&c.resp, &c.delivery.cut);
        let stream = built.stream.clone();
        let faulty = classify(&c.resp, &built, &c.delivery, obs);
        let nwrites = {
            let mut off = 0;
            let mut k = 0;
            while off < stream.len() {
                off += c.delivery.writes[k % c.delivery.writes.len()].max(1);
                k += 1;
            }
            k
        };
        obs.nontrivial(faulty || c.delivery.stall || nwrites >= 3);
        if nwrites >= 3 {
            obs.label("writes>=3");
        }

        let listener = match std::net::TcpListener::bind("127.0.0.1:0") {
            Ok(l) => l,
            Err(e) => return Verdict::Discard(format!("bind: {}", e)),
        };
        let addr = listener.local_addr().unwrap().to_string();
        listener.set_nonblocking(true).ok();
        let (done_tx, done_rx) = std::sync::mpsc::channel::<()>();
        let d = c.delivery.clone();
        let to_send = stream.clone();
        let server = std::thread::spawn(move || -> Result<(), String> {
            // accept (bounded wait so the thread can never leak)
            let t0 = Instant::now();
            let mut sock = loop {
                match listener.accept() {
                    Ok((s, _)) => break s,
                    Err(e) if e.kind() == std::io::ErrorKind::WouldBlock => {
                        if t0.elapsed() > Duration::from_secs(60) {
                            return Err("no connection".into());
                        }
                        std::thread::sleep(Duration::from_millis(1));
                    }
                    Err(e) => return Err(format!("accept: {}", e)),
                }
            };
            sock.set_nonblocking(false).ok();
            sock.set_nodelay(true).ok();
            sock.set_read_timeout(Some(Duration::from_secs(20))).ok();
            // read the whole request first (head, then Content-Length bytes), like a server does
            let mut req = vec![];
            let mut buf = [0u8; 4096];
            let head_end = loop {
                if let Some(p) = req.windows(4).position(|w| w == b"\r\n\r\n") {
                    break p + 4;
                }
                match sock.read(&mut buf) {
                    Ok(0) => return Err("client closed before sending a request".into()),
                    Ok(n) => req.extend_from_slice(&buf[..n]),
                    Err(e) => return Err(format!("read request: {}", e)),
                }
            };
            let head = String::from_utf8_lossy(&req[..head_end]).to_ascii_lowercase();
            let want: usize = head
                .lines()
                .find_map(|l| l.strip_prefix("content-length:").map(|v| v.trim().parse().unwrap_or(0)))
                .unwrap_or(0);
            while req.len() < head_end + want {
                match sock.read(&mut buf) {
                    Ok(0) => break,
                    Ok(n) => req.extend_from_slice(&buf[..n]),
                    Err(e) => return Err(format!("read request body: {}", e)),
                }
            }
            // send S in the generated write sizes
            let mut off = 0;
            let mut k = 0;
            while off < to_send.len() {
                let n = d.writes[k % d.writes.len()].max(1).min(to_send.len() - off);
                k += 1;
                if sock.write_all(&to_send[off..off + n]).is_err() {
                    break; // client went away (timeout): fine
                }
                let _ = sock.flush();
                off += n;
                if d.gap_ms > 0 && off < to_send.len() && k <= 16 {
                    std::thread::sleep(Duration::from_millis(d.gap_ms as u64));
                }
            }
            if d.stall {
                // hold the socket open until the client call has returned
                let _ = done_rx.recv_timeout(Duration::from_secs(120));
            }
            let _ = sock.shutdown(std::net::Shutdown::Write);
            // drain until the client closes, so that closing never turns into a reset
            sock.set_read_timeout(Some(Duration::from_millis(500))).ok();
            while let Ok(n) = sock.read(&mut buf) {
                if n == 0 {
                    break;
                }
            }
            Ok(())
        });

        let timeout = if c.delivery.stall { STALL_TIMEOUT } else { CLOSE_TIMEOUT };
        let call = c.call.clone();
        let addr2 = addr.clone();
        let t0 = Instant::now();
        let res = std::panic::catch_unwind(std::panic::AssertUnwindSafe(|| {
            crate::engine::block_on(async move {
                let fut = async {
                    match &call {
                        Call::Get => http_client::get(&addr2, "/healthz", timeout).await,
                        Call::PostJson(b) => http_client::post_json(&addr2, "/fragment", b, timeout).await,
                        Call::Request { method, body } => http_client::request(&addr2, method, "/x", Some("application/octet-stream"), body.as_deref(), timeout).await,
                    }
                };
                tokio::time::timeout(timeout + SLACK, fut).await
            })
        }));
        let elapsed = t0.elapsed();
        let _ = done_tx.send(());
        let server_result = server.join();
        let out = match res {
            Err(_) => return Verdict::Fail("the client call panicked".into()),
            Ok(Err(_)) => {
                return Verdict::Fail(format!(
                    "the client call did not return within its timeout {:?} + {:?} (peer {} after {} bytes)",
                    timeout,
                    SLACK,
                    if c.delivery.stall { "stalled" } else { "closed" },
                    stream.len()
                ))
            }
            Ok(Ok(Ok(r))) => Outcome::Ok(r),
            Ok(Ok(Err(e))) => Outcome::Err(e.to_string()),
        };
        match &server_result {
            Ok(Ok(())) => {}
            Ok(Err(e)) => {
                // scripted peer could not play its part: nothing was tested
                if matches!(out, Outcome::Err(_)) {
                    return Verdict::Discard(format!("scripted peer: {}", e));
                }
            }
            Err(_) => return Verdict::Discard("scripted peer panicked".into()),
        }
        if let Outcome::Err(e) = &out {
            if e.contains("timed out") {
                obs.label(if c.delivery.stall { "timeout(stall)" } else { "timeout(closing peer! slow machine?)" });
            }
        }
        if elapsed > timeout + Duration::from_secs(5) {
            obs.label("slow-return(>timeout+5s)");
        }
        judge(&stream, &out, obs)
    }
}

pub fn property() -> Property {
    Property {
        id: "C16",
        level: "exploration",
        assumptions: &[
            "the oracle is a function of the byte stream the peer actually sent before closing/stalling",
            "Err is always acceptable; Ok must carry the stream's status, every header line of the stream, and all body bytes (or exactly Content-Length of them when more were sent)",
            "a body shorter than the declared Content-Length is judged when every Content-Length line of the stream is a plain decimal number and the stream carries fewer body bytes than each of them",
            "a status line that is not `HTTP/x.y NNN …` is not judged beyond 'no panic' (the client may find a number in it)",
            "hang detection: the call must return within timeout + 15 s (150 ms timeout against a stalling peer)",
        ],
        checks: vec![Box::new(ParseBytes), Box::new(OverSocket)],
    }
}
