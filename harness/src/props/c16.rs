//! C16 — not implemented yet.
use super::Property;

pub fn property() -> Property {
    Property { id: "C16", level: "exploration", assumptions: &[], checks: vec![] }
}
