//! C39 — The TPC-H generator is deterministic and self-consistent.
//!
//! Code under test: `src/tpch/generator.rs` (`TpchGenerator::with_seed`,
//! `generate_all`, `generate_to_parquet`) and `src/tpch/schema.rs`
//! (`TpchRowCounts::for_scale_factor`).
//!
//! Input domain: scale factors 0.001..0.05 (below 0.0001 the supplier count
//! truncates to 0 and the generator divides by it — outside the quantifier) and
//! any u64 seed.
//!
//! Per (sf, seed) the check
//!  1. generates in memory twice sequentially and on 4 threads concurrently:
//!     all runs cell-identical (schema, row count, every buffer bit);
//!  2. generates to Parquet with the same seed and reads the files back with the
//!     parquet crate's own Arrow reader: identical to the in-memory tables;
//!  3. row counts = TPC-H ratio × sf within ±1 (the code truncates), nation 25,
//!     region 5;
//!  4. every single-column foreign key the generator produces from the parent's
//!     row count hits an existing parent key: l_orderkey→orders, l_partkey→part,
//!     l_suppkey→supplier, ps_partkey→part, ps_suppkey→supplier,
//!     s_nationkey→nation, c_nationkey→nation, n_regionkey→region.
//!     `o_custkey` is NOT asserted: generator.rs documents drawing it from 1.5×
//!     the customer range on purpose. The hit rate of o_custkey and of the
//!     composite (l_partkey,l_suppkey)→partsupp are measured into labels only.
use super::Property;
use crate::data::TempDir;
use crate::runner::*;
use arrow::array::*;
use arrow::record_batch::RecordBatch;
use proptest::prelude::*;
use query_engine::tpch::TpchGenerator;
use query_engine::ExecutionContext;
use serde::{Deserialize, Serialize};
use std::collections::{BTreeMap, HashSet};

const TABLES: [&str; 8] = ["nation", "region", "part", "supplier", "partsupp", "customer", "orders", "lineitem"];
/// TPC-H cardinalities at SF 1
const RATIO: [(&str, f64); 6] = [
    ("part", 200_000.0),
    ("supplier", 10_000.0),
    ("partsupp", 800_000.0),
    ("customer", 150_000.0),
    ("orders", 1_500_000.0),
    ("lineitem", 6_000_000.0),
];
/// (child table, child column, parent table, parent key column)
const FKS: [(&str, &str, &str, &str); 8] = [
    ("lineitem", "l_orderkey", "orders", "o_orderkey"),
    ("lineitem", "l_partkey", "part", "p_partkey"),
    ("lineitem", "l_suppkey", "supplier", "s_suppkey"),
    ("partsupp", "ps_partkey", "part", "p_partkey"),
    ("partsupp", "ps_suppkey", "supplier", "s_suppkey"),
    ("supplier", "s_nationkey", "nation", "n_nationkey"),
    ("customer", "c_nationkey", "nation", "n_nationkey"),
    ("nation", "n_regionkey", "region", "r_regionkey"),
];

#[derive(Clone, Debug, Serialize, Deserialize)]
pub struct GenCase {
    /// scale factor in units of 1e-4 (10 = 0.001, 500 = 0.05)
    pub sf_e4: u32,
    pub seed: u64,
}

type Tables = BTreeMap<String, RecordBatch>;

fn generate_mem(sf: f64, seed: u64) -> Result<Tables, String> {
    let mut ctx = ExecutionContext::new();
    let mut g = TpchGenerator::with_seed(sf, seed);
    g.generate_all(&mut ctx);
    let mut out = Tables::new();
    for t in TABLES {
        let p = ctx.table_provider(t).ok_or_else(|| format!("generate_all did not register table {}", t))?;
        let batches = p.scan(None).map_err(|e| format!("scan {}: {}", t, e))?;
        let schema = p.schema();
        let b = arrow::compute::concat_batches(&schema, &batches).map_err(|e| format!("concat {}: {}", t, e))?;
        out.insert(t.to_string(), b);
    }
    Ok(out)
}

fn read_parquet_dir(dir: &std::path::Path) -> Result<Tables, String> {
    use parquet::arrow::arrow_reader::ParquetRecordBatchReaderBuilder;
    let mut out = Tables::new();
    for t in TABLES {
        let path = dir.join(format!("{}.parquet", t));
        let f = std::fs::File::open(&path).map_err(|e| format!("{} not written: {}", path.display(), e))?;
        let rd = ParquetRecordBatchReaderBuilder::try_new(f)
            .map_err(|e| format!("{}: {}", path.display(), e))?
            .with_batch_size(8192)
            .build()
            .map_err(|e| format!("{}: {}", path.display(), e))?;
        let mut batches = vec![];
        let mut schema = None;
        for b in rd {
            let b = b.map_err(|e| format!("{}: {}", path.display(), e))?;
            schema.get_or_insert(b.schema());
            batches.push(b);
        }
        let schema = match schema {
            Some(s) => s,
            None => {
                // zero rows: take the schema from the file
                let f = std::fs::File::open(&path).map_err(|e| e.to_string())?;
                ParquetRecordBatchReaderBuilder::try_new(f).map_err(|e| e.to_string())?.schema().clone()
            }
        };
        let b = arrow::compute::concat_batches(&schema, &batches).map_err(|e| format!("concat {}: {}", t, e))?;
        out.insert(t.to_string(), b);
    }
    Ok(out)
}

/// first difference between two table sets, None when cell-identical
fn diff(a: &Tables, b: &Tables) -> Option<String> {
    for t in TABLES {
        let (x, y) = match (a.get(t), b.get(t)) {
            (Some(x), Some(y)) => (x, y),
            _ => return Some(format!("table {} missing on one side", t)),
        };
        if x.num_columns() != y.num_columns() {
            return Some(format!("{}: {} vs {} columns", t, x.num_columns(), y.num_columns()));
        }
        if x.num_rows() != y.num_rows() {
            return Some(format!("{}: {} vs {} rows", t, x.num_rows(), y.num_rows()));
        }
        for c in 0..x.num_columns() {
            let (fx, fy) = (x.schema().field(c).clone(), y.schema().field(c).clone());
            if fx.name() != fy.name() || fx.data_type() != fy.data_type() {
                return Some(format!("{}: column {} is {:?} vs {:?}", t, c, fx, fy));
            }
            let (cx, cy) = (x.column(c), y.column(c));
            if cx.to_data() != cy.to_data() {
                let fmt = |a: &ArrayRef, i: usize| {
                    arrow::util::display::array_value_to_string(a, i).unwrap_or_else(|_| "?".into())
                };
                for i in 0..x.num_rows() {
                    if cx.slice(i, 1).to_data() != cy.slice(i, 1).to_data() {
                        return Some(format!(
                            "{}.{} row {}: {} vs {}",
                            t,
                            fx.name(),
                            i,
                            fmt(cx, i),
                            fmt(cy, i)
                        ));
                    }
                }
                return Some(format!("{}.{}: buffers differ", t, fx.name()));
            }
        }
    }
    None
}

fn i64_col<'a>(t: &'a Tables, table: &str, col: &str) -> Result<&'a Int64Array, String> {
    let b = t.get(table).ok_or_else(|| format!("no table {}", table))?;
    let idx = b.schema().index_of(col).map_err(|_| format!("{} has no column {}", table, col))?;
    b.column(idx)
        .as_any()
        .downcast_ref::<Int64Array>()
        .ok_or_else(|| format!("{}.{} is not Int64", table, col))
}

pub struct Generator;
impl Check for Generator {
    type Case = GenCase;
    fn name(&self) -> &'static str {
        "generator"
    }
    fn rule(&self) -> &'static str {
        "every (scale factor, seed) pair (each is generated 2x sequentially, 4x concurrently and once to Parquet)"
    }
    fn cases(&self, tier: Tier) -> u32 {
        tier.pick(10, 300)
    }
    fn workers(&self, _tier: Tier) -> usize {
        // each case already runs 4 generator threads and holds several copies of the data
        6
    }
    fn max_shrink_iters(&self) -> u32 {
        12
    }
    fn exhaustive(&self, _t: Tier) -> Option<Box<dyn Iterator<Item = GenCase> + '_>> {
        // the documented default (seed 42) and the smallest scale factor of the quantifier
        Some(Box::new(vec![GenCase { sf_e4: 100, seed: 42 }, GenCase { sf_e4: 10, seed: 0 }].into_iter()))
    }
    fn strategy(&self, tier: Tier) -> BoxedStrategy<GenCase> {
        let sf = match tier {
            Tier::Quick => prop_oneof![3 => 10u32..60, 2 => 60u32..201].boxed(),
            Tier::Thorough => prop_oneof![3 => 10u32..60, 3 => 60u32..201, 1 => 201u32..501].boxed(),
        };
        (sf, prop_oneof![1 => 0u64..4, 1 => Just(42u64), 4 => any::<u64>()])
            .prop_map(|(sf_e4, seed)| GenCase { sf_e4, seed })
            .boxed()
    }
    fn test(&self, c: &GenCase, obs: &mut Obs) -> Verdict {
        if c.sf_e4 < 10 || c.sf_e4 > 500 {
            return Verdict::Discard("scale factor outside 0.001..0.05".into());
        }
        let sf = c.sf_e4 as f64 / 10_000.0;
        obs.nontrivial(true);
        obs.label(format!(
            "sf:{}",
            match c.sf_e4 {
                10..=59 => "0.001-0.006",
                60..=200 => "0.006-0.02",
                _ => "0.02-0.05",
            }
        ));
        // 1. sequential determinism
        let a = match generate_mem(sf, c.seed) {
            Ok(t) => t,
            Err(e) => return Verdict::Fail(e),
        };
        match generate_mem(sf, c.seed) {
            Ok(b) => {
                if let Some(d) = diff(&a, &b) {
                    return Verdict::Fail(format!("two sequential runs with sf={} seed={} differ: {}", sf, c.seed, d));
                }
            }
            Err(e) => return Verdict::Fail(e),
        }
        // 2. concurrent determinism
        let results: Vec<Result<Tables, String>> = std::thread::scope(|s| {
            let hs: Vec<_> = (0..4).map(|_| s.spawn(|| generate_mem(sf, c.seed))).collect();
            hs.into_iter()
                .map(|h| h.join().unwrap_or_else(|p| Err(format!("generator thread panicked: {}", crate::engine::panic_text(p)))))
                .collect()
        });
        for (i, r) in results.into_iter().enumerate() {
            match r {
                Ok(b) => {
                    if let Some(d) = diff(&a, &b) {
                        return Verdict::Fail(format!(
                            "concurrent run {} with sf={} seed={} differs from the sequential run: {}",
                            i, sf, c.seed, d
                        ));
                    }
                }
                Err(e) => return Verdict::Fail(e),
            }
        }
        // 3. Parquet read-back
        {
            let dir = TempDir::new("c39");
            let mut g = TpchGenerator::with_seed(sf, c.seed);
            if let Err(e) = g.generate_to_parquet(dir.path()) {
                return Verdict::Fail(format!("generate_to_parquet failed: {}", e));
            }
            match read_parquet_dir(dir.path()) {
                Ok(p) => {
                    if let Some(d) = diff(&a, &p) {
                        return Verdict::Fail(format!(
                            "Parquet files read back differ from the in-memory tables (sf={} seed={}): {}",
                            sf, c.seed, d
                        ));
                    }
                }
                Err(e) => return Verdict::Fail(e),
            }
        }
        // 4. row counts
        for (t, n) in [("nation", 25usize), ("region", 5)] {
            if a[t].num_rows() != n {
                return Verdict::Fail(format!("{} has {} rows, TPC-H fixes {}", t, a[t].num_rows(), n));
            }
        }
        for (t, ratio) in RATIO {
            let want = ratio * sf;
            let got = a[t].num_rows() as f64;
            if (got - want).abs() > 1.0 {
                return Verdict::Fail(format!("{} has {} rows at sf={}, the TPC-H ratio gives {}", t, got, sf, want));
            }
        }
        // 5. foreign keys
        for (ct, cc, pt, pc) in FKS {
            let parent: HashSet<i64> = match i64_col(&a, pt, pc) {
                Ok(p) => {
                    if p.null_count() > 0 {
                        return Verdict::Fail(format!("{}.{} contains NULL keys", pt, pc));
                    }
                    p.values().iter().copied().collect()
                }
                Err(e) => return Verdict::Fail(e),
            };
            let child = match i64_col(&a, ct, cc) {
                Ok(x) => x,
                Err(e) => return Verdict::Fail(e),
            };
            for i in 0..child.len() {
                if child.is_null(i) || !parent.contains(&child.value(i)) {
                    return Verdict::Fail(format!(
                        "{}.{} row {} = {} refers to no row of {} ({} keys {}..{}) at sf={} seed={}",
                        ct,
                        cc,
                        i,
                        if child.is_null(i) { "NULL".to_string() } else { child.value(i).to_string() },
                        pt,
                        parent.len(),
                        parent.iter().min().copied().unwrap_or(0),
                        parent.iter().max().copied().unwrap_or(0),
                        sf,
                        c.seed
                    ));
                }
            }
        }
        // measured, not asserted
        if let (Ok(ck), Ok(ok)) = (i64_col(&a, "customer", "c_custkey"), i64_col(&a, "orders", "o_custkey")) {
            let set: HashSet<i64> = ck.values().iter().copied().collect();
            let hit = ok.values().iter().filter(|k| set.contains(k)).count();
            obs.label(format!("measured:o_custkey-hit-rate~{}%", (hit * 10 / ok.len().max(1)) * 10));
        }
        if let (Ok(pp), Ok(ps), Ok(lp), Ok(ls)) = (
            i64_col(&a, "partsupp", "ps_partkey"),
            i64_col(&a, "partsupp", "ps_suppkey"),
            i64_col(&a, "lineitem", "l_partkey"),
            i64_col(&a, "lineitem", "l_suppkey"),
        ) {
            let set: HashSet<(i64, i64)> = pp.values().iter().copied().zip(ps.values().iter().copied()).collect();
            let hit = lp.values().iter().zip(ls.values().iter()).filter(|(p, s)| set.contains(&(**p, **s))).count();
            obs.label(format!(
                "measured:(l_partkey,l_suppkey)-in-partsupp~{}%",
                (hit * 10 / lp.len().max(1)) * 10
            ));
            if set.len() < pp.len() {
                obs.label("measured:partsupp-has-duplicate-(partkey,suppkey)");
            }
        }
        // does the seed matter at all? (recorded only)
        if let Ok(b) = generate_mem(sf, c.seed.wrapping_add(1)) {
            obs.label(if diff(&a, &b).is_some() { "seed-sensitive" } else { "seed-insensitive" });
        }
        obs.sample(serde_json::json!({"sf": sf, "seed": c.seed, "lineitem_rows": a["lineitem"].num_rows()}));
        Verdict::Pass
    }
}

pub fn property() -> Property {
    Property {
        id: "C39",
        level: "exploration",
        assumptions: &[
            "scale factors 0.001..0.05 in steps of 0.0001 (quick: up to 0.02)",
            "row counts follow the ratio within +-1 (the code truncates ratio*sf computed in f64)",
            "o_custkey is excluded from the foreign-key assertion: generator.rs documents drawing it from 1.5x the customer range; the composite (l_partkey,l_suppkey)->partsupp key is only measured",
            "'across threads' = 4 generator instances running concurrently in one process, compared with a sequential run",
        ],
        checks: vec![Box::new(Generator)],
    }
}
