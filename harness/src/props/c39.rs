//! C39 — not implemented yet.
use super::Property;

pub fn property() -> Property {
    Property { id: "C39", level: "exploration", assumptions: &[], checks: vec![] }
}
