//! C36 helpers: independent reference implementations (Rust std only, no
//! chrono, no engine code) used by `c36.rs`.
use crate::data::Value;

// ---------------------------------------------------------------------------
// expectation language
// ---------------------------------------------------------------------------

/// What the documents settle for one argument tuple.
pub enum Exp {
    /// exactly this value (numbers compare numerically, Int vs Double allowed)
    V(Value),
    /// this floating value within the spec's relative tolerance
    A(f64),
    /// a validity predicate (used where several results are acceptable)
    P(Box<dyn Fn(&Value) -> Result<(), String> + Send + Sync>),
    /// no document settles the value for this tuple: only path agreement
    /// (column == literal == re-sliced) is demanded
    Undoc,
}

pub fn vs(s: impl Into<String>) -> Exp {
    Exp::V(Value::Str(s.into()))
}
pub fn vi(i: i64) -> Exp {
    Exp::V(Value::Int(i))
}
pub fn vb(b: bool) -> Exp {
    Exp::V(Value::Bool(b))
}
pub fn vd(d: f64) -> Exp {
    Exp::V(Value::Double(d))
}
pub fn vdate(d: i32) -> Exp {
    Exp::V(Value::Date(d))
}

pub fn s(v: &Value) -> &str {
    match v {
        Value::Str(s) => s.as_str(),
        o => panic!("c36: expected Str, got {:?}", o),
    }
}
pub fn i(v: &Value) -> i64 {
    match v {
        Value::Int(i) => *i,
        o => panic!("c36: expected Int, got {:?}", o),
    }
}
pub fn f(v: &Value) -> f64 {
    match v {
        Value::Double(d) => *d,
        Value::Int(i) => *i as f64,
        o => panic!("c36: expected Double, got {:?}", o),
    }
}
pub fn d(v: &Value) -> i32 {
    match v {
        Value::Date(d) => *d,
        o => panic!("c36: expected Date, got {:?}", o),
    }
}
pub fn b(v: &Value) -> bool {
    match v {
        Value::Bool(b) => *b,
        o => panic!("c36: expected Bool, got {:?}", o),
    }
}

// ---------------------------------------------------------------------------
// numbers
// ---------------------------------------------------------------------------

const EXACT: f64 = 4503599627370496.0; // 2^52: above it every f64 is an integer

/// truncation toward zero without f64::trunc
pub fn trunc(x: f64) -> f64 {
    if !x.is_finite() || x.abs() >= EXACT {
        x
    } else {
        (x as i64) as f64
    }
}
pub fn ceil(x: f64) -> f64 {
    let t = trunc(x);
    if x > t {
        t + 1.0
    } else {
        t
    }
}
pub fn floor(x: f64) -> f64 {
    let t = trunc(x);
    if x < t {
        t - 1.0
    } else {
        t
    }
}
/// round half away from zero (tests: ROUND(2.5)=3, ROUND(-0.5)=-1, ROUND(-1.5)=-2)
pub fn round_half_away(x: f64) -> f64 {
    let t = trunc(x);
    let diff = x - t; // exact below 2^52
    if diff >= 0.5 {
        t + 1.0
    } else if diff <= -0.5 {
        t - 1.0
    } else {
        t
    }
}

/// ROUND(x, d): "x rounded to d decimal places". The decimal tie of a binary
/// double is not settled by any document (2.675 is below the tie exactly but
/// x*100 is 267.5 in binary arithmetic), so the oracle is a validity
/// predicate: r*10^d is an integer n (within 1e-9), |n - x*10^d| <= 0.5, and
/// away from ties n is the unique nearest integer.
pub fn round_places_pred(x: f64, places: i64) -> Exp {
    Exp::P(Box::new(move |got: &Value| {
        let r = match got {
            Value::Double(r) => *r,
            Value::Int(i) => *i as f64,
            o => return Err(format!("expected a number, got {:?}", o)),
        };
        if !x.is_finite() {
            return if (r.is_nan() && x.is_nan()) || r == x { Ok(()) } else { Err(format!("ROUND of {:?} gave {:?}", x, r)) };
        }
        let p = 10f64.powi(places as i32);
        let scaled = x * p;
        let rs = r * p;
        let n = round_half_away(rs);
        let slack = 1e-9 * scaled.abs().max(1.0);
        if (rs - n).abs() > slack {
            return Err(format!("result {:?} is not a multiple of 10^-{}", r, places));
        }
        if (n - scaled).abs() > 0.5 + slack {
            return Err(format!("result {:?} is further than half a unit (10^-{}) from {:?}", r, places, x));
        }
        let frac = (scaled - trunc(scaled)).abs();
        if (frac - 0.5).abs() > 1e-6 && n != round_half_away(scaled) {
            return Err(format!("result {:?} is not the nearest multiple of 10^-{} to {:?}", r, places, x));
        }
        Ok(())
    }))
}

// ---------------------------------------------------------------------------
// strings
// ---------------------------------------------------------------------------

pub fn chars(s: &str) -> Vec<char> {
    s.chars().collect()
}
pub fn char_len(s: &str) -> i64 {
    s.chars().count() as i64
}
pub fn is_ascii_str(s: &str) -> bool {
    s.is_ascii()
}

/// 1-based code-point position of the first occurrence, 0 when absent
pub fn char_pos(hay: &str, needle: &str) -> i64 {
    let h = chars(hay);
    let n = chars(needle);
    if n.is_empty() {
        return 1;
    }
    if n.len() > h.len() {
        return 0;
    }
    for st in 0..=(h.len() - n.len()) {
        if h[st..st + n.len()] == n[..] {
            return st as i64 + 1;
        }
    }
    0
}
/// 1-based byte position (the known byte-offset defect's value)
pub fn byte_pos(hay: &str, needle: &str) -> i64 {
    let h = hay.as_bytes();
    let n = needle.as_bytes();
    if n.is_empty() {
        return 1;
    }
    if n.len() > h.len() {
        return 0;
    }
    for st in 0..=(h.len() - n.len()) {
        if &h[st..st + n.len()] == n {
            return st as i64 + 1;
        }
    }
    0
}

/// non-overlapping literal replacement, left to right (from non-empty)
pub fn replace_lit(hay: &str, from: &str, to: &str) -> String {
    let h = chars(hay);
    let fr = chars(from);
    let mut out = String::new();
    let mut k = 0;
    while k < h.len() {
        if k + fr.len() <= h.len() && h[k..k + fr.len()] == fr[..] {
            out.push_str(to);
            k += fr.len();
        } else {
            out.push(h[k]);
            k += 1;
        }
    }
    out
}
pub fn count_lit(hay: &str, pat: &str) -> i64 {
    let h = chars(hay);
    let p = chars(pat);
    let mut n = 0;
    let mut k = 0;
    while k + p.len() <= h.len() {
        if h[k..k + p.len()] == p[..] {
            n += 1;
            k += p.len();
        } else {
            k += 1;
        }
    }
    n
}
pub fn split_lit(hay: &str, delim: &str) -> Vec<String> {
    let h = chars(hay);
    let dl = chars(delim);
    let mut parts = vec![];
    let mut cur = String::new();
    let mut k = 0;
    while k < h.len() {
        if k + dl.len() <= h.len() && h[k..k + dl.len()] == dl[..] {
            parts.push(std::mem::take(&mut cur));
            k += dl.len();
        } else {
            cur.push(h[k]);
            k += 1;
        }
    }
    parts.push(cur);
    parts
}

pub fn levenshtein(a: &str, b: &str) -> i64 {
    let a = chars(a);
    let b = chars(b);
    let mut prev: Vec<usize> = (0..=b.len()).collect();
    for x in 1..=a.len() {
        let mut cur = vec![x; b.len() + 1];
        for y in 1..=b.len() {
            let sub = prev[y - 1] + if a[x - 1] == b[y - 1] { 0 } else { 1 };
            cur[y] = sub.min(prev[y] + 1).min(cur[y - 1] + 1);
        }
        prev = cur;
    }
    prev[b.len()] as i64
}

/// true when std's case mapping of every char is 1:1 and context free
pub fn simple_case(s: &str) -> bool {
    s.chars().all(|c| c.to_uppercase().count() == 1 && c.to_lowercase().count() == 1 && c != 'Σ' && c != 'ς')
}
pub fn upper(s: &str) -> String {
    s.chars()
        .map(|c| if c.is_ascii_lowercase() { ((c as u8) - 32) as char } else { c.to_uppercase().next().unwrap() })
        .collect()
}
pub fn lower(s: &str) -> String {
    s.chars()
        .map(|c| if c.is_ascii_uppercase() { ((c as u8) + 32) as char } else { c.to_lowercase().next().unwrap() })
        .collect()
}

pub fn hex(bytes: &[u8]) -> String {
    let mut s = String::new();
    for b in bytes {
        s.push_str(&format!("{:02x}", b));
    }
    s
}

pub fn base64(bytes: &[u8]) -> String {
    const T: &[u8; 64] = b"ABCDEFGHIJKLMNOPQRSTUVWXYZabcdefghijklmnopqrstuvwxyz0123456789+/";
    let mut out = String::new();
    for ch in bytes.chunks(3) {
        let n = (ch[0] as u32) << 16 | (*ch.get(1).unwrap_or(&0) as u32) << 8 | *ch.get(2).unwrap_or(&0) as u32;
        out.push(T[(n >> 18) as usize & 63] as char);
        out.push(T[(n >> 12) as usize & 63] as char);
        out.push(if ch.len() > 1 { T[(n >> 6) as usize & 63] as char } else { '=' });
        out.push(if ch.len() > 2 { T[n as usize & 63] as char } else { '=' });
    }
    out
}

/// CRC-32 (IEEE 802.3, reflected, init/xorout 0xFFFFFFFF), bitwise
pub fn crc32(bytes: &[u8]) -> u32 {
    let mut c: u32 = 0xFFFF_FFFF;
    for b in bytes {
        c ^= *b as u32;
        for _ in 0..8 {
            c = if c & 1 != 0 { (c >> 1) ^ 0xEDB8_8320 } else { c >> 1 };
        }
    }
    !c
}

pub fn percent_decode(s: &str) -> Option<Vec<u8>> {
    let b = s.as_bytes();
    let mut out = vec![];
    let mut k = 0;
    while k < b.len() {
        if b[k] == b'%' {
            if k + 2 >= b.len() {
                return None;
            }
            let h = std::str::from_utf8(&b[k + 1..k + 3]).ok()?;
            out.push(u8::from_str_radix(h, 16).ok()?);
            k += 3;
        } else {
            out.push(b[k]);
            k += 1;
        }
    }
    Some(out)
}

// ---------------------------------------------------------------------------
// civil calendar (proleptic Gregorian), days since 1970-01-01
// ---------------------------------------------------------------------------

pub fn is_leap(y: i64) -> bool {
    (y % 4 == 0 && y % 100 != 0) || y % 400 == 0
}
pub fn days_in_month(y: i64, m: i64) -> i64 {
    match m {
        1 | 3 | 5 | 7 | 8 | 10 | 12 => 31,
        4 | 6 | 9 | 11 => 30,
        _ => {
            if is_leap(y) {
                29
            } else {
                28
            }
        }
    }
}
/// days since epoch of y-m-d, by counting (slow but obviously right) from a
/// 400-year anchor
pub fn days_from_civil(y: i64, m: i64, dd: i64) -> i64 {
    // days before year y since 1970
    let mut days = 0i64;
    if y >= 1970 {
        for yy in 1970..y {
            days += if is_leap(yy) { 366 } else { 365 };
        }
    } else {
        for yy in y..1970 {
            days -= if is_leap(yy) { 366 } else { 365 };
        }
    }
    for mm in 1..m {
        days += days_in_month(y, mm);
    }
    days + dd - 1
}
pub fn civil_from_days(days: i64) -> (i64, i64, i64) {
    let mut y = 1970i64;
    let mut rest = days;
    while rest < 0 {
        y -= 1;
        rest += if is_leap(y) { 366 } else { 365 };
    }
    loop {
        let yl = if is_leap(y) { 366 } else { 365 };
        if rest >= yl {
            rest -= yl;
            y += 1;
        } else {
            break;
        }
    }
    let mut m = 1;
    loop {
        let ml = days_in_month(y, m);
        if rest >= ml {
            rest -= ml;
            m += 1;
        } else {
            break;
        }
    }
    (y, m, rest + 1)
}
pub fn day_of_year(days: i64) -> i64 {
    let (y, _, _) = civil_from_days(days);
    days - days_from_civil(y, 1, 1) + 1
}
/// ISO weekday 1 = Monday .. 7 = Sunday (1970-01-01 was a Thursday)
pub fn iso_weekday(days: i64) -> i64 {
    (days + 3).rem_euclid(7) + 1
}
/// (ISO week-numbering year, ISO week)
pub fn iso_week(days: i64) -> (i64, i64) {
    // the Thursday of this week decides the year
    let thursday = days - (iso_weekday(days) - 1) + 3;
    let (y, _, _) = civil_from_days(thursday);
    let jan1 = days_from_civil(y, 1, 1);
    (y, (thursday - jan1) / 7 + 1)
}
/// add months with end-of-month clamping
pub fn add_months(days: i64, months: i64) -> i64 {
    let (y, m, dd) = civil_from_days(days);
    let total = y * 12 + (m - 1) + months;
    let ny = total.div_euclid(12);
    let nm = total.rem_euclid(12) + 1;
    let nd = dd.min(days_in_month(ny, nm));
    days_from_civil(ny, nm, nd)
}
/// whole months elapsed from a to b (sign follows direction), the reading in
/// which DATE_DIFF('month', 01-31, 02-01) = 0
pub fn full_months_between(a: i64, b: i64) -> i64 {
    if a <= b {
        let (y1, m1, _) = civil_from_days(a);
        let (y2, m2, _) = civil_from_days(b);
        let mut n = (y2 * 12 + m2) - (y1 * 12 + m1);
        while n > 0 && add_months(a, n) > b {
            n -= 1;
        }
        n
    } else {
        -full_months_between(b, a)
    }
}
pub fn calendar_months_between(a: i64, b: i64) -> i64 {
    let (y1, m1, _) = civil_from_days(a);
    let (y2, m2, _) = civil_from_days(b);
    (y2 * 12 + m2) - (y1 * 12 + m1)
}
