//! C14 — Nodes that disagree about the data refuse to answer.
//!
//! Code under test: `coordinator::execute_fragment` (digest interlock) and the shard-index range
//! check of `coordinator::shard_context`.
//!
//! Generator: an initiator copy of a real Parquet table and a worker copy in another directory
//! that is byte-identical (control) or differs in one respect: a file renamed, the same rows
//! written with another row-group size, one row more / fewer, the same rows with the dictionary
//! toggled or one value widened (only `total_byte_size` moves), a file with rows missing; plus
//! protocol faults on identical copies: a digest that is not the initiator's, a shard index
//! outside 0..shard_count.
//!
//! Oracle: the expected outcome is derived from the harness's own footer reads — the
//! split-relevant inventory is the list of (file name, row-group index, rows, total_byte_size)
//! over non-empty row groups. Equal inventories + the initiator's digest + index in range =>
//! every fragment must run and the union of the fragments' rows over all shard indices must be
//! exactly the worker's table; different inventories, a foreign digest or an index out of range
//! => `execute_fragment` must return Err (for every shard index).
use super::c13::make_table;
use super::Property;
use crate::data::{canon_sort, fmt_rows, multiset_eq, pick_idx, ParquetLayout, Rows, Table, TempDir, Value};
use crate::engine::block_on;
use crate::runner::*;
use proptest::prelude::*;
use query_engine::distributed::coordinator::{execute_fragment, splits_of, FragmentRequest};
use query_engine::ExecutionContext;
use serde::{Deserialize, Serialize};
use std::path::Path;

#[derive(Clone, Debug, Serialize, Deserialize, PartialEq)]
pub enum Variant {
    Identical,
    Renamed { file: u16 },
    RowGroupSize(usize),
    RowAdded,
    RowDropped,
    DictionaryToggled,
    ValueWidened { row: u16, extra: u8 },
    FileDropped { file: u16 },
    /// identical copies, but the request carries digest ^ xor (xor != 0)
    ForeignDigest { xor: u64 },
    /// identical copies, shard_index = shard_count + over
    IndexOutOfRange { over: usize },
}

#[derive(Clone, Debug, Serialize, Deserialize)]
pub struct FragCase {
    pub rows: usize,
    pub seed: u32,
    pub layout: ParquetLayout,
    pub shard_count: usize,
    pub variant: Variant,
    pub aggregate_sql: bool,
}

type Inventory = Vec<(String, usize, i64, i64)>;

/// split-relevant inventory from the harness's own footer reads
fn inventory(dir: &Path) -> Inventory {
    use parquet::file::reader::{FileReader, SerializedFileReader};
    let mut files: Vec<_> = std::fs::read_dir(dir).unwrap().map(|e| e.unwrap().path()).collect();
    files.sort();
    let mut out = vec![];
    for f in files {
        let r = SerializedFileReader::new(std::fs::File::open(&f).unwrap()).unwrap();
        let name = f.file_name().unwrap().to_string_lossy().into_owned();
        for (i, g) in r.metadata().row_groups().iter().enumerate() {
            if g.num_rows() > 0 {
                out.push((name.clone(), i, g.num_rows(), g.total_byte_size()));
            }
        }
    }
    out.sort();
    out
}

fn describe_difference(a: &Inventory, b: &Inventory) -> String {
    let names = |v: &Inventory| {
        let mut n: Vec<String> = v.iter().map(|x| x.0.clone()).collect();
        n.dedup();
        n
    };
    let rows = |v: &Inventory| v.iter().map(|x| x.2).sum::<i64>();
    let layout = |v: &Inventory| v.iter().map(|x| (x.0.clone(), x.1, x.2)).collect::<Vec<_>>();
    let mut d = vec![];
    if names(a) != names(b) {
        d.push("file_names");
    }
    if rows(a) != rows(b) {
        d.push("row_count");
    }
    if rows(a) == rows(b) && names(a) == names(b) && layout(a) != layout(b) {
        d.push("row_group_layout");
    }
    if layout(a) == layout(b) && a != b {
        d.push("byte_sizes_only");
    }
    d.join("+")
}

fn case_strategy(tier: Tier) -> BoxedStrategy<FragCase> {
    let max_rows = tier.pick(80usize, 300usize);
    let variant = prop_oneof![
        3 => Just(Variant::Identical),
        2 => any::<u16>().prop_map(|file| Variant::Renamed { file }),
        2 => prop_oneof![Just(1usize), Just(2), Just(3), Just(5), Just(8), Just(13), Just(40), Just(1000)].prop_map(Variant::RowGroupSize),
        2 => Just(Variant::RowAdded),
        2 => Just(Variant::RowDropped),
        2 => Just(Variant::DictionaryToggled),
        2 => (any::<u16>(), 1u8..40).prop_map(|(row, extra)| Variant::ValueWidened { row, extra }),
        1 => any::<u16>().prop_map(|file| Variant::FileDropped { file }),
        2 => prop_oneof![Just(1u64), Just(1u64 << 63), 1u64..=u64::MAX].prop_map(|xor| Variant::ForeignDigest { xor }),
        2 => prop_oneof![3 => Just(0usize), 1 => 1usize..10, 1 => Just(usize::MAX / 2)].prop_map(|over| Variant::IndexOutOfRange { over }),
    ];
    (
        prop_oneof![1 => 0usize..4, 9 => 4usize..=max_rows],
        any::<u32>(),
        proptest::collection::vec(0usize..=max_rows, 0..=3),
        prop_oneof![Just(1usize), Just(2), Just(3), Just(5), Just(8), Just(13), Just(40), Just(1000)],
        prop_oneof![3 => Just(1u8), 1 => Just(0u8), 1 => Just(2u8)],
        any::<bool>(),
        1usize..=8,
        variant,
        any::<bool>(),
    )
        .prop_map(|(rows, seed, file_cuts, row_group_size, stats, dictionary, shard_count, variant, aggregate_sql)| FragCase {
            rows,
            seed,
            layout: ParquetLayout { file_cuts, row_group_size, stats, dictionary },
            shard_count,
            variant,
            aggregate_sql,
        })
        .boxed()
}

fn ctx_over(dir: &Path) -> Result<ExecutionContext, String> {
    let mut ctx = ExecutionContext::new();
    ctx.register_parquet("t", dir).map_err(|e| e.to_string())?;
    Ok(ctx)
}

pub struct Interlock;
impl Check for Interlock {
    type Case = FragCase;
    fn name(&self) -> &'static str {
        "fragment_interlock"
    }
    fn rule(&self) -> &'static str {
        "the worker copy differs from the initiator's in a split-relevant attribute (checked on the footers), or the request carries a foreign digest / an out-of-range shard index; identical-copy controls with >=2 shards and >=1 row also count"
    }
    fn cases(&self, tier: Tier) -> u32 {
        tier.pick(1500, 15_000)
    }
    fn strategy(&self, tier: Tier) -> BoxedStrategy<FragCase> {
        case_strategy(tier)
    }
    fn test(&self, c: &FragCase, obs: &mut Obs) -> Verdict {
        if c.shard_count == 0 || c.shard_count > 64 {
            return Verdict::Discard("shard_count outside 1..64".into());
        }
        let tmp = TempDir::new("c14");
        let init_dir = tmp.path().join("initiator").join("t");
        let work_dir = tmp.path().join("worker").join("mnt").join("t");
        let table = make_table(c.rows, c.seed);
        crate::data::write_parquet(&table, &init_dir, &c.layout);

        // ---- the worker's copy
        let mut wtable: Table = table.clone();
        let mut wlayout = c.layout.clone();
        let mut label = "identical";
        match &c.variant {
            Variant::Identical => {}
            Variant::ForeignDigest { .. } => label = "foreign_digest",
            Variant::IndexOutOfRange { .. } => label = "index_out_of_range",
            Variant::Renamed { .. } => label = "renamed",
            Variant::FileDropped { .. } => label = "file_dropped",
            Variant::RowGroupSize(n) => {
                label = "row_group_size";
                wlayout.row_group_size = if *n == c.layout.row_group_size { *n + 1 } else { *n };
            }
            Variant::RowAdded => {
                label = "row_added";
                let i = wtable.rows.len();
                wtable.rows.push(vec![Value::Int(i as i64), Value::Int(0), Value::Null, Value::Str("x".into())]);
            }
            Variant::RowDropped => {
                label = "row_dropped";
                wtable.rows.pop();
            }
            Variant::DictionaryToggled => {
                label = "dictionary_toggled";
                wlayout.dictionary = !wlayout.dictionary;
            }
            Variant::ValueWidened { row, extra } => {
                label = "value_widened";
                if !wtable.rows.is_empty() {
                    let i = pick_idx(*row, wtable.rows.len());
                    let old = match &wtable.rows[i][3] {
                        Value::Str(s) => s.clone(),
                        _ => String::new(),
                    };
                    wtable.rows[i][3] = Value::Str(format!("{}{}", old, "w".repeat(*extra as usize)));
                }
            }
        }
        let wfiles = crate::data::write_parquet(&wtable, &work_dir, &wlayout);
        match &c.variant {
            Variant::Renamed { file } => {
                // prefer a file that holds rows (renaming an empty file changes nothing a split sees)
                let with_rows: Vec<&std::path::PathBuf> = wfiles.iter().filter(|f| super::c13::read_row_groups(f).iter().any(|n| *n > 0)).collect();
                let pool: Vec<&std::path::PathBuf> = if with_rows.is_empty() { wfiles.iter().collect() } else { with_rows };
                let f = pool[pick_idx(*file, pool.len())];
                let to = f.with_file_name(format!("renamed-{}", f.file_name().unwrap().to_string_lossy()));
                std::fs::rename(f, to).unwrap();
            }
            Variant::FileDropped { file } => {
                if wfiles.len() >= 2 {
                    let with_rows: Vec<&std::path::PathBuf> = wfiles.iter().filter(|f| super::c13::read_row_groups(f).iter().any(|n| *n > 0)).collect();
                    let pool: Vec<&std::path::PathBuf> = if with_rows.is_empty() { wfiles.iter().collect() } else { with_rows };
                    std::fs::remove_file(pool[pick_idx(*file, pool.len())]).unwrap();
                }
            }
            _ => {}
        }
        obs.label(format!("variant:{}", label));

        // ---- what the footers say (own reader)
        let inv_i = inventory(&init_dir);
        let inv_w = inventory(&work_dir);
        let copies_differ = inv_i != inv_w;
        let wants_difference = !matches!(c.variant, Variant::Identical | Variant::ForeignDigest { .. } | Variant::IndexOutOfRange { .. });
        if wants_difference {
            if !copies_differ {
                // e.g. dictionary toggle that did not move total_byte_size, dropped an empty file
                return Verdict::Discard(format!("variant {} left the split-relevant footer content unchanged", label));
            }
            obs.label(format!("differs_in:{}", describe_difference(&inv_i, &inv_w)));
        } else if copies_differ {
            return Verdict::Fail(format!("harness error: two writes of the same table differ: {:?} vs {:?}", inv_i, inv_w));
        }

        let init = match ctx_over(&init_dir) {
            Ok(c) => c,
            Err(e) => return Verdict::Fail(format!("initiator cannot register its table: {}", e)),
        };
        let worker = match ctx_over(&work_dir) {
            Ok(c) => c,
            Err(e) => return Verdict::Fail(format!("worker cannot register its table: {}", e)),
        };
        let digest = match splits_of(&init, "t", c.shard_count) {
            Ok(s) => s.digest(),
            Err(e) => return Verdict::Fail(format!("initiator cannot enumerate its splits: {}", e)),
        };
        let sql = if c.aggregate_sql { "SELECT COUNT(*), SUM(id) FROM t".to_string() } else { "SELECT id, k, a, s FROM t".to_string() };
        let run = |shard_index: usize, splits_digest: u64| -> Result<(Rows, i64), String> {
            let req = FragmentRequest { sql: sql.clone(), table: "t".into(), shard_index, shard_count: c.shard_count, splits_digest };
            let r = std::panic::catch_unwind(std::panic::AssertUnwindSafe(|| block_on(execute_fragment(&worker, &req))));
            match r {
                Ok(Ok((q, stats))) => Ok((crate::data::batches_to_rows(&q.batches), stats.rows)),
                Ok(Err(e)) => Err(e.to_string()),
                Err(p) => Err(format!("PANIC: {}", crate::engine::panic_text(p))),
            }
        };
        obs.sample(serde_json::json!({
            "rows": c.rows, "row_group_size": c.layout.row_group_size, "shard_count": c.shard_count, "variant": label,
            "initiator_splits_relevant_row_groups": inv_i.len(), "worker_row_groups": inv_w.len(),
        }));

        match &c.variant {
            Variant::IndexOutOfRange { over } => {
                obs.nontrivial(true);
                let idx = c.shard_count.saturating_add(*over);
                match run(idx, digest) {
                    Err(e) if e.starts_with("PANIC") => Verdict::Fail(format!("shard index {} of {}: {}", idx, c.shard_count, e)),
                    Err(_) => Verdict::Pass,
                    Ok((rows, _)) => Verdict::Fail(format!(
                        "shard index {} is outside 0..{} but the fragment ran and returned {} rows: {}",
                        idx,
                        c.shard_count,
                        rows.len(),
                        fmt_rows(&rows, 5)
                    )),
                }
            }
            Variant::ForeignDigest { xor } => {
                if *xor == 0 {
                    return Verdict::Discard("xor = 0 is the initiator's digest".into());
                }
                obs.nontrivial(true);
                for idx in 0..c.shard_count {
                    if let Ok((rows, _)) = run(idx, digest ^ xor) {
                        return Verdict::Fail(format!(
                            "request carries digest {:#x}, the table's is {:#x}, yet shard {} of {} ran and returned {} rows",
                            digest ^ xor,
                            digest,
                            idx,
                            c.shard_count,
                            rows.len()
                        ));
                    }
                }
                Verdict::Pass
            }
            Variant::Identical => {
                obs.nontrivial(c.shard_count >= 2 && c.rows >= 1);
                // every fragment must run; together they are the table, once
                let mut union: Rows = vec![];
                let (mut cnt, mut sum, mut stat_rows) = (0i64, 0i64, 0i64);
                for idx in 0..c.shard_count {
                    match run(idx, digest) {
                        Err(e) => {
                            return Verdict::Fail(format!(
                                "identical copy in another directory, yet shard {} of {} refused: {}",
                                idx, c.shard_count, e
                            ))
                        }
                        Ok((rows, srows)) => {
                            stat_rows += srows;
                            if c.aggregate_sql {
                                match rows.first().map(|r| (r[0].clone(), r[1].clone())) {
                                    Some((Value::Int(n), Value::Int(s))) => {
                                        cnt += n;
                                        sum += s;
                                    }
                                    Some((Value::Int(n), Value::Null)) => cnt += n,
                                    other => return Verdict::Fail(format!("aggregate fragment returned {:?}", other)),
                                }
                            } else {
                                union.extend(rows);
                            }
                        }
                    }
                }
                if stat_rows != c.rows as i64 {
                    return Verdict::Fail(format!("shards report {} assigned rows in total, the table has {}", stat_rows, c.rows));
                }
                if c.aggregate_sql {
                    let want_sum: i64 = (0..c.rows as i64).sum();
                    if cnt != c.rows as i64 || sum != want_sum {
                        return Verdict::Fail(format!(
                            "fragments add up to COUNT={} SUM(id)={}, the table has COUNT={} SUM(id)={}",
                            cnt, sum, c.rows, want_sum
                        ));
                    }
                } else if !multiset_eq(&union, &table.rows, 0.0) {
                    let (mut got, mut want) = (union.clone(), table.rows.clone());
                    canon_sort(&mut got);
                    canon_sort(&mut want);
                    return Verdict::Fail(format!(
                        "union of the {} fragments != table ({} vs {} rows)\n got: {}\nwant: {}",
                        c.shard_count,
                        got.len(),
                        want.len(),
                        fmt_rows(&got, 30),
                        fmt_rows(&want, 30)
                    ));
                }
                Verdict::Pass
            }
            _ => {
                obs.nontrivial(true);
                for idx in 0..c.shard_count {
                    if let Ok((rows, _)) = run(idx, digest) {
                        return Verdict::Fail(format!(
                            "worker copy differs from the initiator's in {} ({}), yet shard {} of {} ran and returned {} rows.\ninitiator footers: {:?}\n   worker footers: {:?}",
                            describe_difference(&inv_i, &inv_w),
                            label,
                            idx,
                            c.shard_count,
                            rows.len(),
                            &inv_i[..inv_i.len().min(12)],
                            &inv_w[..inv_w.len().min(12)]
                        ));
                    }
                }
                Verdict::Pass
            }
        }
    }
}

pub fn property() -> Property {
    Property {
        id: "C14",
        level: "exploration",
        assumptions: &[
            "split-relevant content = (file name, row-group index, rows, total_byte_size) of every non-empty row group, read by the harness with parquet's SerializedFileReader; a variant that leaves it unchanged is discarded",
            "the initiator's digest is obtained the way the coordinator obtains it (splits_of(initiator ctx).digest())",
            "any Err (not a panic for the range check) counts as refusal; the error text is not inspected",
        ],
        checks: vec![Box::new(Interlock)],
    }
}
