//! C14 — not implemented yet.
use super::Property;

pub fn property() -> Property {
    Property { id: "C14", level: "exploration", assumptions: &[], checks: vec![] }
}
