//! C28, second check: *shadowing templates*. The general CTE generator reaches
//! "an inner WITH redefines an outer name and the outer definition is
//! referenced AFTER the inner scope closed" only rarely (a seeded change that
//! leaked the inner scope's materialisation key was missed by it), so this
//! check builds exactly those shapes, with every ordering of the shadowing
//! scope and the outer reference:
//!
//!   WITH c AS (A) SELECT … FROM (WITH c AS (B) SELECT … FROM c) d, c o
//!   WITH c AS (A) SELECT … FROM c o, (WITH c AS (B) SELECT … FROM c) d
//!   WITH c AS (A), e AS (WITH c AS (B) SELECT … FROM c) SELECT … FROM e, c
//!   WITH c AS (A) SELECT … FROM c WHERE x IN (WITH c AS (B) SELECT … FROM c) …
//!   … UNION ALL branches, a second reference to the outer `c`, three levels.
//!
//! A and B are different filters / projections of the generated tables, so the
//! two definitions have different rows. Oracle: refsql (lexical scoping).
use crate::data::*;
use crate::kf_sql::classify_sql;
use crate::runner::*;
use crate::sqlast::*;
use crate::sqlcheck::judge;
use crate::sqlgen::*;
use proptest::prelude::*;

fn tbl(name: &str, alias: &str) -> From {
    From::Table { name: name.to_string(), alias: Some(alias.to_string()) }
}

/// `SELECT <col> AS v FROM <t> AS s WHERE <col> <op> <k>` — one-column definition
fn def(t: &Tape2, table: &Table, which: usize) -> Query {
    let ci = table.cols.iter().position(|c| c.ty == ColType::Int).unwrap_or(0);
    let col = Expr::qcol("s", &table.cols[ci].name);
    let (op, k) = [(BinOp::Le, 1), (BinOp::Ge, 2), (BinOp::Ne, 0), (BinOp::Eq, 3), (BinOp::Lt, 4)][(t.seed as usize + which * 2) % 5];
    let w = if table.cols[ci].ty == ColType::Int { Some(Expr::bin(col.clone(), op, Expr::int(k))) } else { None };
    Query::select(Select::simple(vec![Item::Expr(col, Some("v".into()))], vec![tbl(&table.name, "s")], w))
}

struct Tape2 {
    seed: u64,
}

pub fn build(tables: Vec<Table>, shape: u8, seed: u64, cuts: Vec<Vec<usize>>) -> SqlCase {
    let t = Tape2 { seed };
    let t0 = &tables[0];
    let t1 = tables.get(1).unwrap_or(&tables[0]);
    let a = def(&t, t0, 0); // outer definition of c
    let b = def(&t, t1, 1); // inner (shadowing) definition of c
    let cte = |name: &str, q: Query| Cte { name: name.into(), cols: None, q };
    let sel_v = |rel: &str, alias: &str| Item::Expr(Expr::qcol(rel, "v"), Some(alias.to_string()));
    // the shadowing scope as a query: WITH c AS (B) SELECT x.v AS v FROM c AS x
    let inner = {
        let mut q = Query::select(Select::simple(vec![sel_v("x", "v")], vec![tbl("c", "x")], None));
        q.with = vec![cte("c", b.clone())];
        q
    };
    let derived = From::Derived { q: Box::new(inner.clone()), alias: "d".into(), cols: None };
    let mut features = vec!["cte".to_string(), "shadowing".to_string()];
    let q = match shape % 8 {
        // derived (shadowing) first, outer reference second
        0 => {
            features.push("shadow_then_outer_ref".into());
            let mut q = Query::select(Select::simple(vec![sel_v("d", "dv"), sel_v("o", "ov")], vec![derived, tbl("c", "o")], None));
            q.with = vec![cte("c", a)];
            q
        }
        // outer reference first
        1 => {
            features.push("outer_ref_then_shadow".into());
            let mut q = Query::select(Select::simple(vec![sel_v("d", "dv"), sel_v("o", "ov")], vec![tbl("c", "o"), derived], None));
            q.with = vec![cte("c", a)];
            q
        }
        // shadowing inside an earlier CTE body, outer referenced in the main query
        2 => {
            features.push("shadow_in_cte_body".into());
            let mut q = Query::select(Select::simple(vec![sel_v("e1", "ev"), sel_v("o", "ov")], vec![tbl("e", "e1"), tbl("c", "o")], None));
            q.with = vec![cte("c", a), cte("e", inner)];
            q
        }
        // shadowing inside an IN subquery, outer referenced in FROM
        3 => {
            features.push("shadow_in_subquery".into());
            let w = Expr::InSub { e: Box::new(Expr::qcol("o", "v")), q: Box::new(inner), neg: false };
            let mut q = Query::select(Select::simple(vec![sel_v("o", "ov")], vec![tbl("c", "o")], Some(w)));
            q.with = vec![cte("c", a)];
            q
        }
        // UNION ALL: shadowing branch first, then a branch over the outer c
        4 => {
            features.push("shadow_branch_then_outer_branch".into());
            let left = SetExpr::Nested(Box::new(inner));
            let right = SetExpr::Select(Box::new(Select::simple(vec![sel_v("o", "v")], vec![tbl("c", "o")], None)));
            let mut q = Query::of(SetExpr::Op { op: SetOp::Union, all: true, l: Box::new(left), r: Box::new(right) });
            q.with = vec![cte("c", a)];
            q
        }
        // shadow, then TWO references to the outer c (materialised sharing)
        5 => {
            features.push("shadow_then_two_outer_refs".into());
            let on = Expr::eq(Expr::qcol("o1", "v"), Expr::qcol("o2", "v"));
            let j = From::Join { l: Box::new(tbl("c", "o1")), r: Box::new(tbl("c", "o2")), kind: JoinKind::Inner, on: Some(on) };
            let mut q = Query::select(Select::simple(vec![sel_v("d", "dv"), sel_v("o1", "ov")], vec![derived, j], None));
            q.with = vec![cte("c", a)];
            q
        }
        // three levels: the middle scope shadows, the innermost shadows again
        6 => {
            features.push("three_level_shadowing".into());
            let innermost = {
                let mut q = Query::select(Select::simple(vec![sel_v("y", "v")], vec![tbl("c", "y")], None));
                q.with = vec![cte("c", def(&t, t0, 2))];
                q
            };
            let middle = {
                let d2 = From::Derived { q: Box::new(innermost), alias: "m".into(), cols: None };
                let mut q = Query::select(Select::simple(vec![sel_v("m", "mv"), sel_v("x", "xv")], vec![d2, tbl("c", "x")], None));
                q.with = vec![cte("c", b.clone())];
                q
            };
            let d1 = From::Derived { q: Box::new(middle), alias: "d".into(), cols: None };
            let mut q = Query::select(
                Select::simple(vec![Item::Expr(Expr::qcol("d", "mv"), Some("mv".into())), Item::Expr(Expr::qcol("d", "xv"), Some("xv".into())), sel_v("o", "ov")], vec![d1, tbl("c", "o")], None),
            );
            q.with = vec![cte("c", a)];
            q
        }
        // aggregate over the outer c after a shadowing derived table
        _ => {
            features.push("shadow_then_outer_aggregate".into());
            let mut q = Query::select(Select::simple(
                vec![Item::Expr(Expr::count_star(), Some("n".into())), Item::Expr(Expr::agg(AggF::Max, Expr::qcol("o", "v")), Some("mx".into())), Item::Expr(Expr::agg(AggF::Min, Expr::qcol("d", "v")), Some("mn".into()))],
                vec![derived, tbl("c", "o")],
                None,
            ));
            q.with = vec![cte("c", a)];
            q
        }
    };
    SqlCase { tables, query: q, cuts, features }
}

pub fn strategy(tier: Tier) -> BoxedStrategy<SqlCase> {
    let mut tp = TableProfile::default();
    tp.min_tables = 2;
    tp.max_tables = 2;
    tp.max_rows = tier.pick(6, 14);
    tp.max_cols = 2;
    tp.types = vec![ColType::Int];
    tp.null_pcts = vec![0, 0, 25];
    let max_rows = tp.max_rows;
    (tables_strategy(tp), any::<u8>(), any::<u64>(), proptest::collection::vec(proptest::collection::vec(0..=max_rows, 0..3), 2))
        .prop_map(|(tables, shape, seed, cuts)| build(tables, shape, seed, cuts))
        .boxed()
}

pub struct ShadowTemplates;
impl Check for ShadowTemplates {
    type Case = SqlCase;
    fn name(&self) -> &'static str {
        "cte_shadow_templates"
    }
    fn rule(&self) -> &'static str {
        "the engine answered and the inner and outer definitions of the shadowed name have different rows (the reference answer changes when the inner definition is replaced by the outer one)"
    }
    fn cases(&self, tier: Tier) -> u32 {
        tier.pick(1200, 40_000)
    }
    fn strategy(&self, tier: Tier) -> BoxedStrategy<SqlCase> {
        strategy(tier)
    }
    fn test(&self, c: &SqlCase, obs: &mut Obs) -> Verdict {
        let out = judge(c, obs, 1e-9, classify_sql);
        // non-trivial: definitions really differ — compare the two one-column definitions
        let differ = {
            let db = crate::refsql::Db::new(&c.tables);
            let q0 = c.query.with.first().map(|w| w.q.clone());
            match q0 {
                Some(q0) => {
                    let a = db.run(&q0).map(|r| r.rows).unwrap_or_default();
                    // any other definition of `c` anywhere in the text differs if the statement text contains two different bodies
                    let txt = c.query.sql();
                    let bodies: Vec<&str> = txt.match_indices("c AS (").map(|(i, _)| &txt[i..(i + 60).min(txt.len())]).collect();
                    bodies.windows(2).any(|w| w[0] != w[1]) && !a.is_empty()
                }
                None => false,
            }
        };
        obs.nontrivial(out.engine_rows.is_some() && differ);
        out.verdict
    }
}
