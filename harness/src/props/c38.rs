//! C38 — not implemented yet.
use super::Property;

pub fn property() -> Property {
    Property { id: "C38", level: "exploration", assumptions: &[], checks: vec![] }
}
