//! C38 — Vector distance functions compute their formulas.
//!
//! Code under test: `src/physical/vector.rs` (`distance_column`,
//! `distance_columns`) directly, and the same kernels through SQL
//! (`SELECT id, l2_distance(v, [..]) FROM t`, literal on either side, and the
//! column/column form) via `physical/operators/filter.rs::evaluate_vector_distance`.
//!
//! Documented formulas (module doc of vector.rs):
//!   l2_distance = sqrt(sum((a-b)^2)), cosine_similarity = dot/(|a||b|),
//!   cosine_distance = 1 - cosine_similarity, dot_product = sum(a*b).
//!
//! Input domain: `FixedSizeList<Float32, d>` columns, d in 1..=1024, NULL rows,
//! sliced. The kernels multiply and accumulate in f32 (8 lanes) before widening,
//! so components are generated as exactly 0 or with 1e-15 <= |x| <= 1e15: inside
//! that range no f32 product over/underflows and the stated tolerance is sound.
//!
//! Oracle: formulas evaluated in f64 on the generated f32 values with the
//! tolerance `4·d·eps_f32·(sum of |terms|) + 1e-6` propagated through sqrt /
//! the cosine quotient (see `reference`). NULL row => NULL; slice of the column
//! => exactly the slice of the full result; dimension mismatch => Err.
//! Zero-norm cosine: the formula is 0/0; vector.rs documents no convention in
//! words (the code returns similarity 0), so only "finite, and distance =
//! 1 - similarity" is asserted and the observed value is labelled.
use super::Property;
use crate::engine::{panic_text, run_sql_full};
use crate::runner::*;
use arrow::array::*;
use arrow::buffer::{NullBuffer, ScalarBuffer};
use arrow::datatypes::{DataType, Field, Schema};
use arrow::record_batch::RecordBatch;
use proptest::prelude::*;
use query_engine::physical::vector::{distance_column, distance_columns, DistanceKind};
use query_engine::ExecutionContext;
use serde::{Deserialize, Deserializer, Serialize, Serializer};
use std::sync::Arc;

/// f32 that survives JSON exactly (shortest `{:?}` text, parsed back as f32).
#[derive(Clone, Copy, Debug)]
pub struct F(pub f32);
impl Serialize for F {
    fn serialize<S: Serializer>(&self, s: S) -> Result<S::Ok, S::Error> {
        s.serialize_str(&format!("{:?}", self.0))
    }
}
impl<'de> Deserialize<'de> for F {
    fn deserialize<D: Deserializer<'de>>(d: D) -> Result<F, D::Error> {
        let s = String::deserialize(d)?;
        s.parse::<f32>().map(F).map_err(serde::de::Error::custom)
    }
}

#[derive(Clone, Copy, Debug, PartialEq, Eq, Serialize, Deserialize)]
pub enum Kind {
    L2,
    CosDist,
    CosSim,
    Dot,
}
impl Kind {
    fn engine(self) -> DistanceKind {
        match self {
            Kind::L2 => DistanceKind::L2,
            Kind::CosDist => DistanceKind::Cosine,
            Kind::CosSim => DistanceKind::CosineSimilarity,
            Kind::Dot => DistanceKind::Dot,
        }
    }
    fn sql(self) -> &'static str {
        match self {
            Kind::L2 => "l2_distance",
            Kind::CosDist => "cosine_distance",
            Kind::CosSim => "cosine_similarity",
            Kind::Dot => "dot_product",
        }
    }
}

#[derive(Clone, Debug, Serialize, Deserialize)]
pub struct VRow {
    pub valid: bool,
    /// physical components (present also under a NULL row)
    pub v: Vec<F>,
}

#[derive(Clone, Debug, Serialize, Deserialize)]
pub struct VecCol {
    pub dim: usize,
    pub rows: Vec<VRow>,
}
impl VecCol {
    fn well_formed(&self) -> bool {
        self.dim >= 1 && self.rows.iter().all(|r| r.v.len() == self.dim)
    }
    fn in_domain(&self) -> bool {
        self.rows.iter().all(|r| r.v.iter().all(|x| ok_component(x.0)))
    }
    fn build(&self) -> ArrayRef {
        let mut flat: Vec<f32> = Vec::with_capacity(self.rows.len() * self.dim);
        for r in &self.rows {
            flat.extend(r.v.iter().map(|x| x.0));
        }
        let child = Float32Array::new(ScalarBuffer::from(flat), None);
        let nulls = if self.rows.iter().all(|r| r.valid) {
            None
        } else {
            Some(NullBuffer::from(self.rows.iter().map(|r| r.valid).collect::<Vec<bool>>()))
        };
        Arc::new(
            FixedSizeListArray::try_new(
                Arc::new(Field::new("item", DataType::Float32, true)),
                self.dim as i32,
                Arc::new(child),
                nulls,
            )
            .expect("fixed size list"),
        )
    }
    fn row(&self, i: usize) -> Vec<f32> {
        self.rows[i].v.iter().map(|x| x.0).collect()
    }
}

fn ok_component(x: f32) -> bool {
    x == 0.0 || (x.is_finite() && x.abs() >= 1e-15 && x.abs() <= 1e15)
}

/// reference value, tolerance, and whether the cosine denominator is zero
struct Ref {
    value: f64,
    tol: f64,
    zero_norm: bool,
}

fn reference(kind: Kind, a: &[f32], b: &[f32]) -> Ref {
    let d = a.len() as f64;
    let eps = f32::EPSILON as f64;
    let k = 4.0 * d * eps;
    let mut dot = 0f64;
    let mut abs_dot = 0f64;
    let mut na = 0f64;
    let mut nb = 0f64;
    let mut s = 0f64;
    for (x, y) in a.iter().zip(b) {
        let (x, y) = (*x as f64, *y as f64);
        dot += x * y;
        abs_dot += (x * y).abs();
        na += x * x;
        nb += y * y;
        s += (x - y) * (x - y);
    }
    match kind {
        Kind::Dot => Ref { value: dot, tol: k * abs_dot + 1e-6, zero_norm: false },
        // |sqrt(S') - sqrt(S)| <= |S'-S| / sqrt(S) with |S'-S| <= k*S
        Kind::L2 => Ref { value: s.sqrt(), tol: k * s.sqrt() + 1e-6, zero_norm: false },
        Kind::CosSim | Kind::CosDist => {
            let denom = na.sqrt() * nb.sqrt();
            if denom == 0.0 {
                return Ref { value: f64::NAN, tol: 0.0, zero_norm: true };
            }
            let sim = dot / denom;
            // dot error k*abs_dot, each norm relative error <= k, quotient => 3 relative terms
            let tol = k * abs_dot / denom + 3.0 * k * sim.abs() + 1e-6;
            let value = if kind == Kind::CosSim { sim } else { 1.0 - sim };
            Ref { value, tol, zero_norm: false }
        }
    }
}

fn f64_result(a: &ArrayRef) -> Result<Vec<Option<f64>>, String> {
    let x = a
        .as_any()
        .downcast_ref::<Float64Array>()
        .ok_or_else(|| format!("result is {:?}, expected Float64", a.data_type()))?;
    Ok((0..x.len()).map(|i| if x.is_null(i) { None } else { Some(x.value(i)) }).collect())
}

fn same_bits(a: &Option<f64>, b: &Option<f64>) -> bool {
    match (a, b) {
        (None, None) => true,
        (Some(x), Some(y)) => x.to_bits() == y.to_bits() || (x.is_nan() && y.is_nan()),
        _ => false,
    }
}

fn short(v: &[f32]) -> String {
    if v.len() <= 12 {
        format!("{:?}", v)
    } else {
        format!("{:?}… ({} dims, tail {:?})", &v[..6], v.len(), &v[v.len() - 3..])
    }
}

/// Compare one kernel output row with the reference. `zn` collects the observed
/// zero-norm convention.
fn judge_row(kind: Kind, a: &[f32], b: &[f32], got: Option<f64>, what: &str, obs: &mut Obs) -> Result<(), String> {
    let g = match got {
        None => return Err(format!("{}: NULL result for two non-NULL vectors a={} b={}", what, short(a), short(b))),
        Some(g) => g,
    };
    let r = reference(kind, a, b);
    if r.zero_norm {
        let l = format!("zero-norm:{:?}={:?}", kind, g);
        if !obs.labels.contains(&l) {
            obs.label(l);
        }
        if !g.is_finite() {
            return Err(format!("{}: {:?} with a zero-norm vector returned {:?} (a={} b={})", what, kind, g, short(a), short(b)));
        }
        return Ok(());
    }
    if !((g - r.value).abs() <= r.tol) {
        return Err(format!(
            "{}: {:?}(a,b) = {:?} but the formula gives {:?} (|diff| {:e} > tolerance {:e}); a={} b={}",
            what,
            kind,
            g,
            r.value,
            (g - r.value).abs(),
            r.tol,
            short(a),
            short(b)
        ));
    }
    Ok(())
}

// ---------------------------------------------------------------------------
// generators
// ---------------------------------------------------------------------------

fn clamp_dom(x: f32) -> f32 {
    if ok_component(x) {
        x
    } else if !x.is_finite() || x.abs() > 1e15 {
        1e15f32.copysign(x)
    } else {
        0.0
    }
}

fn component() -> BoxedStrategy<f32> {
    prop_oneof![
        2 => Just(0.0f32),
        4 => (-192i32..193).prop_map(|k| k as f32 / 64.0),
        3 => (-1.0f32..1.0),
        2 => (-1000.0f32..1000.0),
        1 => (any::<bool>(), -45i32..46, 1.0f32..2.0).prop_map(|(neg, e, m)| {
            let v = m * 2f32.powi(e);
            if neg { -v } else { v }
        }),
    ]
    .prop_map(clamp_dom)
    .boxed()
}

/// exactly representable in f32, f64 and short decimal text: k/64
fn dyadic() -> BoxedStrategy<f32> {
    prop_oneof![2 => Just(0.0f32), 6 => (-192i32..193).prop_map(|k| k as f32 / 64.0), 1 => (-65536i32..65537).prop_map(|k| k as f32 / 64.0)]
        .boxed()
}

#[derive(Clone, Debug)]
enum RowGen {
    Free(Vec<f32>),
    Zero,
    SameAsQ,
    NegQ,
    /// q scaled by 2^e
    ScaledQ(i32),
    /// zero except the last component
    SpikeLast(f32),
    /// zero except one picked component
    SpikeAt(u16, f32),
}

fn row_gen(dim: usize, comp: fn() -> BoxedStrategy<f32>) -> BoxedStrategy<RowGen> {
    prop_oneof![
        12 => proptest::collection::vec(comp(), dim).prop_map(RowGen::Free),
        1 => Just(RowGen::Zero),
        1 => Just(RowGen::SameAsQ),
        1 => Just(RowGen::NegQ),
        1 => (-3i32..4).prop_map(RowGen::ScaledQ),
        1 => comp().prop_map(RowGen::SpikeLast),
        1 => (any::<u16>(), comp()).prop_map(|(i, x)| RowGen::SpikeAt(i, x)),
    ]
    .boxed()
}

fn materialize(g: &RowGen, q: &[f32]) -> Vec<f32> {
    let d = q.len();
    match g {
        RowGen::Free(v) => v.clone(),
        RowGen::Zero => vec![0.0; d],
        RowGen::SameAsQ => q.to_vec(),
        RowGen::NegQ => q.iter().map(|x| -x).collect(),
        RowGen::ScaledQ(e) => q.iter().map(|x| clamp_dom(x * 2f32.powi(*e))).collect(),
        RowGen::SpikeLast(x) => {
            let mut v = vec![0.0; d];
            v[d - 1] = if *x == 0.0 { 1.0 } else { *x };
            v
        }
        RowGen::SpikeAt(i, x) => {
            let mut v = vec![0.0; d];
            v[crate::data::pick_idx(*i, d)] = if *x == 0.0 { 1.0 } else { *x };
            v
        }
    }
}

fn dim_strategy(tier: Tier) -> BoxedStrategy<usize> {
    let big: BoxedStrategy<usize> = match tier {
        Tier::Quick => prop_oneof![Just(383usize), Just(384), Just(385), Just(1023), Just(1024)].boxed(),
        Tier::Thorough => prop_oneof![3 => prop_oneof![Just(383usize), Just(384), Just(385), Just(1023), Just(1024)], 2 => 301usize..1025].boxed(),
    };
    prop_oneof![
        4 => 1usize..10,
        4 => prop_oneof![Just(7usize), Just(8), Just(9), Just(15), Just(16), Just(17), Just(23), Just(24), Just(25), Just(33)],
        2 => 10usize..65,
        1 => 65usize..301,
        1 => big,
    ]
    .boxed()
}

/// rows per column given the per-case float budget
fn rows_strategy(dim: usize, budget: usize) -> BoxedStrategy<usize> {
    let max = (budget / dim).clamp(1, 300);
    prop_oneof![1 => Just(0usize), 2 => Just(1usize), 8 => 0..=max].boxed()
}

/// (query vector, column whose rows may be related to the query)
fn col_and_query(dim: usize, n: usize, comp: fn() -> BoxedStrategy<f32>) -> BoxedStrategy<(Vec<f32>, VecCol)> {
    (
        prop_oneof![10 => proptest::collection::vec(comp(), dim), 1 => Just(vec![0.0f32; dim])],
        proptest::collection::vec((row_gen(dim, comp), prop_oneof![5 => Just(true), 1 => Just(false)]), n),
    )
        .prop_map(move |(q, rows)| {
            let rows = rows
                .into_iter()
                .map(|(g, valid)| VRow { valid, v: materialize(&g, &q).into_iter().map(F).collect() })
                .collect();
            (q, VecCol { dim, rows })
        })
        .boxed()
}

// ---------------------------------------------------------------------------
// check 1: kernels directly
// ---------------------------------------------------------------------------

#[derive(Clone, Debug, Serialize, Deserialize)]
pub enum Query {
    /// literal query vector (its length may differ from the column's dimension: mismatch case)
    Lit(Vec<F>),
    /// second column (+ its own slice offset); rows beyond are padding
    Col { col: VecCol, off: usize },
}

#[derive(Clone, Debug, Serialize, Deserialize)]
pub struct KernelCase {
    pub kind: Kind,
    pub col: VecCol,
    /// slice window of `col`
    pub off: usize,
    pub len: usize,
    pub q: Query,
}

pub struct Kernels;
impl Check for Kernels {
    type Case = KernelCase;
    fn name(&self) -> &'static str {
        "kernels"
    }
    fn rule(&self) -> &'static str {
        "equal dimensions, >=1 non-NULL row in the window, and (dimension not a multiple of 8, or a NULL row inside a properly sliced window)"
    }
    fn cases(&self, tier: Tier) -> u32 {
        tier.pick(3000, 100_000)
    }
    fn strategy(&self, tier: Tier) -> BoxedStrategy<KernelCase> {
        let budget = tier.pick(4096usize, 16384);
        let kind = prop_oneof![Just(Kind::L2), Just(Kind::CosDist), Just(Kind::CosSim), Just(Kind::Dot)];
        (kind, dim_strategy(tier))
            .prop_flat_map(move |(kind, dim)| (Just(kind), Just(dim), rows_strategy(dim, budget)))
            .prop_flat_map(move |(kind, dim, n)| {
                (
                    Just(kind),
                    col_and_query(dim, n, component),
                    // window selectors
                    (any::<bool>(), any::<u16>(), any::<u16>()),
                    // query form: 0 literal, 1 second column, 2 literal of wrong length, 3 column of wrong dim
                    prop_oneof![10 => Just(0u8), 8 => Just(1u8), 1 => Just(2u8), 1 => Just(3u8)],
                    // material for the second column: generated against the same query so related rows occur
                    col_and_query(dim, n + 3, component),
                    (0usize..4, 1usize..4, any::<bool>()),
                )
            })
            .prop_map(|(kind, (qv, col), (slice, so, sl), form, (_q2, mut col2), (off2, delta, up))| {
                let n = col.rows.len();
                let (off, len) = if slice && n > 0 {
                    let off = crate::data::pick_idx(so, n + 1);
                    let len = crate::data::pick_idx(sl, n - off + 1);
                    (off, len)
                } else {
                    (0, n)
                };
                let dim = col.dim;
                let q = match form {
                    0 => Query::Lit(qv.into_iter().map(F).collect()),
                    1 => Query::Col { col: col2, off: off2.min(3) },
                    2 => {
                        let mut v = qv;
                        if up || dim == 1 {
                            v.extend(std::iter::repeat(1.0).take(delta));
                        } else {
                            v.truncate(dim - delta.min(dim - 1));
                        }
                        Query::Lit(v.into_iter().map(F).collect())
                    }
                    _ => {
                        let nd = if up || dim == 1 { dim + delta } else { dim - delta.min(dim - 1) };
                        for r in col2.rows.iter_mut() {
                            r.v.resize(nd, F(1.0));
                        }
                        col2.dim = nd;
                        Query::Col { col: col2, off: off2.min(3) }
                    }
                };
                KernelCase { kind, col, off, len, q }
            })
            .boxed()
    }
    fn test(&self, c: &KernelCase, obs: &mut Obs) -> Verdict {
        let n = c.col.rows.len();
        if !c.col.well_formed() || c.off + c.len > n {
            return Verdict::Discard("malformed case".into());
        }
        if !c.col.in_domain() {
            return Verdict::Discard("component outside the stated range".into());
        }
        let dim = c.col.dim;
        let kind = c.kind;
        obs.label(format!("kind:{:?}", kind));
        obs.label(format!(
            "dim:{}",
            match dim {
                1..=7 => "1-7",
                8 => "8",
                9..=64 => "9-64",
                65..=300 => "65-300",
                _ => ">300",
            }
        ));
        obs.label(if dim % 8 == 0 { "dim%8==0" } else { "dim%8!=0" });
        let sliced = c.off > 0 || c.len < n;
        if sliced {
            obs.label("sliced");
        }
        let full = c.col.build();
        let window = full.slice(c.off, c.len);
        let null_in_window = (c.off..c.off + c.len).any(|i| !c.col.rows[i].valid);
        let valid_in_window = (c.off..c.off + c.len).any(|i| c.col.rows[i].valid);

        match &c.q {
            Query::Lit(q) => {
                let q: Vec<f32> = q.iter().map(|x| x.0).collect();
                if !q.iter().all(|x| ok_component(*x)) {
                    return Verdict::Discard("component outside the stated range".into());
                }
                let call = |a: &ArrayRef| {
                    std::panic::catch_unwind(std::panic::AssertUnwindSafe(|| distance_column(a, &q, kind.engine(), "v")))
                        .map_err(panic_text)
                };
                if q.len() != dim {
                    obs.label("form:literal-dimension-mismatch");
                    return match call(&window) {
                        Err(p) => Verdict::Fail(format!("distance_column panicked on a dimension mismatch: {}", p)),
                        Ok(Err(_)) => Verdict::Pass,
                        Ok(Ok(r)) => Verdict::Fail(format!(
                            "dimension mismatch (column {} vs query {}) returned {} rows instead of an error",
                            dim,
                            q.len(),
                            r.len()
                        )),
                    };
                }
                obs.label("form:literal");
                let whole = match call(&full) {
                    Err(p) => return Verdict::Fail(format!("distance_column panicked: {}", p)),
                    Ok(Err(e)) => return Verdict::Fail(format!("distance_column failed on equal dimensions: {}", e)),
                    Ok(Ok(r)) => match f64_result(&r) {
                        Ok(v) => v,
                        Err(e) => return Verdict::Fail(e),
                    },
                };
                if whole.len() != n {
                    return Verdict::Fail(format!("{} rows in, {} rows out", n, whole.len()));
                }
                for i in 0..n {
                    let row = &c.col.rows[i];
                    if !row.valid {
                        if whole[i].is_some() {
                            return Verdict::Fail(format!("row {} is a NULL vector but the result is {:?}", i, whole[i]));
                        }
                        continue;
                    }
                    if let Err(e) = judge_row(kind, &c.col.row(i), &q, whole[i], &format!("row {}", i), obs) {
                        return Verdict::Fail(e);
                    }
                    // zero-norm: distance must be exactly 1 - similarity
                    if matches!(kind, Kind::CosDist | Kind::CosSim) && reference(kind, &c.col.row(i), &q).zero_norm {
                        let one = full.slice(i, 1);
                        let sim = distance_column(&one, &q, DistanceKind::CosineSimilarity, "v").ok().and_then(|r| f64_result(&r).ok());
                        let dist = distance_column(&one, &q, DistanceKind::Cosine, "v").ok().and_then(|r| f64_result(&r).ok());
                        match (sim, dist) {
                            (Some(s), Some(d)) if s.len() == 1 && d.len() == 1 => {
                                let (s, d) = (s[0].unwrap_or(f64::NAN), d[0].unwrap_or(f64::NAN));
                                if !((d - (1.0 - s)).abs() <= 1e-12) {
                                    return Verdict::Fail(format!(
                                        "zero-norm row {}: cosine_distance {:?} is not 1 - cosine_similarity {:?}",
                                        i, d, s
                                    ));
                                }
                            }
                            _ => return Verdict::Fail("zero-norm row: kernels failed on a single-row slice".into()),
                        }
                    }
                }
                // slicing invariance
                let part = match call(&window) {
                    Err(p) => return Verdict::Fail(format!("distance_column panicked on a slice: {}", p)),
                    Ok(Err(e)) => return Verdict::Fail(format!("distance_column failed on a slice: {}", e)),
                    Ok(Ok(r)) => match f64_result(&r) {
                        Ok(v) => v,
                        Err(e) => return Verdict::Fail(e),
                    },
                };
                if part.len() != c.len || !(0..c.len).all(|i| same_bits(&part[i], &whole[c.off + i])) {
                    return Verdict::Fail(format!(
                        "kernel on slice({}, {}) != slice of kernel on the whole column ({:?}, d={}):\n  on slice = {:?}\n  expected = {:?}",
                        c.off,
                        c.len,
                        kind,
                        dim,
                        &part[..part.len().min(12)],
                        &whole[c.off..(c.off + c.len).min(c.off + 12)]
                    ));
                }
                obs.nontrivial(valid_in_window && (dim % 8 != 0 || (sliced && null_in_window)));
                Verdict::Pass
            }
            Query::Col { col: rc, off: roff } => {
                if !rc.well_formed() || !rc.in_domain() {
                    return Verdict::Discard("malformed or out-of-range second column".into());
                }
                if roff + c.len > rc.rows.len() {
                    return Verdict::Discard("second column shorter than the window".into());
                }
                let right_full = rc.build();
                let right = right_full.slice(*roff, c.len);
                let call = |a: &ArrayRef, b: &ArrayRef| {
                    std::panic::catch_unwind(std::panic::AssertUnwindSafe(|| distance_columns(a, b, kind.engine())))
                        .map_err(panic_text)
                };
                if rc.dim != dim {
                    obs.label("form:column-dimension-mismatch");
                    return match call(&window, &right) {
                        Err(p) => Verdict::Fail(format!("distance_columns panicked on a dimension mismatch: {}", p)),
                        Ok(Err(_)) => Verdict::Pass,
                        Ok(Ok(r)) => Verdict::Fail(format!(
                            "dimension mismatch ({} vs {}) returned {} rows instead of an error",
                            dim,
                            rc.dim,
                            r.len()
                        )),
                    };
                }
                obs.label("form:column");
                if *roff > 0 {
                    obs.label("right-sliced");
                }
                let got = match call(&window, &right) {
                    Err(p) => return Verdict::Fail(format!("distance_columns panicked: {}", p)),
                    Ok(Err(e)) => return Verdict::Fail(format!("distance_columns failed on equal dimensions: {}", e)),
                    Ok(Ok(r)) => match f64_result(&r) {
                        Ok(v) => v,
                        Err(e) => return Verdict::Fail(e),
                    },
                };
                if got.len() != c.len {
                    return Verdict::Fail(format!("{} rows in, {} rows out", c.len, got.len()));
                }
                let mut right_null = false;
                for i in 0..c.len {
                    let (l, r) = (&c.col.rows[c.off + i], &rc.rows[roff + i]);
                    if !r.valid {
                        right_null = true;
                    }
                    if !l.valid || !r.valid {
                        if got[i].is_some() {
                            return Verdict::Fail(format!(
                                "row {}: a NULL vector operand but the result is {:?} (left valid {}, right valid {})",
                                i, got[i], l.valid, r.valid
                            ));
                        }
                        continue;
                    }
                    if let Err(e) = judge_row(kind, &c.col.row(c.off + i), &rc.row(roff + i), got[i], &format!("row {}", i), obs) {
                        return Verdict::Fail(e);
                    }
                }
                let any_pair_valid = (0..c.len).any(|i| c.col.rows[c.off + i].valid && rc.rows[roff + i].valid);
                obs.nontrivial(
                    any_pair_valid && (dim % 8 != 0 || ((sliced || *roff > 0) && (null_in_window || right_null))),
                );
                Verdict::Pass
            }
        }
    }
}

// ---------------------------------------------------------------------------
// check 2: through SQL
// ---------------------------------------------------------------------------

#[derive(Clone, Debug, Serialize, Deserialize)]
pub struct SqlCase {
    pub kind: Kind,
    pub v: VecCol,
    /// second vector column `w` (same number of rows)
    pub w: VecCol,
    /// batch boundaries of the registered in-memory table
    pub cuts: Vec<usize>,
    /// 0: f(v, lit)   1: f(lit, v)   2: f(v, w)
    pub form: u8,
    pub lit: Vec<F>,
}

fn lit_sql(v: &[f32]) -> String {
    // components are k/512: "{:.9}" is their exact decimal expansion
    let parts: Vec<String> = v
        .iter()
        .enumerate()
        .map(|(i, x)| {
            let s = format!("{:.9}", *x as f64);
            let s = s.trim_end_matches('0');
            match s.strip_suffix('.') {
                // integers are spelled both ways by users
                Some(int) if i % 2 == 0 => int.to_string(),
                Some(int) => format!("{}.0", int),
                None => s.to_string(),
            }
        })
        .collect();
    format!("[{}]", parts.join(", "))
}

pub struct ThroughSql;
impl Check for ThroughSql {
    type Case = SqlCase;
    fn name(&self) -> &'static str {
        "through_sql"
    }
    fn rule(&self) -> &'static str {
        "equal dimensions, >=1 row with non-NULL operands, and (dimension not a multiple of 8, or a NULL row in a table split into >=2 batches)"
    }
    fn cases(&self, tier: Tier) -> u32 {
        tier.pick(400, 10_000)
    }
    fn strategy(&self, tier: Tier) -> BoxedStrategy<SqlCase> {
        let budget = tier.pick(1024usize, 4096);
        let kind = prop_oneof![Just(Kind::L2), Just(Kind::CosDist), Just(Kind::CosSim), Just(Kind::Dot)];
        let dim = prop_oneof![4 => 1usize..10, 3 => prop_oneof![Just(7usize), Just(8), Just(9), Just(16), Just(17)], 2 => 10usize..40, 1 => prop_oneof![Just(128usize), Just(385)]];
        (kind, dim)
            .prop_flat_map(move |(kind, dim)| (Just(kind), Just(dim), rows_strategy(dim, budget)))
            .prop_flat_map(|(kind, dim, n)| {
                (
                    Just(kind),
                    col_and_query(dim, n, dyadic),
                    col_and_query(dim, n, dyadic),
                    proptest::collection::vec(any::<u16>(), 0..4),
                    // form; 3/4 = dimension mismatch (literal / column)
                    prop_oneof![6 => Just(0u8), 3 => Just(1u8), 5 => Just(2u8), 1 => Just(3u8), 1 => Just(4u8)],
                    1usize..3,
                )
            })
            .prop_map(|(kind, (q, v), (_q2, mut w), cutsel, form, delta)| {
                let n = v.rows.len();
                let mut cuts: Vec<usize> = if n >= 2 { cutsel.iter().map(|s| 1 + crate::data::pick_idx(*s, n - 1)).collect() } else { vec![] };
                cuts.sort();
                cuts.dedup();
                let mut lit = q;
                let mut f = form;
                if form == 3 {
                    // longer or (when possible) shorter literal; either side of the call
                    if delta == 1 || lit.len() == 1 {
                        lit.extend(std::iter::repeat(1.0).take(delta));
                        f = 0;
                    } else {
                        lit.truncate(lit.len() - 1);
                        f = 1;
                    }
                }
                if form == 4 {
                    let nd = v.dim + delta;
                    for r in w.rows.iter_mut() {
                        r.v.resize(nd, F(1.0));
                    }
                    w.dim = nd;
                    f = 2;
                }
                SqlCase { kind, v, w, cuts, form: f, lit: lit.into_iter().map(F).collect() }
            })
            .boxed()
    }
    fn test(&self, c: &SqlCase, obs: &mut Obs) -> Verdict {
        let n = c.v.rows.len();
        if !c.v.well_formed() || !c.w.well_formed() || c.w.rows.len() != n || c.form > 2 {
            return Verdict::Discard("malformed case".into());
        }
        let lit: Vec<f32> = c.lit.iter().map(|x| x.0).collect();
        let exact = |x: &f32| (x * 512.0).fract() == 0.0 && x.abs() <= 16384.0;
        if !c.v.rows.iter().chain(c.w.rows.iter()).all(|r| r.v.iter().all(|x| exact(&x.0))) || !lit.iter().all(exact) {
            return Verdict::Discard("SQL cases use k/512 components (exact in decimal text, f64 and f32)".into());
        }
        if c.cuts.iter().any(|x| *x == 0 || *x >= n.max(1)) || c.cuts.windows(2).any(|w| w[0] >= w[1]) {
            return Verdict::Discard("malformed cuts".into());
        }
        let dim = c.v.dim;
        obs.label(format!("kind:{:?}", c.kind));
        obs.label(format!("form:{}", ["f(v,lit)", "f(lit,v)", "f(v,w)"][c.form as usize]));
        obs.label(if dim % 8 == 0 { "dim%8==0" } else { "dim%8!=0" });
        obs.label(format!("batches:{}", (c.cuts.len() + 1).min(3)));
        // table t(id, v, w)
        let schema = Arc::new(Schema::new(vec![
            Field::new("id", DataType::Int64, false),
            Field::new("v", DataType::FixedSizeList(Arc::new(Field::new("item", DataType::Float32, true)), dim as i32), true),
            Field::new(
                "w",
                DataType::FixedSizeList(Arc::new(Field::new("item", DataType::Float32, true)), c.w.dim as i32),
                true,
            ),
        ]));
        let ids: ArrayRef = Arc::new(Int64Array::from((0..n as i64).collect::<Vec<_>>()));
        let whole = RecordBatch::try_new(schema.clone(), vec![ids, c.v.build(), c.w.build()]).expect("batch");
        let mut bounds = vec![0usize];
        bounds.extend(c.cuts.iter().copied());
        bounds.push(n);
        let batches: Vec<RecordBatch> = bounds.windows(2).map(|w| whole.slice(w[0], w[1] - w[0])).collect();
        let mut ctx = ExecutionContext::new();
        ctx.register_table("t", schema, batches);
        let f = c.kind.sql();
        let sql = match c.form {
            0 => format!("SELECT id, {}(v, {}) AS d FROM t", f, lit_sql(&lit)),
            1 => format!("SELECT id, {}({}, v) AS d FROM t", f, lit_sql(&lit)),
            _ => format!("SELECT id, {}(v, w) AS d FROM t", f),
        };
        let mismatch = if c.form == 2 { c.w.dim != dim } else { lit.len() != dim };
        let ans = run_sql_full(&ctx, &sql);
        if mismatch {
            obs.label("dimension-mismatch");
            return match ans {
                Err(e) if crate::engine::is_panic(&e) => Verdict::Fail(format!("panic on a dimension mismatch: {}\n  {}", e, sql)),
                Err(_) => Verdict::Pass,
                // no rows => the function was never evaluated
                Ok(a) if a.rows.is_empty() && n == 0 => Verdict::Pass,
                Ok(a) => Verdict::Fail(format!(
                    "dimension mismatch returned {} rows instead of an error\n  {}",
                    a.rows.len(),
                    &sql[..sql.len().min(300)]
                )),
            };
        }
        let ans = match ans {
            Ok(a) => a,
            Err(e) => return Verdict::Fail(format!("query failed: {}\n  {}", e, &sql[..sql.len().min(400)])),
        };
        // collect id -> d
        let mut got: Vec<Option<Option<f64>>> = vec![None; n];
        let mut count = 0;
        for b in &ans.batches {
            let (Some(id), Some(d)) = (
                b.column(0).as_any().downcast_ref::<Int64Array>(),
                b.column(1).as_any().downcast_ref::<Float64Array>(),
            ) else {
                return Verdict::Fail(format!("unexpected result types {:?}", b.schema()));
            };
            for r in 0..b.num_rows() {
                let i = id.value(r) as usize;
                if i >= n || got[i].is_some() {
                    return Verdict::Fail(format!("row id {} invented or duplicated", i));
                }
                got[i] = Some(if d.is_null(r) { None } else { Some(d.value(r)) });
                count += 1;
            }
        }
        if count != n {
            return Verdict::Fail(format!("{} rows in the table, {} rows in the result", n, count));
        }
        let mut any_valid = false;
        let mut any_null = false;
        for i in 0..n {
            let a_valid = c.v.rows[i].valid;
            let (b_valid, b): (bool, Vec<f32>) = if c.form == 2 { (c.w.rows[i].valid, c.w.row(i)) } else { (true, lit.clone()) };
            let g = got[i].unwrap();
            if !a_valid || !b_valid {
                any_null = true;
                if g.is_some() {
                    return Verdict::Fail(format!("row {}: NULL vector operand but SQL returned {:?}\n  {}", i, g, &sql[..sql.len().min(300)]));
                }
                continue;
            }
            any_valid = true;
            if let Err(e) = judge_row(c.kind, &c.v.row(i), &b, g, &format!("SQL row id={}", i), obs) {
                return Verdict::Fail(format!("{}\n  {}", e, &sql[..sql.len().min(300)]));
            }
        }
        obs.nontrivial(any_valid && (dim % 8 != 0 || (any_null && c.cuts.len() >= 1)));
        Verdict::Pass
    }
}

pub fn property() -> Property {
    Property {
        id: "C38",
        level: "exploration",
        assumptions: &[
            "vector components are exactly 0 or have 1e-15 <= |x| <= 1e15: the kernels multiply/accumulate in f32 lanes by design, so outside that range f32 overflow/underflow (not the formula) decides the result; the tolerance 4*d*eps_f32*sum|terms| + 1e-6 (propagated through sqrt and the cosine quotient) is only sound inside it",
            "zero-norm cosine is 0/0 in the documented formula and vector.rs states no convention in words; asserted: the result is finite and cosine_distance = 1 - cosine_similarity (the observed value is recorded as a label)",
            "SQL cases use components k/512 (|x| <= 16384) so the decimal literal, its f64 parse and the f32 narrowing are all exact",
        ],
        checks: vec![Box::new(Kernels), Box::new(ThroughSql)],
    }
}
