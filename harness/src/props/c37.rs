//! C37 — not implemented yet.
use super::Property;

pub fn property() -> Property {
    Property { id: "C37", level: "exploration", assumptions: &[], checks: vec![] }
}
