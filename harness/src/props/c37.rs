//! C37 — Vector encodings round-trip and SIMD kernels match Arrow.
//!
//! Code under test: `src/arrow_ffi/array.rs` (`encode_optimal`,
//! `EncodedArray::decode`) and `src/arrow_ffi/codec.rs` (`filter_simd`,
//! `compare_simd`, `add_simd`, `multiply_simd`, `sum_simd`, `count_simd`).
//!
//! Input domain (read from the code): any `ArrayRef`/`&dyn Array`; the helpers
//! dispatch on `data_type()` and refuse other types with an explicit
//! "Unsupported …" error (that refusal is not counted as a wrong answer and
//! never counts as a non-trivial case). `filter_simd` takes a `&[bool]`
//! predicate of the array's length.
//!
//! Generator: a *physical* array (values for every slot, also the slots that
//! are NULL — the "hidden" values) + validity + a slice window. Values come
//! from a per-case domain of 1..4 atoms expanded as runs, so constants, long
//! runs, constant-except-a-NULL (hidden value equal to the constant or zero),
//! all-NULL, single-NULL and sliced arrays are all constructed, not filtered.
//!
//! Oracles:
//!  * round trip: `encode_optimal(a)?.decode()` (dictionary result cast back to
//!    the value type) has the data type, length, validity and values of the
//!    *generated logical content* (read from the case, not from Arrow);
//!  * SIMD helpers: differential against `arrow::compute::filter`,
//!    `kernels::cmp::*`, `kernels::numeric::{add,mul}_wrapping`,
//!    `aggregate::sum`, `len - null_count` on the very same arrays. Integer
//!    operands are bounded so no overflow is in play; float sums use exactly
//!    representable addends so the summation order is irrelevant.
//!
//! Open findings are classified by precise signatures (see `known_findings.json`)
//! and the part of the case behind the finding is still checked (e.g. the
//! values at all positions where Arrow's result is valid).
use super::Property;
use crate::runner::*;
use arrow::array::*;
use arrow::buffer::{BooleanBuffer, NullBuffer, OffsetBuffer, ScalarBuffer};
use arrow::datatypes::DataType;
use proptest::prelude::*;
use query_engine::arrow_ffi::{
    add_simd, compare_simd, count_simd, encode_optimal, filter_simd, multiply_simd, sum_simd, CodecScalarValue,
    CompareOp,
};
use serde::{Deserialize, Deserializer, Serialize, Serializer};
use std::sync::Arc;

// ---------------------------------------------------------------------------
// case model
// ---------------------------------------------------------------------------

/// f64 that survives JSON (NaN/inf/-0.0) — serialized as Rust's `{:?}` text.
#[derive(Clone, Copy, Debug)]
pub struct Fl(pub f64);
impl Serialize for Fl {
    fn serialize<S: Serializer>(&self, s: S) -> Result<S::Ok, S::Error> {
        s.serialize_str(&format!("{:?}", self.0))
    }
}
impl<'de> Deserialize<'de> for Fl {
    fn deserialize<D: Deserializer<'de>>(d: D) -> Result<Fl, D::Error> {
        let s = String::deserialize(d)?;
        s.parse::<f64>().map(Fl).map_err(serde::de::Error::custom)
    }
}

#[derive(Clone, Copy, Debug, PartialEq, Eq, Serialize, Deserialize)]
pub enum Ty {
    I32,
    I64,
    F64,
    Utf8,
    Bool,
}
impl Ty {
    fn arrow(self) -> DataType {
        match self {
            Ty::I32 => DataType::Int32,
            Ty::I64 => DataType::Int64,
            Ty::F64 => DataType::Float64,
            Ty::Utf8 => DataType::Utf8,
            Ty::Bool => DataType::Boolean,
        }
    }
}

/// physical slot values (also under NULL slots)
#[derive(Clone, Debug, Serialize, Deserialize)]
pub enum Phys {
    I32(Vec<i32>),
    I64(Vec<i64>),
    F64(Vec<Fl>),
    Utf8(Vec<String>),
    Bool(Vec<bool>),
}
impl Phys {
    fn len(&self) -> usize {
        match self {
            Phys::I32(v) => v.len(),
            Phys::I64(v) => v.len(),
            Phys::F64(v) => v.len(),
            Phys::Utf8(v) => v.len(),
            Phys::Bool(v) => v.len(),
        }
    }
    fn ty(&self) -> Ty {
        match self {
            Phys::I32(_) => Ty::I32,
            Phys::I64(_) => Ty::I64,
            Phys::F64(_) => Ty::F64,
            Phys::Utf8(_) => Ty::Utf8,
            Phys::Bool(_) => Ty::Bool,
        }
    }
}

/// A physical array of `phys.len()` slots, viewed through `slice(off, len)`.
#[derive(Clone, Debug, Serialize, Deserialize)]
pub struct Arr {
    pub phys: Phys,
    /// validity per physical slot
    pub valid: Vec<bool>,
    pub off: usize,
    pub len: usize,
}

/// logical cell
#[derive(Clone, Debug)]
pub enum Cell {
    I(i64),
    F(f64),
    S(String),
    B(bool),
}
fn cell_eq(a: &Cell, b: &Cell) -> bool {
    match (a, b) {
        (Cell::I(x), Cell::I(y)) => x == y,
        (Cell::F(x), Cell::F(y)) => (x.is_nan() && y.is_nan()) || x.to_bits() == y.to_bits(),
        (Cell::S(x), Cell::S(y)) => x == y,
        (Cell::B(x), Cell::B(y)) => x == y,
        _ => false,
    }
}
fn opt_cell_eq(a: &Option<Cell>, b: &Option<Cell>) -> bool {
    match (a, b) {
        (None, None) => true,
        (Some(x), Some(y)) => cell_eq(x, y),
        _ => false,
    }
}

impl Arr {
    fn ty(&self) -> Ty {
        self.phys.ty()
    }
    fn well_formed(&self) -> bool {
        self.valid.len() == self.phys.len() && self.off + self.len <= self.phys.len()
    }
    fn sliced(&self) -> bool {
        self.off > 0 || self.len < self.phys.len()
    }
    /// physical value of logical slot i
    fn phys_cell(&self, i: usize) -> Cell {
        let j = self.off + i;
        match &self.phys {
            Phys::I32(v) => Cell::I(v[j] as i64),
            Phys::I64(v) => Cell::I(v[j]),
            Phys::F64(v) => Cell::F(v[j].0),
            Phys::Utf8(v) => Cell::S(v[j].clone()),
            Phys::Bool(v) => Cell::B(v[j]),
        }
    }
    fn is_valid(&self, i: usize) -> bool {
        self.valid[self.off + i]
    }
    /// the logical content the array denotes
    fn logical(&self) -> Vec<Option<Cell>> {
        (0..self.len)
            .map(|i| if self.is_valid(i) { Some(self.phys_cell(i)) } else { None })
            .collect()
    }
    fn null_count(&self) -> usize {
        (0..self.len).filter(|&i| !self.is_valid(i)).count()
    }
    /// longest run of equal logical cells (NULL = NULL)
    fn max_run(&self) -> usize {
        let l = self.logical();
        let mut best = 0;
        let mut cur = 0;
        for i in 0..l.len() {
            if i > 0 && opt_cell_eq(&l[i], &l[i - 1]) {
                cur += 1;
            } else {
                cur = 1;
            }
            best = best.max(cur);
        }
        best
    }
    /// all physical values inside the window are equal (cells compared by bits)
    fn phys_constant(&self) -> bool {
        (1..self.len).all(|i| cell_eq(&self.phys_cell(i), &self.phys_cell(0)))
    }
    fn build(&self) -> ArrayRef {
        let nulls = if self.valid.iter().all(|v| *v) {
            None
        } else {
            Some(NullBuffer::from(self.valid.clone()))
        };
        let full: ArrayRef = match &self.phys {
            Phys::I32(v) => Arc::new(Int32Array::new(ScalarBuffer::from(v.clone()), nulls)),
            Phys::I64(v) => Arc::new(Int64Array::new(ScalarBuffer::from(v.clone()), nulls)),
            Phys::F64(v) => Arc::new(Float64Array::new(
                ScalarBuffer::from(v.iter().map(|f| f.0).collect::<Vec<f64>>()),
                nulls,
            )),
            Phys::Utf8(v) => {
                let offsets = OffsetBuffer::<i32>::from_lengths(v.iter().map(|s| s.len()));
                let mut bytes = Vec::new();
                for s in v {
                    bytes.extend_from_slice(s.as_bytes());
                }
                Arc::new(StringArray::new(offsets, arrow::buffer::Buffer::from_vec(bytes), nulls))
            }
            Phys::Bool(v) => Arc::new(BooleanArray::new(BooleanBuffer::from(v.clone()), nulls)),
        };
        full.slice(self.off, self.len)
    }
    fn shape_labels(&self, obs: &mut Obs, prefix: &str) {
        obs.label(format!("{}type:{:?}", prefix, self.ty()));
        let n = self.len;
        obs.label(format!(
            "{}len:{}",
            prefix,
            match n {
                0 => "0",
                1 => "1",
                2..=6 => "2-6",
                7..=80 => "7-80",
                _ => ">80",
            }
        ));
        let nc = self.null_count();
        if nc > 0 {
            obs.label(format!("{}has-nulls", prefix));
            if nc == n {
                obs.label(format!("{}all-null", prefix));
            }
        }
        if self.sliced() {
            obs.label(format!("{}sliced", prefix));
        }
        if n >= 2 && self.phys_constant() {
            obs.label(format!("{}phys-constant", prefix));
        }
        if self.max_run() >= 3 {
            obs.label(format!("{}run>=3", prefix));
        }
    }
    /// DESIGN's NT: NULLs and a run >= 3, or sliced
    fn nt(&self) -> bool {
        self.len > 0 && ((self.null_count() > 0 && self.max_run() >= 3) || self.sliced())
    }
}

/// Read any result array of the five types (or a dictionary over Utf8, cast
/// back to the value type) into logical cells.
fn read(a: &ArrayRef) -> Result<(DataType, Vec<Option<Cell>>), String> {
    let a: ArrayRef = match a.data_type() {
        DataType::Dictionary(_, v) => {
            arrow::compute::cast(a, v.as_ref()).map_err(|e| format!("cast of dictionary result failed: {}", e))?
        }
        _ => a.clone(),
    };
    let n = a.len();
    let mut out = Vec::with_capacity(n);
    macro_rules! rd {
        ($t:ty, $f:expr) => {{
            let x = a.as_any().downcast_ref::<$t>().unwrap();
            for i in 0..n {
                out.push(if x.is_null(i) { None } else { Some($f(x, i)) });
            }
        }};
    }
    match a.data_type() {
        DataType::Int32 => rd!(Int32Array, |x: &Int32Array, i| Cell::I(x.value(i) as i64)),
        DataType::Int64 => rd!(Int64Array, |x: &Int64Array, i| Cell::I(x.value(i))),
        DataType::Float64 => rd!(Float64Array, |x: &Float64Array, i| Cell::F(x.value(i))),
        DataType::Utf8 => rd!(StringArray, |x: &StringArray, i| Cell::S(x.value(i).to_string())),
        DataType::Boolean => rd!(BooleanArray, |x: &BooleanArray, i| Cell::B(x.value(i))),
        other => return Err(format!("result has unexpected data type {:?}", other)),
    }
    Ok((a.data_type().clone(), out))
}

fn show(cells: &[Option<Cell>]) -> String {
    let mut s = String::from("[");
    for (i, c) in cells.iter().enumerate() {
        if i >= 24 {
            s.push_str(&format!(", … ({} total)", cells.len()));
            break;
        }
        if i > 0 {
            s.push_str(", ");
        }
        match c {
            None => s.push_str("NULL"),
            Some(Cell::I(v)) => s.push_str(&v.to_string()),
            Some(Cell::F(v)) => s.push_str(&format!("{:?}", v)),
            Some(Cell::S(v)) => s.push_str(&format!("{:?}", v)),
            Some(Cell::B(v)) => s.push_str(&v.to_string()),
        }
    }
    s.push(']');
    s
}

fn cells_eq(a: &[Option<Cell>], b: &[Option<Cell>]) -> bool {
    a.len() == b.len() && a.iter().zip(b).all(|(x, y)| opt_cell_eq(x, y))
}

fn catch<T>(f: impl FnOnce() -> T) -> Result<T, String> {
    std::panic::catch_unwind(std::panic::AssertUnwindSafe(f)).map_err(crate::engine::panic_text)
}

// ---------------------------------------------------------------------------
// generators
// ---------------------------------------------------------------------------

#[derive(Clone, Copy, Debug, PartialEq, Eq)]
enum Dom {
    /// any value of the type (extremes, NaN, inf, -0.0)
    Full,
    /// |int| <= 2^31, floats finite "nice" + rare specials (for compare / arithmetic)
    Bounded,
    /// floats are multiples of 1/8 with |x| <= 2^20 (sums exact in any order); ints |x| <= 2^31
    Exact,
}

#[derive(Clone, Debug)]
enum Atom {
    I32(i32),
    I64(i64),
    F64(f64),
    S(String),
    B(bool),
}

fn atom(ty: Ty, dom: Dom) -> BoxedStrategy<Atom> {
    match ty {
        Ty::I32 => prop_oneof![
            6 => (-3i32..4).prop_map(Atom::I32),
            1 => prop_oneof![Just(i32::MAX), Just(i32::MIN), Just(1 << 20)].prop_map(Atom::I32),
            1 => any::<i32>().prop_map(Atom::I32),
        ]
        .boxed(),
        Ty::I64 => match dom {
            Dom::Full => prop_oneof![
                6 => (-3i64..4).prop_map(Atom::I64),
                1 => prop_oneof![Just(i64::MAX), Just(i64::MIN), Just(1i64 << 40)].prop_map(Atom::I64),
                1 => any::<i64>().prop_map(Atom::I64),
            ]
            .boxed(),
            _ => prop_oneof![
                6 => (-3i64..4).prop_map(Atom::I64),
                1 => prop_oneof![Just(1i64 << 31), Just(-(1i64 << 31)), Just(46341i64)].prop_map(Atom::I64),
                1 => (-(1i64 << 31)..(1i64 << 31)).prop_map(Atom::I64),
            ]
            .boxed(),
        },
        Ty::F64 => match dom {
            Dom::Exact => prop_oneof![
                6 => (-24i32..25).prop_map(|k| Atom::F64(k as f64 / 8.0)),
                2 => (-(1i32 << 23)..(1i32 << 23)).prop_map(|k| Atom::F64(k as f64 / 8.0)),
            ]
            .boxed(),
            Dom::Bounded => prop_oneof![
                12 => (-24i32..25).prop_map(|k| Atom::F64(k as f64 / 8.0)),
                3 => (-1.0e6f64..1.0e6).prop_map(Atom::F64),
                1 => prop_oneof![Just(f64::INFINITY), Just(f64::NEG_INFINITY), Just(f64::MAX), Just(f64::MIN_POSITIVE)]
                    .prop_map(Atom::F64),
                // NaN and -0.0 are where IEEE and Arrow's total order disagree (open finding): keep them rare
                1 => prop_oneof![Just(f64::NAN), Just(-0.0f64)].prop_map(Atom::F64),
            ]
            .boxed(),
            Dom::Full => prop_oneof![
                8 => (-24i32..25).prop_map(|k| Atom::F64(k as f64 / 8.0)),
                2 => any::<f64>().prop_map(Atom::F64),
                2 => prop_oneof![
                    Just(f64::NAN),
                    Just(-0.0f64),
                    Just(f64::INFINITY),
                    Just(f64::NEG_INFINITY),
                    Just(f64::MAX),
                    Just(f64::MIN_POSITIVE)
                ]
                .prop_map(Atom::F64),
            ]
            .boxed(),
        },
        Ty::Utf8 => prop_oneof![
            3 => Just(Atom::S(String::new())),
            8 => "[ab]{1,2}".prop_map(Atom::S),
            2 => Just(Atom::S("NULL".to_string())),
            2 => "[a-zé✓ ,\"]{0,6}".prop_map(Atom::S),
            1 => (20usize..60).prop_map(|n| Atom::S("x".repeat(n))),
        ]
        .boxed(),
        Ty::Bool => any::<bool>().prop_map(Atom::B).boxed(),
    }
}

fn default_atom(ty: Ty) -> Atom {
    match ty {
        Ty::I32 => Atom::I32(0),
        Ty::I64 => Atom::I64(0),
        Ty::F64 => Atom::F64(0.0),
        Ty::Utf8 => Atom::S(String::new()),
        Ty::Bool => Atom::B(false),
    }
}

fn to_phys(ty: Ty, atoms: Vec<Atom>) -> Phys {
    match ty {
        Ty::I32 => Phys::I32(atoms.into_iter().map(|a| if let Atom::I32(v) = a { v } else { 0 }).collect()),
        Ty::I64 => Phys::I64(atoms.into_iter().map(|a| if let Atom::I64(v) = a { v } else { 0 }).collect()),
        Ty::F64 => Phys::F64(atoms.into_iter().map(|a| if let Atom::F64(v) = a { Fl(v) } else { Fl(0.0) }).collect()),
        Ty::Utf8 => {
            Phys::Utf8(atoms.into_iter().map(|a| if let Atom::S(v) = a { v } else { String::new() }).collect())
        }
        Ty::Bool => Phys::Bool(atoms.into_iter().map(|a| if let Atom::B(v) = a { v } else { false }).collect()),
    }
}

/// validity pattern over n physical slots
#[derive(Clone, Debug)]
enum Validity {
    AllValid,
    /// each slot NULL with probability pct (bits drawn by the strategy)
    Random(Vec<bool>),
    /// alternating runs, lengths given, starting with `first_valid`
    Runs(bool, Vec<u8>),
    AllNull,
    /// exactly one NULL at the picked position
    Single(u16),
}

fn validity(n: usize) -> BoxedStrategy<Validity> {
    let m = n.max(1);
    prop_oneof![
        5 => Just(Validity::AllValid),
        4 => (prop_oneof![Just(10u32), Just(30), Just(60)], proptest::collection::vec(0u32..100, m))
            .prop_map(|(pct, v)| Validity::Random(v.into_iter().map(|x| x >= pct).collect())),
        3 => (any::<bool>(), proptest::collection::vec(1u8..9, 1..12)).prop_map(|(f, r)| Validity::Runs(f, r)),
        1 => Just(Validity::AllNull),
        3 => any::<u16>().prop_map(Validity::Single),
    ]
    .boxed()
}

fn expand_validity(v: &Validity, n: usize) -> Vec<bool> {
    match v {
        Validity::AllValid => vec![true; n],
        Validity::Random(b) => (0..n).map(|i| b[i % b.len()]).collect(),
        Validity::Runs(first, runs) => {
            let mut out = Vec::with_capacity(n);
            let mut cur = *first;
            let mut k = 0;
            while out.len() < n {
                let r = runs[k % runs.len()] as usize;
                for _ in 0..r {
                    if out.len() < n {
                        out.push(cur);
                    }
                }
                cur = !cur;
                k += 1;
            }
            out
        }
        Validity::AllNull => vec![false; n],
        Validity::Single(sel) => {
            let mut out = vec![true; n];
            if n > 0 {
                out[crate::data::pick_idx(*sel, n)] = false;
            }
            out
        }
    }
}

/// An array of logical length `n` of type `ty`.
fn arr_of_len(ty: Ty, dom: Dom, n: usize) -> BoxedStrategy<Arr> {
    // hidden lead/trail slots outside the window
    let pad = prop_oneof![
        5 => Just((0usize, 0usize)),
        5 => (0usize..4, 0usize..4),
        1 => (0usize..70, 0usize..70), // offsets beyond one bitmap word
    ];
    pad.prop_flat_map(move |(lead, trail)| {
        let total = lead + n + trail;
        (
            // domain size: 1 (constant) is kept to ~1/6 of the cases
            prop_oneof![1 => 1usize..2, 5 => 2usize..6].prop_flat_map(move |k| proptest::collection::vec(atom(ty, dom), k)),
            // runs over the atom domain: (atom index, run length)
            proptest::collection::vec(
                (0u8..5, prop_oneof![6 => 1u16..2, 3 => 2u16..5, 2 => 5u16..40, 1 => 40u16..400]),
                1..10,
            ),
            validity(total),
            // hidden values under NULL: keep the run's value / zero-default
            any::<bool>(),
            Just((lead, trail)),
        )
    })
    .prop_map(move |(domv, runs, val, hidden_default, (lead, trail))| {
        let total = lead + n + trail;
        let valid = expand_validity(&val, total);
        let mut atoms: Vec<Atom> = Vec::with_capacity(total);
        let mut k = 0;
        while atoms.len() < total {
            let (ai, rl) = runs[k % runs.len()];
            let a = domv[(ai as usize) % domv.len()].clone();
            for _ in 0..rl {
                if atoms.len() < total {
                    atoms.push(a.clone());
                }
            }
            k += 1;
        }
        if hidden_default {
            for i in 0..total {
                if !valid[i] {
                    atoms[i] = default_atom(ty);
                }
            }
        }
        Arr { phys: to_phys(ty, atoms), valid, off: lead, len: n }
    })
    .boxed()
}

fn len_strategy(tier: Tier) -> BoxedStrategy<usize> {
    match tier {
        Tier::Quick => prop_oneof![2 => 0usize..3, 5 => 3usize..13, 4 => 13usize..81, 1 => 200usize..1200].boxed(),
        Tier::Thorough => {
            prop_oneof![2 => 0usize..3, 5 => 3usize..13, 4 => 13usize..81, 2 => 200usize..1200, 1 => 1200usize..5001]
                .boxed()
        }
    }
}

fn arr(ty: BoxedStrategy<Ty>, dom: Dom, tier: Tier) -> BoxedStrategy<Arr> {
    (ty, len_strategy(tier)).prop_flat_map(move |(t, n)| arr_of_len(t, dom, n)).boxed()
}

// ---------------------------------------------------------------------------
// check 1: encode_optimal / decode round trip
// ---------------------------------------------------------------------------

#[derive(Clone, Debug, Serialize, Deserialize)]
pub struct EncodeCase {
    pub a: Arr,
}

pub struct EncodeRoundTrip;
impl Check for EncodeRoundTrip {
    type Case = EncodeCase;
    fn name(&self) -> &'static str {
        "encode_roundtrip"
    }
    fn rule(&self) -> &'static str {
        "non-empty array that (has NULLs and a run of >=3 equal cells) or is a proper slice of its buffers"
    }
    fn cases(&self, tier: Tier) -> u32 {
        tier.pick(6000, 400_000)
    }
    fn strategy(&self, tier: Tier) -> BoxedStrategy<EncodeCase> {
        // Int32 is mostly blocked by an open finding (see below): keep its share small
        let ty = prop_oneof![
            1 => Just(Ty::I32),
            4 => Just(Ty::I64),
            3 => Just(Ty::F64),
            4 => Just(Ty::Utf8),
            2 => Just(Ty::Bool),
        ]
        .boxed();
        arr(ty, Dom::Full, tier).prop_map(|a| EncodeCase { a }).boxed()
    }
    fn test(&self, c: &EncodeCase, obs: &mut Obs) -> Verdict {
        let a = &c.a;
        if !a.well_formed() {
            return Verdict::Discard("malformed case".into());
        }
        a.shape_labels(obs, "");
        let input = a.build();
        let want = a.logical();
        let n = a.len;
        let outcome = catch(|| encode_optimal(input.clone()).map(|e| (e.encoding(), e.decode())));
        // (signature helper) constant-path facts about the input
        let first_null = n > 0 && !a.is_valid(0);
        let (enc, dec) = match outcome {
            Err(panic) => {
                obs.label("outcome:panic");
                let sig = matches!(a.ty(), Ty::Bool | Ty::I32)
                    && n == 1
                    && panic.contains("Unsupported data type for constant array");
                if sig {
                    return Verdict::Known {
                        id: "c37-encode-unsupported-type-fails".into(),
                        msg: format!("encode_optimal({}) panicked: {}", show(&want), panic),
                    };
                }
                return Verdict::Fail(format!(
                    "encode_optimal panicked on {:?} array {}: {}",
                    a.ty(),
                    show(&want),
                    panic
                ));
            }
            Ok(Err(e)) => {
                obs.label("outcome:err");
                let e = e.to_string();
                let sig = a.ty() == Ty::I32
                    && (n == 1 || n >= 7)
                    && e.contains("Unsupported array type for scalar extraction");
                if sig {
                    return Verdict::Known {
                        id: "c37-encode-unsupported-type-fails".into(),
                        msg: format!("encode_optimal(Int32 {}) = Err({})", show(&want), e),
                    };
                }
                return Verdict::Fail(format!(
                    "encode_optimal refused a {:?} array {} (no round trip): {}",
                    a.ty(),
                    show(&want),
                    e
                ));
            }
            Ok(Ok(x)) => x,
        };
        obs.label(format!("encoding:{:?}", enc));
        obs.nontrivial(a.nt());
        let (dt, got) = match read(&dec) {
            Ok(x) => x,
            Err(e) => return Verdict::Fail(format!("decode of {:?}: {}", enc, e)),
        };
        if dt == a.ty().arrow() && cells_eq(&got, &want) {
            return Verdict::Pass;
        }
        let msg = format!(
            "encode_optimal(a).decode() != a  (encoding {:?}, type {:?} -> {:?})\n  a       = {}\n  decoded = {}",
            enc,
            a.ty(),
            dt,
            show(&want),
            show(&got)
        );
        // --- signatures of open findings -----------------------------------
        let all_valid_out = got.iter().all(|c| c.is_some());
        if dt == a.ty().arrow() && got.len() == n && all_valid_out && a.null_count() > 0 {
            let dflt = match a.ty() {
                Ty::I32 | Ty::I64 => Cell::I(0),
                Ty::F64 => Cell::F(0.0),
                Ty::Utf8 => Cell::S(String::new()),
                Ty::Bool => Cell::B(false),
            };
            // (1) is_constant looks at the values buffer only: Int64, >=2 slots,
            //     every physical value equal, some slot NULL. The NULLs come back
            //     as the constant (or as 0 when slot 0 is the NULL one).
            if a.ty() == Ty::I64 && n >= 2 && a.phys_constant() {
                let fill = if first_null { dflt.clone() } else { a.phys_cell(0) };
                if got.iter().all(|c| cell_eq(c.as_ref().unwrap(), &fill)) {
                    return Verdict::Known { id: "c37-constant-ignores-validity".into(), msg };
                }
            }
            // (2) a legitimately constant array whose constant is NULL (one NULL
            //     slot, or an all-NULL Utf8 array) decodes to the type's default.
            let legit_null_const = (n == 1 && first_null && a.ty() != Ty::I32 && a.ty() != Ty::Bool)
                || (a.ty() == Ty::Utf8 && a.null_count() == n);
            if legit_null_const && got.iter().all(|c| cell_eq(c.as_ref().unwrap(), &dflt)) {
                return Verdict::Known { id: "c37-null-constant-becomes-default".into(), msg };
            }
        }
        Verdict::Fail(msg)
    }
}

// ---------------------------------------------------------------------------
// check 2: filter_simd vs arrow::compute::filter
// ---------------------------------------------------------------------------

fn is_unsupported(e: &str) -> bool {
    e.contains("Unsupported data type") || e.contains("Unsupported type")
}

#[derive(Clone, Debug, Serialize, Deserialize)]
pub struct FilterCase {
    pub a: Arr,
    pub pred: Vec<bool>,
}

pub struct FilterSimd;
impl Check for FilterSimd {
    type Case = FilterCase;
    fn name(&self) -> &'static str {
        "filter_simd"
    }
    fn rule(&self) -> &'static str {
        "supported type, predicate selects >=1 and rejects >=1 row, and the array (has NULLs and a run >=3) or is sliced"
    }
    fn cases(&self, tier: Tier) -> u32 {
        tier.pick(4000, 300_000)
    }
    fn strategy(&self, tier: Tier) -> BoxedStrategy<FilterCase> {
        let ty = prop_oneof![
            5 => Just(Ty::I64),
            5 => Just(Ty::F64),
            4 => Just(Ty::Bool),
            1 => Just(Ty::I32),
            1 => Just(Ty::Utf8),
        ]
        .boxed();
        arr(ty, Dom::Full, tier)
            .prop_flat_map(|a| {
                let n = a.len.max(1);
                (
                    Just(a),
                    prop_oneof![
                        6 => (prop_oneof![Just(20u32), Just(50), Just(90)], proptest::collection::vec(0u32..100, n))
                            .prop_map(|(p, v)| v.into_iter().map(|x| x < p).collect::<Vec<bool>>()),
                        1 => Just(vec![true; n]),
                        1 => Just(vec![false; n]),
                    ],
                )
            })
            .prop_map(|(a, mut pred)| {
                pred.truncate(a.len);
                FilterCase { a, pred }
            })
            .boxed()
    }
    fn test(&self, c: &FilterCase, obs: &mut Obs) -> Verdict {
        let a = &c.a;
        if !a.well_formed() || c.pred.len() != a.len {
            return Verdict::Discard("malformed case".into());
        }
        a.shape_labels(obs, "");
        let input = a.build();
        let expected = match arrow::compute::filter(&input, &BooleanArray::from(c.pred.clone())) {
            Ok(x) => x,
            Err(e) => return Verdict::Discard(format!("arrow filter refused: {}", e)),
        };
        let (edt, want) = read(&expected).expect("arrow result readable");
        let got = match catch(|| filter_simd(input.as_ref(), &c.pred)) {
            Err(p) => return Verdict::Fail(format!("filter_simd panicked: {}", p)),
            Ok(Err(e)) => {
                let e = e.to_string();
                if matches!(a.ty(), Ty::I32 | Ty::Utf8) && is_unsupported(&e) {
                    obs.label("outcome:unsupported-type-refused");
                    return Verdict::Pass;
                }
                return Verdict::Fail(format!(
                    "filter_simd = Err({}) where arrow::compute::filter returns {}",
                    e,
                    show(&want)
                ));
            }
            Ok(Ok(x)) => x,
        };
        let sel = c.pred.iter().filter(|p| **p).count();
        obs.nontrivial(sel > 0 && sel < a.len && a.nt());
        let (dt, gotc) = match read(&got) {
            Ok(x) => x,
            Err(e) => return Verdict::Fail(e),
        };
        if dt == edt && cells_eq(&gotc, &want) {
            return Verdict::Pass;
        }
        let msg = format!(
            "filter_simd != arrow::compute::filter\n  array = {}\n  pred  = {:?}\n  arrow = {}\n  simd  = {}",
            show(&a.logical()),
            &c.pred[..c.pred.len().min(24)],
            show(&want),
            show(&gotc)
        );
        // open finding: selected NULL rows are dropped (everything else right)
        let want_nonnull: Vec<Option<Cell>> = want.iter().filter(|c| c.is_some()).cloned().collect();
        if dt == edt && want_nonnull.len() < want.len() && cells_eq(&gotc, &want_nonnull) {
            obs.label("known:selected-null-dropped");
            return Verdict::Known { id: "c37-filter-drops-nulls".into(), msg };
        }
        Verdict::Fail(msg)
    }
}

// ---------------------------------------------------------------------------
// check 3: compare_simd vs arrow cmp kernels
// ---------------------------------------------------------------------------

#[derive(Clone, Copy, Debug, Serialize, Deserialize)]
pub enum Op {
    Eq,
    Ne,
    Lt,
    Le,
    Gt,
    Ge,
}

#[derive(Clone, Debug, Serialize, Deserialize)]
pub struct PairCase {
    pub l: Arr,
    pub r: Arr,
    pub op: Op,
}

fn pair(ty: BoxedStrategy<Ty>, dom: Dom, tier: Tier, mismatch_weight: u32) -> BoxedStrategy<(Arr, Arr)> {
    // `all_valid`: half of the pairs have no NULL at all, so that most cases stay
    // clear of the open "validity ignored" findings and exercise values/slicing only
    (ty, len_strategy(tier), prop_oneof![40 => Just(0usize), mismatch_weight => 1usize..4], any::<bool>(), any::<bool>())
        .prop_flat_map(move |(t, n, extra, left_longer, all_valid)| {
            let (nl, nr) = if left_longer { (n + extra, n) } else { (n, n + extra) };
            (arr_of_len(t, dom, nl), arr_of_len(t, dom, nr), Just(all_valid))
        })
        .prop_map(|(mut l, mut r, all_valid)| {
            if all_valid {
                l.valid.iter_mut().for_each(|v| *v = true);
                r.valid.iter_mut().for_each(|v| *v = true);
            }
            (l, r)
        })
        .boxed()
}

fn ieee(op: Op, x: f64, y: f64) -> bool {
    match op {
        Op::Eq => x == y,
        Op::Ne => !(x == y),
        Op::Lt => x < y,
        Op::Le => x < y || x == y,
        Op::Gt => y < x,
        Op::Ge => y < x || y == x,
    }
}

pub struct CompareSimd;
impl Check for CompareSimd {
    type Case = PairCase;
    fn name(&self) -> &'static str {
        "compare_simd"
    }
    fn rule(&self) -> &'static str {
        "Int64/Float64 operands of equal length >=1 where an operand (has NULLs and a run >=3) or is sliced"
    }
    fn cases(&self, tier: Tier) -> u32 {
        tier.pick(5000, 300_000)
    }
    fn strategy(&self, tier: Tier) -> BoxedStrategy<PairCase> {
        let ty = prop_oneof![
            8 => Just(Ty::I64),
            8 => Just(Ty::F64),
            1 => Just(Ty::I32),
            1 => Just(Ty::Utf8),
            1 => Just(Ty::Bool),
        ]
        .boxed();
        (
            pair(ty, Dom::Bounded, tier, 1),
            prop_oneof![Just(Op::Eq), Just(Op::Ne), Just(Op::Lt), Just(Op::Le), Just(Op::Gt), Just(Op::Ge)],
        )
            .prop_map(|((l, r), op)| PairCase { l, r, op })
            .boxed()
    }
    fn test(&self, c: &PairCase, obs: &mut Obs) -> Verdict {
        use arrow::compute::kernels::cmp;
        if !c.l.well_formed() || !c.r.well_formed() || c.l.ty() != c.r.ty() {
            return Verdict::Discard("malformed case".into());
        }
        c.l.shape_labels(obs, "l.");
        obs.label(format!("op:{:?}", c.op));
        let (l, r) = (c.l.build(), c.r.build());
        let expected = match c.op {
            Op::Eq => cmp::eq(&l, &r),
            Op::Ne => cmp::neq(&l, &r),
            Op::Lt => cmp::lt(&l, &r),
            Op::Le => cmp::lt_eq(&l, &r),
            Op::Gt => cmp::gt(&l, &r),
            Op::Ge => cmp::gt_eq(&l, &r),
        };
        let sop = match c.op {
            Op::Eq => CompareOp::Eq,
            Op::Ne => CompareOp::Ne,
            Op::Lt => CompareOp::Lt,
            Op::Le => CompareOp::Le,
            Op::Gt => CompareOp::Gt,
            Op::Ge => CompareOp::Ge,
        };
        let got = catch(|| compare_simd(l.as_ref(), r.as_ref(), sop));
        let got = match got {
            Err(p) => return Verdict::Fail(format!("compare_simd panicked: {}", p)),
            Ok(x) => x,
        };
        let expected = match expected {
            Err(e) => {
                // Arrow refuses (length mismatch): the helper must refuse too
                obs.label("arrow-refuses");
                return match got {
                    Err(_) => Verdict::Pass,
                    Ok(g) => Verdict::Fail(format!(
                        "compare_simd returned {} rows where the Arrow kernel refuses ({}); lengths {} vs {}",
                        g.len(),
                        e,
                        c.l.len,
                        c.r.len
                    )),
                };
            }
            Ok(x) => x,
        };
        let want = read(&(Arc::new(expected) as ArrayRef)).unwrap().1;
        let got = match got {
            Err(e) => {
                let e = e.to_string();
                if !matches!(c.l.ty(), Ty::I64 | Ty::F64) && is_unsupported(&e) {
                    obs.label("outcome:unsupported-type-refused");
                    return Verdict::Pass;
                }
                return Verdict::Fail(format!("compare_simd = Err({}) where Arrow returns {}", e, show(&want)));
            }
            Ok(g) => g,
        };
        obs.nontrivial(c.l.len > 0 && (c.l.nt() || c.r.nt()));
        let gotc = read(&(Arc::new(got) as ArrayRef)).unwrap().1;
        if cells_eq(&gotc, &want) {
            return Verdict::Pass;
        }
        let msg = format!(
            "compare_simd({:?}) != arrow cmp kernel\n  left  = {}\n  right = {}\n  arrow = {}\n  simd  = {}",
            c.op,
            show(&c.l.logical()),
            show(&c.r.logical()),
            show(&want),
            show(&gotc)
        );
        if gotc.len() != want.len() {
            return Verdict::Fail(msg);
        }
        // Search behind the open findings: classify every differing position.
        let mut validity_diff = 0usize;
        let mut ieee_diff = 0usize;
        for i in 0..want.len() {
            if opt_cell_eq(&gotc[i], &want[i]) {
                continue;
            }
            match (&want[i], &gotc[i]) {
                // Arrow says NULL (an operand is NULL), the helper says a boolean
                (None, Some(_)) if !c.l.is_valid(i) || !c.r.is_valid(i) => validity_diff += 1,
                // both operands valid floats; Arrow compares in total order, the
                // helper with IEEE operators: differ only on NaN and on -0.0 vs 0.0
                (Some(Cell::B(_)), Some(Cell::B(g))) if c.l.ty() == Ty::F64 => {
                    let (x, y) = match (c.l.phys_cell(i), c.r.phys_cell(i)) {
                        (Cell::F(x), Cell::F(y)) => (x, y),
                        _ => unreachable!(),
                    };
                    let special = x.is_nan() || y.is_nan() || (x == 0.0 && y == 0.0 && x.to_bits() != y.to_bits());
                    if special && *g == ieee(c.op, x, y) {
                        ieee_diff += 1;
                    } else {
                        return Verdict::Fail(msg);
                    }
                }
                _ => return Verdict::Fail(msg),
            }
        }
        if validity_diff > 0 {
            obs.label("known:validity-ignored");
            return Verdict::Known { id: "c37-compare-ignores-validity".into(), msg };
        }
        if ieee_diff > 0 {
            obs.label("known:ieee-vs-total-order");
            return Verdict::Known { id: "c37-compare-float-ieee-not-total-order".into(), msg };
        }
        Verdict::Fail(msg)
    }
}

// ---------------------------------------------------------------------------
// check 4: add_simd / multiply_simd vs arrow numeric kernels
// ---------------------------------------------------------------------------

#[derive(Clone, Debug, Serialize, Deserialize)]
pub struct ArithCase {
    pub l: Arr,
    pub r: Arr,
    pub mul: bool,
}

pub struct ArithSimd;
impl Check for ArithSimd {
    type Case = ArithCase;
    fn name(&self) -> &'static str {
        "arith_simd"
    }
    fn rule(&self) -> &'static str {
        "Int64/Float64 operands of equal length >=1 where an operand (has NULLs and a run >=3) or is sliced"
    }
    fn cases(&self, tier: Tier) -> u32 {
        tier.pick(5000, 300_000)
    }
    fn strategy(&self, tier: Tier) -> BoxedStrategy<ArithCase> {
        let ty = prop_oneof![
            8 => Just(Ty::I64),
            8 => Just(Ty::F64),
            1 => Just(Ty::I32),
            1 => Just(Ty::Utf8),
        ]
        .boxed();
        (pair(ty, Dom::Bounded, tier, 2), any::<bool>()).prop_map(|((l, r), mul)| ArithCase { l, r, mul }).boxed()
    }
    fn test(&self, c: &ArithCase, obs: &mut Obs) -> Verdict {
        use arrow::compute::kernels::numeric;
        if !c.l.well_formed() || !c.r.well_formed() || c.l.ty() != c.r.ty() {
            return Verdict::Discard("malformed case".into());
        }
        // the generator's bound (no integer overflow in play) — also for replayed cases
        for a in [&c.l, &c.r] {
            if let Phys::I64(v) = &a.phys {
                if v.iter().any(|x| x.unsigned_abs() > 1 << 31) {
                    return Verdict::Discard("integer operand outside the no-overflow bound".into());
                }
            }
        }
        c.l.shape_labels(obs, "l.");
        obs.label(if c.mul { "op:mul" } else { "op:add" });
        let (l, r) = (c.l.build(), c.r.build());
        let numeric_ty = matches!(c.l.ty(), Ty::I64 | Ty::F64 | Ty::I32);
        let expected = if !numeric_ty {
            Err("not numeric".to_string())
        } else if c.mul {
            numeric::mul_wrapping(&l, &r).map_err(|e| e.to_string())
        } else {
            numeric::add_wrapping(&l, &r).map_err(|e| e.to_string())
        };
        let got = catch(|| if c.mul { multiply_simd(l.as_ref(), r.as_ref()) } else { add_simd(l.as_ref(), r.as_ref()) });
        let fname = if c.mul { "multiply_simd" } else { "add_simd" };
        let expected = match expected {
            Err(e) => {
                obs.label("arrow-refuses");
                let mismatch = c.l.len != c.r.len && matches!(c.l.ty(), Ty::I64 | Ty::F64);
                return match got {
                    Ok(Err(_)) => Verdict::Pass,
                    // open finding: operand lengths are never compared — a longer
                    // left operand indexes past the right one (panic), a shorter one
                    // silently truncates
                    Err(p) if mismatch && c.l.len > c.r.len => Verdict::Known {
                        id: "c37-arith-length-unchecked".into(),
                        msg: format!("{} with lengths {} vs {} panicked: {}", fname, c.l.len, c.r.len, p),
                    },
                    Ok(Ok(g)) if mismatch && c.l.len < c.r.len && g.len() == c.l.len => Verdict::Known {
                        id: "c37-arith-length-unchecked".into(),
                        msg: format!(
                            "{} with lengths {} vs {} returned {} rows; the Arrow kernel refuses ({})",
                            fname,
                            c.l.len,
                            c.r.len,
                            g.len(),
                            e
                        ),
                    },
                    Err(p) => Verdict::Fail(format!("{} panicked: {}", fname, p)),
                    Ok(Ok(g)) => Verdict::Fail(format!(
                        "{} returned {} rows where the Arrow kernel refuses ({})",
                        fname,
                        g.len(),
                        e
                    )),
                };
            }
            Ok(x) => x,
        };
        let (edt, want) = read(&expected).unwrap();
        let got = match got {
            Err(p) => return Verdict::Fail(format!("{} panicked: {}", fname, p)),
            Ok(Err(e)) => {
                let e = e.to_string();
                if !matches!(c.l.ty(), Ty::I64 | Ty::F64) && is_unsupported(&e) {
                    obs.label("outcome:unsupported-type-refused");
                    return Verdict::Pass;
                }
                return Verdict::Fail(format!("{} = Err({}) where Arrow returns {}", fname, e, show(&want)));
            }
            Ok(Ok(g)) => g,
        };
        obs.nontrivial(c.l.len > 0 && (c.l.nt() || c.r.nt()));
        let (dt, gotc) = match read(&got) {
            Ok(x) => x,
            Err(e) => return Verdict::Fail(e),
        };
        if dt == edt && cells_eq(&gotc, &want) {
            return Verdict::Pass;
        }
        let msg = format!(
            "{} != arrow numeric kernel\n  left  = {}\n  right = {}\n  arrow = {}\n  simd  = {}",
            fname,
            show(&c.l.logical()),
            show(&c.r.logical()),
            show(&want),
            show(&gotc)
        );
        if dt != edt || gotc.len() != want.len() {
            return Verdict::Fail(msg);
        }
        // behind the open finding: every position where Arrow is valid must agree;
        // the only tolerated difference is a non-NULL where an operand is NULL
        let mut validity_diff = 0;
        for i in 0..want.len() {
            if opt_cell_eq(&gotc[i], &want[i]) {
                continue;
            }
            match (&want[i], &gotc[i]) {
                (None, Some(_)) if !c.l.is_valid(i) || !c.r.is_valid(i) => validity_diff += 1,
                _ => return Verdict::Fail(msg),
            }
        }
        if validity_diff > 0 {
            obs.label("known:validity-ignored");
            return Verdict::Known { id: "c37-arith-ignores-validity".into(), msg };
        }
        Verdict::Fail(msg)
    }
}

// ---------------------------------------------------------------------------
// check 5: sum_simd / count_simd vs arrow aggregate kernels
// ---------------------------------------------------------------------------

#[derive(Clone, Debug, Serialize, Deserialize)]
pub struct AggCase {
    pub a: Arr,
}

pub struct AggSimd;
impl Check for AggSimd {
    type Case = AggCase;
    fn name(&self) -> &'static str {
        "agg_simd"
    }
    fn rule(&self) -> &'static str {
        "non-empty array that (has NULLs and a run >=3) or is sliced"
    }
    fn cases(&self, tier: Tier) -> u32 {
        tier.pick(5000, 300_000)
    }
    fn strategy(&self, tier: Tier) -> BoxedStrategy<AggCase> {
        let ty = prop_oneof![
            8 => Just(Ty::I64),
            8 => Just(Ty::F64),
            1 => Just(Ty::I32),
            1 => Just(Ty::Utf8),
            1 => Just(Ty::Bool),
        ]
        .boxed();
        arr(ty, Dom::Exact, tier).prop_map(|a| AggCase { a }).boxed()
    }
    fn test(&self, c: &AggCase, obs: &mut Obs) -> Verdict {
        let a = &c.a;
        if !a.well_formed() {
            return Verdict::Discard("malformed case".into());
        }
        match &a.phys {
            Phys::I64(v) if v.iter().any(|x| x.unsigned_abs() > 1 << 31) => {
                return Verdict::Discard("integer outside the no-overflow bound".into())
            }
            Phys::F64(v) if v.iter().any(|x| !(x.0.abs() <= 1048576.0 && (x.0 * 8.0).fract() == 0.0)) => {
                return Verdict::Discard("float addend not exactly summable".into())
            }
            _ => {}
        }
        a.shape_labels(obs, "");
        let input = a.build();
        // count: every type
        let want_count = (a.len - a.null_count()) as i64;
        if want_count != (input.len() - input.null_count()) as i64 {
            return Verdict::Fail("harness: built array disagrees with the case about its NULL count".into());
        }
        match catch(|| count_simd(input.as_ref())) {
            Err(p) => return Verdict::Fail(format!("count_simd panicked: {}", p)),
            Ok(Err(e)) => return Verdict::Fail(format!("count_simd = Err({})", e)),
            Ok(Ok(n)) => {
                if n != want_count {
                    return Verdict::Fail(format!(
                        "count_simd = {} but len - null_count = {} for {}",
                        n,
                        want_count,
                        show(&a.logical())
                    ));
                }
            }
        }
        obs.nontrivial(a.nt());
        // sum
        let want: Option<Cell> = match a.ty() {
            Ty::I64 => arrow::compute::sum(input.as_any().downcast_ref::<Int64Array>().unwrap()).map(Cell::I),
            Ty::F64 => arrow::compute::sum(input.as_any().downcast_ref::<Float64Array>().unwrap()).map(Cell::F),
            _ => {
                return match catch(|| sum_simd(input.as_ref())) {
                    Ok(Err(e)) if is_unsupported(&e.to_string()) => {
                        obs.label("outcome:unsupported-type-refused");
                        Verdict::Pass
                    }
                    Ok(Err(e)) => Verdict::Fail(format!("sum_simd = Err({})", e)),
                    Err(p) => Verdict::Fail(format!("sum_simd panicked: {}", p)),
                    Ok(Ok(v)) => Verdict::Fail(format!("sum_simd of a {:?} array returned {:?}", a.ty(), v)),
                }
            }
        };
        let got = match catch(|| sum_simd(input.as_ref())) {
            Err(p) => return Verdict::Fail(format!("sum_simd panicked: {}", p)),
            Ok(Err(e)) => return Verdict::Fail(format!("sum_simd = Err({}) where arrow sum = {:?}", e, want)),
            Ok(Ok(v)) => v,
        };
        let gotc: Option<Cell> = match (&got, a.ty()) {
            (CodecScalarValue::Null, _) => None,
            (CodecScalarValue::Int64(v), Ty::I64) => v.map(Cell::I),
            (CodecScalarValue::Float64(v), Ty::F64) => v.map(Cell::F),
            _ => return Verdict::Fail(format!("sum_simd of {:?} returned {:?}", a.ty(), got)),
        };
        let same = match (&gotc, &want) {
            (None, None) => true,
            (Some(Cell::I(x)), Some(Cell::I(y))) => x == y,
            (Some(Cell::F(x)), Some(Cell::F(y))) => x == y || (x.is_nan() && y.is_nan()),
            _ => false,
        };
        if same {
            return Verdict::Pass;
        }
        let msg = format!("sum_simd = {:?} but arrow::compute::sum = {:?} for {}", got, want, show(&a.logical()));
        // open finding: no valid element (empty or all-NULL) sums to 0, Arrow returns None
        let zero = match &gotc {
            Some(Cell::I(0)) => true,
            Some(Cell::F(x)) => *x == 0.0,
            _ => false,
        };
        if want.is_none() && want_count == 0 && zero {
            obs.label("known:empty-sum-is-zero");
            return Verdict::Known { id: "c37-sum-of-no-values-is-zero".into(), msg };
        }
        Verdict::Fail(msg)
    }
}

pub fn property() -> Property {
    Property {
        id: "C37",
        level: "exploration",
        assumptions: &[
            "a helper's explicit 'Unsupported type' error for a type it does not dispatch on (e.g. filter_simd on Utf8, sum_simd on Boolean) is a refusal, not a wrong answer; encode_optimal is total by design (it has a Flat fallback), so an Err/panic there on one of the five quantified types counts as a failed round trip",
            "integer operands of add/multiply/sum are bounded by 2^31 so overflow behaviour (wrapping vs panic) is not in play; float addends of sum are multiples of 1/8 below 2^20 so the summation order does not matter",
            "the 'equivalent Arrow kernels' are arrow::compute::filter, kernels::cmp::{eq,neq,lt,lt_eq,gt,gt_eq}, kernels::numeric::{add_wrapping,mul_wrapping}, aggregate::sum and len-null_count (arrow 58)",
            "equality of arrays is logical: data type, length, validity and values (floats by bits, any NaN = NaN); the content of slots under a NULL is not compared",
        ],
        checks: vec![
            Box::new(EncodeRoundTrip),
            Box::new(FilterSimd),
            Box::new(CompareSimd),
            Box::new(ArithSimd),
            Box::new(AggSimd),
        ],
    }
}
