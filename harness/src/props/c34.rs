//! C34 — not implemented yet.
use super::Property;

pub fn property() -> Property {
    Property { id: "C34", level: "exploration", assumptions: &[], checks: vec![] }
}
