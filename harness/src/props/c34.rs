//! C34 — Flight and HTTP return the same answer.
//!
//! A case = a table spec (written once as Parquet, registered by every node),
//! a single node or a 2–3-node in-process cluster on ephemeral ports, a few
//! statements (each with a distribution mode spelled independently for the two
//! doors) and a few bad tickets/commands.
//!
//! Oracle per statement: `POST /sql?format=arrow&distributed=<m>` versus
//! `GetFlightInfo(cmd)` → `DoGet(ticket)` on the same node while the node's
//! membership view is frozen: same schema (names/types), same rows (sequence
//! under a total ORDER BY, else multiset), Flight `metadata.distributed` =
//! `x-qe-distributed`, trailer `rows` = rows streamed = `x-qe-rows` = rows in
//! the HTTP body, the metadata rides on the LAST message only, no data message
//! exceeds 4096 rows; a statement that fails must fail on both doors with
//! corresponding status classes (and, for local execution, with the class the
//! documented mapping assigns to the engine's own error variant).
//! `GetSchema(cmd)` and `FlightInfo.schema` must describe the streamed batches.
//! Bad tickets (malformed JSON, > 1 MiB, v != 1, unknown mode) ⇒
//! `InvalidArgument` and the node's query counter does not move.
#[path = "c34_util.rs"]
mod util;

use super::Property;
use crate::data::{self, batches_to_rows, multiset_eq, rows_eq, TempDir};
use crate::engine::block_on;
use crate::runner::*;
use proptest::prelude::*;
use query_engine::distributed::ServerHandle;
use query_engine::error::QueryError;
use serde::{Deserialize, Serialize};
use serde_json::Value as J;
use util::*;

const MIB: usize = 1024 * 1024;

#[derive(Clone, Copy, Debug, Serialize, Deserialize, PartialEq, Eq)]
pub enum Mode {
    Auto,
    Force,
    Off,
}

/// How the statement travels in the GetFlightInfo command descriptor.
#[derive(Clone, Debug, Serialize, Deserialize, PartialEq)]
pub enum FlightCmd {
    /// raw SQL bytes (mode auto)
    Raw,
    /// `{"sql": ..}` without a mode field (mode auto)
    Json,
    /// `{"sql": .., "mode": m}`
    JsonMode(String),
}

#[derive(Clone, Debug, Serialize, Deserialize)]
pub struct Stmt {
    pub sql: String,
    pub kind: String,
    /// the statement's ORDER BY makes the row order total
    pub total_order: bool,
    pub mode: Mode,
    /// `?distributed=<..>` on HTTP; None = parameter absent (auto)
    pub http_mode: Option<String>,
    pub flight_mode: FlightCmd,
    /// DoGet (and the HTTP request) go to the node after the one that minted
    /// the ticket: tickets are documented as self-contained
    pub cross_node: bool,
}

#[derive(Clone, Debug, Serialize, Deserialize)]
pub struct BadTicket {
    /// text of the ticket/command; `@PAD@` is replaced by spaces so that the
    /// whole is `pad_to` bytes long (when longer than the text itself)
    pub body: String,
    pub pad_to: usize,
    /// false: DoGet ticket; true: GetFlightInfo command
    pub as_command: bool,
    pub why: String,
}

#[derive(Clone, Debug, Serialize, Deserialize)]
pub struct C34Case {
    pub nodes: u8,
    pub entry: u8,
    pub spec: TableSpec,
    pub dim_rows: u8,
    pub stmts: Vec<Stmt>,
    pub tickets: Vec<BadTicket>,
}

// ---------------------------------------------------------------------------
// generator
// ---------------------------------------------------------------------------

fn http_spelling(m: Mode, sel: u8) -> Option<String> {
    let v: &[Option<&str>] = match m {
        Mode::Auto => &[None, Some("auto")],
        Mode::Force => &[Some("1"), Some("true"), Some("yes"), Some("force")],
        Mode::Off => &[Some("0"), Some("false"), Some("no"), Some("local")],
    };
    v[sel as usize % v.len()].map(String::from)
}
fn flight_spelling(m: Mode, sel: u8) -> FlightCmd {
    match m {
        Mode::Auto => match sel % 3 {
            0 => FlightCmd::Raw,
            1 => FlightCmd::Json,
            _ => FlightCmd::JsonMode("auto".into()),
        },
        Mode::Force => FlightCmd::JsonMode(["force", "1", "true", "yes"][sel as usize % 4].into()),
        Mode::Off => FlightCmd::JsonMode(["off", "0", "false", "no", "local"][sel as usize % 5].into()),
    }
}

/// (sql, kind, total_order). `a`,`b` are thresholds already scaled to the table.
fn render(tpl: u8, a: usize, b: usize) -> (String, &'static str, bool) {
    match tpl {
        // ---- shapes plan_distributed accepts (scatter: concat / top-n / two-phase)
        0 => (format!("SELECT id, k, v, s FROM t WHERE id < {a}"), "concat_filter", false),
        1 => ("SELECT * FROM t".into(), "concat_star", false),
        2 => (format!("SELECT id, k, v, s, dt FROM t WHERE id >= {a} ORDER BY id"), "sorted_all", true),
        3 => (format!("SELECT id, s FROM t ORDER BY id DESC LIMIT {a} OFFSET {}", b % 7), "topn", true),
        4 => ("SELECT k, COUNT(*) AS c, SUM(v) AS sv, MIN(id) AS lo, MAX(id) AS hi FROM t GROUP BY k".into(), "group_agg", false),
        5 => (
            format!("SELECT k, COUNT(*) AS c, SUM(v) AS sv, AVG(v) AS av, MAX(s) AS hs FROM t WHERE id < {a} GROUP BY k ORDER BY k"),
            "group_agg_sorted",
            true,
        ),
        6 => (
            format!("SELECT COUNT(*) AS c, COUNT(v) AS cv, SUM(v) AS sv, AVG(v) AS av, MIN(s) AS ls, MAX(dt) AS hd FROM t WHERE id < {a}"),
            "global_agg",
            true,
        ),
        7 => (
            format!("SELECT t.id, d.name FROM t JOIN d ON t.k = d.k WHERE t.id < {a} ORDER BY t.id"),
            "join_dim_sorted",
            true,
        ),
        // (the unaliased qualified key is the trigger of known finding
        // `flight-schema-two-phase-unqualified-names`; kept rare)
        8 if b % 5 == 0 => ("SELECT d.name, COUNT(*) AS c FROM t JOIN d ON t.k = d.k GROUP BY d.name".into(), "join_dim_agg_qualified", false),
        8 => ("SELECT d.name AS dn, COUNT(*) AS c FROM t JOIN d ON t.k = d.k GROUP BY d.name".into(), "join_dim_agg", false),
        9 => (format!("SELECT id, UPPER(s) AS u, v * 2 AS w FROM t WHERE k = {} AND id < {a}", b % 5), "concat_exprs", false),
        // ---- zero rows
        10 => ("SELECT id, s FROM t WHERE 1 = 0".into(), "empty_false", true),
        11 => ("SELECT id, k, s FROM t WHERE id < 0 ORDER BY id".into(), "empty_sorted", true),
        12 => ("SELECT k, COUNT(*) AS c FROM t WHERE id < 0 GROUP BY k".into(), "empty_group", true),
        // ---- gather-only shapes
        13 => ("SELECT DISTINCT k FROM t ORDER BY k".into(), "distinct_sorted", true),
        14 => ("SELECT COUNT(DISTINCT k) AS n FROM t".into(), "count_distinct", true),
        15 => (
            format!("WITH x AS (SELECT id, k FROM t WHERE id < {a}) SELECT k, COUNT(*) AS c FROM x GROUP BY k"),
            "cte_agg",
            false,
        ),
        16 => (format!("SELECT id FROM t WHERE id < {a} UNION ALL SELECT k FROM d"), "union_all", false),
        17 => (
            format!("SELECT id, ROW_NUMBER() OVER (ORDER BY id) AS rn FROM t WHERE id < {a} ORDER BY id"),
            "window_sorted",
            true,
        ),
        18 => (
            format!("SELECT x.id, y.id AS yid FROM t x JOIN t y ON x.id = y.id WHERE x.id < {a} ORDER BY x.id"),
            "self_join_sorted",
            true,
        ),
        19 => (format!("SELECT id, s FROM t WHERE k IN (SELECT k FROM d WHERE k < {}) ORDER BY id", b % 6), "in_subquery_sorted", true),
        // ---- nothing to distribute
        20 => ("SELECT 1 AS one".into(), "no_table", true),
        // ---- errors, one per class
        21 => (["SELEC 1", "SELECT FROM WHERE", "SELECT id FROM t WHERE", "SELECT (id FROM t"][a % 4].into(), "err_parse", true),
        22 => ("SELECT * FROM nope".into(), "err_table", true),
        23 => (format!("SELECT nope FROM t WHERE id < {a}"), "err_column", true),
        24 => (
            [
                "SELECT SUM(s) AS x FROM t",
                "SELECT id FROM t WHERE s",
                "SELECT id + s AS x FROM t",
                "SELECT id FROM t WHERE id LIKE 'a%'",
                "SELECT id FROM t WHERE NOT s",
                "SELECT id FROM t WHERE (id AND k)",
            ][a % 6]
                .into(),
            "err_type",
            true,
        ),
        27 => (
            ["SELECT SUM(id) OVER w AS x FROM t", "SELECT id FROM t ORDER BY 9", "SELECT k, id FROM t GROUP BY k", "SELECT GROUPING(id) AS g FROM t"][a % 4].into(),
            "err_bind",
            true,
        ),
        25 => (
            ["DROP TABLE t", "CREATE TABLE zz (a INT)", "INSERT INTO t VALUES (1)", "DELETE FROM t"][a % 4].into(),
            "err_not_select",
            true,
        ),
        26 => (["SELECT CAST(s AS BIGINT) AS x FROM t", "SELECT id / 0 AS x FROM t", "SELECT CAST('zz' AS DATE) AS x FROM t"][a % 3].into(), "err_runtime", false),
        _ => ("SELECT id FROM t ORDER BY id".into(), "sorted_ids", true),
    }
}

fn stmt_strategy(rows: usize) -> impl Strategy<Value = Stmt> {
    let tpl = prop_oneof![
        10 => 0u8..10,
        2 => 10u8..13,
        5 => 13u8..20,
        1 => Just(20u8),
        5 => 21u8..28,
    ];
    (tpl, any::<u16>(), any::<u16>(), prop_oneof![Just(Mode::Auto), Just(Mode::Force), Just(Mode::Off)], any::<u8>(), any::<u8>(), prop::bool::weighted(0.25))
        .prop_map(move |(tpl, fa, fb, mode, s1, s2, cross_node)| {
            // thresholds: most of the table (so big tables return >4096 rows), or anything
            let a = if fa & 1 == 0 { rows + 1 - data::pick_idx(fa, rows / 8 + 1) } else { data::pick_idx(fa, rows + 2) };
            let (sql, kind, total_order) = render(tpl, a, fb as usize);
            Stmt {
                sql,
                kind: kind.to_string(),
                total_order,
                mode,
                http_mode: http_spelling(mode, s1),
                flight_mode: flight_spelling(mode, s2),
                cross_node,
            }
        })
}

fn ticket_strategy() -> impl Strategy<Value = BadTicket> {
    let ok_sql = "SELECT id FROM t WHERE id < 3";
    let t = |body: String, pad_to: usize, as_command: bool, why: &str| BadTicket { body, pad_to, as_command, why: why.to_string() };
    let over = prop_oneof![Just(MIB + 1), (MIB + 2..MIB + 5000), Just(MIB + MIB / 2), Just(2 * MIB + 17)];
    prop_oneof![
        // malformed
        3 => prop_oneof![
            Just("not json"), Just("{"), Just(""), Just("[1,2]"), Just("null"), Just("{\"v\":1}"),
            Just("{\"v\":\"1\",\"sql\":\"SELECT id FROM t\"}"), Just("{\"v\":1,\"sql\":5}"),
            Just("{\"v\":1,\"sql\":\"SELECT id FROM t\",\"mode\":7}"), Just("{\"v\":-1,\"sql\":\"SELECT id FROM t\"}"),
            Just("{\"v\":1,\"sql\":\"SELECT id FROM t\""), Just("\u{feff}{\"v\":1,\"sql\":\"SELECT id FROM t\"}")
        ].prop_map(move |b| t(b.to_string(), 0, false, "malformed")),
        // version
        3 => prop_oneof![Just(0u64), Just(2), Just(3), Just(10), Just(u32::MAX as u64), Just(u32::MAX as u64 + 2)]
            .prop_map(move |v| t(format!("{{\"v\":{v},\"sql\":\"{ok_sql}\",\"mode\":\"auto\"}}"), 0, false, "version")),
        // mode
        3 => (prop_oneof![Just("maybe"), Just("AUTO"), Just(""), Just("2"), Just("on"), Just("auto "), Just("distributed"), Just("Force")], any::<bool>())
            .prop_map(move |(m, c)| if c {
                t(format!("{{\"sql\":\"{ok_sql}\",\"mode\":\"{m}\"}}"), 0, true, "mode")
            } else {
                t(format!("{{\"v\":1,\"sql\":\"{ok_sql}\",\"mode\":\"{m}\"}}"), 0, false, "mode")
            }),
        // oversized but otherwise perfectly valid (padding inside or after the JSON)
        3 => (over.clone(), 0u8..3, any::<bool>()).prop_map(move |(n, w, c)| {
            let body = match (c, w) {
                (false, 0) => format!("{{\"v\":1,\"sql\":\"{ok_sql}@PAD@\",\"mode\":\"off\"}}"),
                (false, 1) => format!("{{\"v\":1,\"sql\":\"{ok_sql}\",\"mode\":\"off\"}}@PAD@"),
                (false, _) => format!("{{\"v\":1,@PAD@\"sql\":\"{ok_sql}\"}}"),
                (true, 0) => format!("{{\"sql\":\"{ok_sql}@PAD@\",\"mode\":\"off\"}}"),
                (true, 1) => format!("{ok_sql}@PAD@"),
                (true, _) => format!("{{@PAD@\"sql\":\"{ok_sql}\"}}"),
            };
            t(body, n, c, "oversized")
        }),
        // malformed commands
        1 => prop_oneof![Just("{"), Just("{\"sql\":5}"), Just("{\"mode\":\"auto\"}"), Just("{\"sql\":\"   \"}"), Just("   "), Just("{\"sql\":\"SELECT id FROM t\",}")]
            .prop_map(move |b| t(b.to_string(), 0, true, "malformed")),
    ]
}

fn case_strategy(tier: Tier) -> BoxedStrategy<C34Case> {
    let big_hi = tier.pick(6000usize, 20000);
    let wide_hi = tier.pick(20_000u32, 400_000);
    let rows = prop_oneof![
        1 => Just(0usize),
        4 => 1usize..300,
        4 => 4097usize..big_hi,
    ];
    let spec = (
        rows,
        1u32..8,
        prop_oneof![Just(0u32), Just(3), Just(7)],
        0u16..40,
        prop_oneof![3 => Just((0u32, 0u32)), 2 => (40u32..3000, 1000u32..wide_hi)],
        any::<u32>(),
        prop_oneof![Just(64usize), Just(1000), Just(5000), Just(1 << 20)],
        1u8..4,
    )
        .prop_map(|(rows, kmod, null_every, str_width, (wide_every, wide_len), salt, rg_size, files)| TableSpec {
            rows,
            kmod,
            null_every,
            str_width,
            wide_every,
            wide_len,
            salt,
            // tiny row groups over a big table only cost time
            rg_size: if rows > 1000 { rg_size.max(1000) } else { rg_size },
            files,
            k_not_null: false,
        });
    (prop_oneof![2 => Just(1u8), 3 => Just(2u8), 4 => Just(3u8)], 0u8..3, spec, 0u8..7)
        .prop_flat_map(|(nodes, entry, spec, dim_rows)| {
            let rows = spec.rows;
            (
                Just(nodes),
                Just(entry),
                Just(spec),
                Just(dim_rows),
                proptest::collection::vec(stmt_strategy(rows), 1..6),
                proptest::collection::vec(ticket_strategy(), 0..3),
            )
        })
        .prop_map(|(nodes, entry, spec, dim_rows, stmts, tickets)| C34Case { nodes, entry, spec, dim_rows, stmts, tickets })
        .boxed()
}

// ---------------------------------------------------------------------------
// the check
// ---------------------------------------------------------------------------

#[derive(Default)]
struct Report {
    labels: Vec<String>,
    nontrivial: bool,
    known: Option<(String, String)>,
}

fn mode_name(m: Mode) -> &'static str {
    match m {
        Mode::Auto => "auto",
        Mode::Force => "force",
        Mode::Off => "off",
    }
}

fn flight_cmd(s: &Stmt) -> Vec<u8> {
    match &s.flight_mode {
        FlightCmd::Raw => s.sql.as_bytes().to_vec(),
        FlightCmd::Json => serde_json::json!({"sql": s.sql}).to_string().into_bytes(),
        FlightCmd::JsonMode(m) => serde_json::json!({"sql": s.sql, "mode": m}).to_string().into_bytes(),
    }
}

/// status classes of the two doors that correspond (server.rs `sql`, flight.rs
/// `query_error_status` / `exec_error_status`)
fn corresponds(http: u16, code: tonic::Code) -> bool {
    use tonic::Code::*;
    match http {
        501 => code == Unimplemented,
        503 => code == Unavailable,
        500 => code == Internal,
        400 => matches!(code, InvalidArgument | NotFound | Internal),
        _ => false,
    }
}

/// documented mapping of the engine's own error variant
fn expected_classes(e: &QueryError) -> (u16, tonic::Code) {
    use tonic::Code::*;
    match e {
        QueryError::Parse(_) | QueryError::Bind(_) | QueryError::Type(_) | QueryError::Plan(_) => (400, InvalidArgument),
        QueryError::TableNotFound(_) | QueryError::ColumnNotFound(_) => (400, NotFound),
        QueryError::NotImplemented(_) => (501, Unimplemented),
        _ => (400, Internal),
    }
}

fn variant_name(e: &QueryError) -> String {
    let d = format!("{e:?}");
    d.split(|c: char| !c.is_alphanumeric()).next().unwrap_or("?").to_string()
}

enum Stop {
    Fail(String),
    Discard(String),
}

fn queries_total(resp_body: &[u8]) -> Option<u64> {
    serde_json::from_slice::<J>(resp_body).ok()?.get("node")?.get("queries_total")?.as_u64()
}

async fn run_case(c: &C34Case, rep: &mut Report) -> Result<(), Stop> {
    let n = c.nodes.clamp(1, 3) as usize;
    let tmp = TempDir::new("c34");
    let t = gen_table("t", &c.spec);
    let d = gen_dim("d", c.dim_rows as usize);
    let dirs = vec![
        ("t".to_string(), write_table(tmp.path(), &t, c.spec.rg_size, c.spec.files)),
        ("d".to_string(), write_table(tmp.path(), &d, 1 << 20, 1)),
    ];
    let local = local_ctx(&dirs).map_err(|e| Stop::Discard(format!("local context: {e}")))?;

    let mut handles: Vec<ServerHandle> = vec![];
    for i in 0..n {
        match spawn_node(i as u64, ok_loader(dirs.clone())).await {
            Ok(h) => handles.push(h),
            Err(e) => {
                shutdown_all(handles).await;
                return Err(Stop::Discard(format!("spawn: {e}")));
            }
        }
    }
    let r = drive(c, rep, &handles, &local).await;
    shutdown_all(handles).await;
    drop(tmp);
    r
}

async fn drive(c: &C34Case, rep: &mut Report, handles: &[ServerHandle], local: &query_engine::ExecutionContext) -> Result<(), Stop> {
    let n = handles.len();
    let peers: Vec<String> = handles.iter().map(|h| h.address().to_string()).collect();
    for h in handles {
        h.set_peers(peers.clone());
    }
    let converged = wait_until(
        || handles.iter().all(|h| h.state().tables_loaded() && h.state().membership.resolved() && up_count(&view(h)) == n && view(h).len() == n),
        || {
            for h in handles {
                if up_count(&view(h)) != n {
                    h.set_peers(peers.clone());
                }
            }
        },
        STATE_TIMEOUT,
    )
    .await;
    if !converged {
        return Err(Stop::Discard("cluster did not converge".into()));
    }
    rep.labels.push(format!("nodes:{n}"));

    let mut clients = vec![];
    for h in handles {
        let Some(fa) = h.flight_addr() else {
            return Err(Stop::Fail("node has no Flight endpoint although flight_bind was left at its default".into()));
        };
        clients.push(flight_client(fa).await.map_err(Stop::Discard)?);
    }

    let entry = (c.entry as usize).min(n - 1);
    for s in &c.stmts {
        let exec = if s.cross_node { (entry + 1) % n } else { entry };
        check_stmt(s, rep, handles, &mut clients, entry, exec, local).await.map_err(|e| match e {
            Stop::Fail(m) => Stop::Fail(format!(
                "[{} nodes, mode {}, http {:?}, flight {:?}, info on node {entry}, DoGet+HTTP on node {exec}] `{}`\n{m}",
                n,
                mode_name(s.mode),
                s.http_mode,
                s.flight_mode,
                s.sql
            )),
            d => d,
        })?;
    }
    for b in &c.tickets {
        check_ticket(b, rep, &handles[entry], &mut clients[entry]).await?;
    }
    Ok(())
}

async fn check_stmt(
    s: &Stmt,
    rep: &mut Report,
    handles: &[ServerHandle],
    clients: &mut [arrow_flight::client::FlightClient],
    entry: usize,
    exec: usize,
    local: &query_engine::ExecutionContext,
) -> Result<(), Stop> {
    let n = handles.len();
    rep.labels.push(format!("kind:{}", s.kind));
    rep.labels.push(format!("mode:{}", mode_name(s.mode)));
    let view_before = view(&handles[exec]);

    // ---- HTTP door
    let path = match &s.http_mode {
        None => "/sql?format=arrow".to_string(),
        Some(m) => format!("/sql?format=arrow&distributed={m}"),
    };
    let addr = handles[exec].local_addr().to_string();
    let http = match http_post(&addr, &path, &s.sql).await {
        Ok(r) => r,
        Err(e) if is_timeout(&e) => return Err(Stop::Discard("http timeout".into())),
        Err(e1) => match http_post(&addr, &path, &s.sql).await {
            Ok(_) => return Err(Stop::Discard(format!("transient http transport error: {e1}"))),
            Err(e2) if is_timeout(&e2) => return Err(Stop::Discard("http timeout".into())),
            Err(e2) => return Err(Stop::Fail(format!("POST {path} gets no HTTP response at all (twice): {e1}; {e2}"))),
        },
    };

    // ---- Flight door
    let cmd = flight_cmd(s);
    let flight = if entry == exec {
        flight_query(&mut clients[entry], None, cmd.clone()).await
    } else {
        let (a, b) = if entry < exec {
            let (l, r) = clients.split_at_mut(exec);
            (&mut l[entry], &mut r[0])
        } else {
            let (l, r) = clients.split_at_mut(entry);
            (&mut r[0], &mut l[exec])
        };
        flight_query(a, Some(b), cmd.clone()).await
    };
    let get_schema = flight_get_schema(&mut clients[entry], cmd.clone()).await;

    if view(&handles[exec]) != view_before {
        return Err(Stop::Discard("membership view changed while the statement ran".into()));
    }

    let http_ok = http.status == 200;
    match flight {
        FlightOutcome::Timeout => Err(Stop::Discard("flight timeout".into())),
        FlightOutcome::Broken { stage, msg } => Err(Stop::Fail(format!(
            "Flight {stage} reply is not a decodable Flight exchange: {msg}\n(HTTP answered {} {})",
            http.status,
            if http_ok { String::new() } else { error_text(&http) }
        ))),
        FlightOutcome::Status { stage, code, msg } => {
            rep.labels.push(format!("flight_err:{code:?}@{stage}"));
            if http_ok {
                return Err(Stop::Fail(format!(
                    "HTTP answers 200 ({} rows, x-qe-distributed={:?}) but Flight {stage} fails with {code:?}: {msg}",
                    http.header("x-qe-rows").unwrap_or("?"),
                    http.header("x-qe-distributed")
                )));
            }
            rep.labels.push(format!("http_err:{}", http.status));
            rep.labels.push(format!("err:{}:{}:{code:?}", s.kind, http.status));
            if !corresponds(http.status, code) {
                return Err(Stop::Fail(format!(
                    "status classes do not correspond: HTTP {} ({}) vs Flight {code:?}@{stage} ({msg})",
                    http.status,
                    error_text(&http)
                )));
            }
            // independent: the class the documented mapping gives the engine's own error
            if s.mode == Mode::Off {
                let planned = local.physical_plan(&s.sql).map(|_| ());
                let err = match planned {
                    Err(e) => Some(e),
                    Ok(()) => local.sql(&s.sql).await.err(),
                };
                if let Some(e) = err {
                    let (want_http, want_code) = expected_classes(&e);
                    rep.labels.push(format!("engine_err:{}", variant_name(&e)));
                    if http.status != want_http || code != want_code {
                        return Err(Stop::Fail(format!(
                            "the engine fails this statement with {} (`{e}`), which the documented mapping turns into HTTP {want_http} / Flight {want_code:?}; observed HTTP {} / Flight {code:?}@{stage}",
                            variant_name(&e),
                            http.status
                        )));
                    }
                } else {
                    rep.labels.push("both_fail_but_local_engine_succeeds".into());
                }
            }
            Ok(())
        }
        FlightOutcome::Ok(ans) => {
            if !http_ok {
                let frows: usize = ans.batches.iter().map(|b| b.num_rows()).sum();
                return Err(Stop::Fail(format!(
                    "Flight streams an answer ({frows} rows, metadata {}) but HTTP fails with {} {}",
                    ans.metas.first().map(|m| String::from_utf8_lossy(m).to_string()).unwrap_or_default(),
                    http.status,
                    error_text(&http)
                )));
            }
            compare_ok(s, rep, n, &http, &ans, &get_schema)
        }
    }
}

fn compare_ok(s: &Stmt, rep: &mut Report, n: usize, http: &query_engine::distributed::HttpResponse, ans: &FlightAnswer, get_schema: &SchemaOutcome) -> Result<(), Stop> {
    let fail = |m: String| Err(Stop::Fail(m));
    // --- HTTP body
    let (hschema, hbatches) = match decode_ipc(&http.body) {
        Ok(x) => x,
        Err(e) => return fail(format!("HTTP 200 body is not an Arrow IPC stream: {e}")),
    };
    let hrows = batches_to_rows(&hbatches);
    let frows = batches_to_rows(&ans.batches);

    // --- message sequence of DoGet
    let Some(fschema) = ans.stream_schema.clone() else {
        return fail("DoGet stream carries no schema message".into());
    };
    if ans.msgs.first().map(|m| m.kind) != Some("schema") {
        return fail(format!("DoGet stream does not start with the schema: {:?}", ans.msgs.iter().take(4).collect::<Vec<_>>()));
    }
    let metas_at: Vec<usize> = ans.msgs.iter().enumerate().filter(|(_, m)| m.has_meta).map(|(i, _)| i).collect();
    if metas_at.len() != 1 || metas_at[0] != ans.msgs.len() - 1 {
        return fail(format!(
            "execution metadata must ride on the trailing message only; stream has {} messages, metadata on message(s) {:?}",
            ans.msgs.len(),
            metas_at
        ));
    }
    if let Some(big) = ans.msgs.iter().find(|m| m.rows > 4096) {
        return fail(format!("a DoGet data message carries {} rows (> 4096, the documented re-slicing bound)", big.rows));
    }
    let meta: J = match serde_json::from_slice(&ans.metas[0]) {
        Ok(j) => j,
        Err(e) => return fail(format!("trailer metadata is not JSON: {e}")),
    };

    // --- schema
    let hs = schema_sig(&hschema);
    let fs = schema_sig(&fschema);
    if hs != fs {
        return fail(format!("schemas differ: HTTP [{}] vs Flight [{}]", fmt_sig(&hs), fmt_sig(&fs)));
    }

    // --- rows
    let same = if s.total_order { rows_eq(&hrows, &frows, 0.0) } else { multiset_eq(&hrows, &frows, 0.0) };
    if !same {
        return fail(format!(
            "rows differ ({}): HTTP {} rows, Flight {} rows\nHTTP:\n{}Flight:\n{}",
            if s.total_order { "as sequences" } else { "as multisets" },
            hrows.len(),
            frows.len(),
            data::fmt_rows(&hrows, 8),
            data::fmt_rows(&frows, 8)
        ));
    }

    // --- counts
    let xrows = http.header("x-qe-rows").and_then(|v| v.parse::<usize>().ok());
    let mrows = meta.get("rows").and_then(|v| v.as_u64()).map(|v| v as usize);
    if xrows != Some(hrows.len()) {
        return fail(format!("x-qe-rows = {:?} but the HTTP body holds {} rows", http.header("x-qe-rows"), hrows.len()));
    }
    if mrows != Some(frows.len()) {
        return fail(format!("trailer rows = {:?} but the stream held {} rows", meta.get("rows"), frows.len()));
    }

    // --- decision
    let hdist = match http.header("x-qe-distributed") {
        Some("true") => true,
        Some("false") => false,
        other => return fail(format!("x-qe-distributed header is {other:?}")),
    };
    let Some(fdist) = meta.get("distributed").and_then(|v| v.as_bool()) else {
        return fail(format!("trailer has no boolean `distributed`: {meta}"));
    };
    if hdist != fdist {
        return fail(format!(
            "distribution decisions differ: x-qe-distributed={hdist} (skipped: {:?}) vs Flight distributed={fdist} (skipped_reason: {:?})",
            http.header("x-qe-distributed-skipped"),
            meta.get("skipped_reason")
        ));
    }
    rep.labels.push(format!("distributed:{hdist}"));
    if hdist {
        if let Some(shape) = http
            .header("x-qe-distribution")
            .and_then(|d| serde_json::from_str::<J>(d).ok())
            .and_then(|d| d.get("shape").and_then(|s| s.as_str()).map(String::from))
        {
            rep.labels.push(format!("shape:{shape}"));
        }
    }
    let big = hrows.len() > 4096;
    if big {
        rep.labels.push("rows>4096".into());
    }
    if hrows.is_empty() {
        rep.labels.push("rows=0".into());
    }
    if big || hdist {
        rep.nontrivial = true;
    }
    let _ = n;

    // --- reported schemas describe the streamed batches (the Flight part of C30)
    if let Some(b) = ans.batches.first() {
        let bs = schema_sig(&b.schema());
        let shape = meta.get("distribution").and_then(|d| d.get("shape")).and_then(|s| s.as_str()).map(String::from);
        let mut reported = vec![];
        match &ans.info_schema {
            Ok(is) => reported.push(("FlightInfo.schema", schema_sig(is))),
            Err(e) => return fail(format!("FlightInfo.schema does not decode: {e}")),
        }
        match get_schema {
            SchemaOutcome::Ok(gs) => reported.push(("GetSchema", schema_sig(gs))),
            SchemaOutcome::Timeout => return Err(Stop::Discard("flight timeout".into())),
            SchemaOutcome::Status(code, msg) => return fail(format!("GetSchema fails with {code:?} ({msg}) for a statement that GetFlightInfo planned and DoGet answered")),
            SchemaOutcome::Broken(m) => return fail(format!("GetSchema reply does not decode: {m}")),
        }
        for (what, rs) in reported {
            if rs == bs {
                continue;
            }
            let msg = format!("{what} [{}] does not describe the streamed batches [{}]", fmt_sig(&rs), fmt_sig(&bs));
            match classify_schema(s, hdist, shape.as_deref(), &rs, &bs) {
                Some(id) => {
                    rep.labels.push(format!("known:{id}"));
                    rep.known.get_or_insert((id.to_string(), format!("`{}` — {msg}", s.sql)));
                    return Ok(());
                }
                None => return fail(msg),
            }
        }
        rep.labels.push("schema_checked".into());
    }
    Ok(())
}

/// Signatures of the open findings about the reported schema.
fn classify_schema(
    s: &Stmt,
    distributed: bool,
    shape: Option<&str>,
    reported: &[(String, arrow::datatypes::DataType)],
    batches: &[(String, arrow::datatypes::DataType)],
) -> Option<&'static str> {
    if reported.len() != batches.len() || reported.iter().zip(batches).any(|(r, b)| r.1 != b.1) {
        return None;
    }
    // distributed two-phase merge labels an unaliased qualified output column
    // `rel.col` with the bare `col`, the plan (and the local answer) say `rel.col`
    if distributed
        && shape == Some("two_phase")
        && reported.iter().zip(batches).all(|(r, b)| r.0 == b.0 || r.0.ends_with(&format!(".{}", b.0)))
    {
        return Some("flight-schema-two-phase-unqualified-names");
    }
    // local UNION ALL: a batch produced by a later branch keeps that branch's
    // column names instead of the union's (= first branch's) names
    if !distributed && s.sql.contains(" UNION ALL ") {
        return Some("flight-schema-union-all-branch-names");
    }
    None
}

async fn check_ticket(b: &BadTicket, rep: &mut Report, node: &ServerHandle, client: &mut arrow_flight::client::FlightClient) -> Result<(), Stop> {
    let mut bytes = b.body.clone();
    let pad = (b.pad_to + "@PAD@".len()).saturating_sub(bytes.len());
    bytes = bytes.replace("@PAD@", &" ".repeat(if b.body.contains("@PAD@") { pad } else { 0 }));
    let bytes = bytes.into_bytes();
    rep.labels.push(format!("ticket:{}:{}", b.why, if b.as_command { "command" } else { "doget" }));
    let addr = node.local_addr().to_string();
    let before = http_get(&addr, "/cluster").await.ok().and_then(|r| queries_total(&r.body));
    let out = if b.as_command {
        flight_query(client, None, bytes.clone()).await
    } else {
        flight_do_get(client, bytes.clone(), Err("n/a".into())).await
    };
    let after = http_get(&addr, "/cluster").await.ok().and_then(|r| queries_total(&r.body));
    let what = format!(
        "{} ({} bytes, {}) `{}`",
        if b.as_command { "GetFlightInfo command" } else { "DoGet ticket" },
        bytes.len(),
        b.why,
        String::from_utf8_lossy(&bytes[..bytes.len().min(120)])
    );
    match out {
        FlightOutcome::Timeout => return Err(Stop::Discard("flight timeout".into())),
        FlightOutcome::Ok(ans) => {
            return Err(Stop::Fail(format!(
                "{what} was accepted and answered ({} rows) instead of being refused",
                ans.batches.iter().map(|b| b.num_rows()).sum::<usize>()
            )))
        }
        FlightOutcome::Broken { stage, msg } => return Err(Stop::Fail(format!("{what}: {stage} reply undecodable: {msg}"))),
        FlightOutcome::Status { stage, code, msg } => {
            if code != tonic::Code::InvalidArgument {
                return Err(Stop::Fail(format!("{what} must be refused with InvalidArgument; got {code:?}@{stage}: {msg}")));
            }
        }
    }
    match (before, after) {
        (Some(x), Some(y)) if x != y => Err(Stop::Fail(format!("{what} was refused but the node's query counter moved {x} -> {y}: it was executed"))),
        _ => Ok(()),
    }
}

pub struct FlightVsHttp;
impl Check for FlightVsHttp {
    type Case = C34Case;
    fn name(&self) -> &'static str {
        "flight_vs_http"
    }
    fn rule(&self) -> &'static str {
        "some statement of the case returned >4096 rows through both doors, or was answered distributed (x-qe-distributed: true)"
    }
    fn cases(&self, tier: Tier) -> u32 {
        tier.pick(220, 5000)
    }
    fn workers(&self, _tier: Tier) -> usize {
        4
    }
    fn max_shrink_iters(&self) -> u32 {
        120
    }
    fn strategy(&self, tier: Tier) -> BoxedStrategy<C34Case> {
        case_strategy(tier)
    }
    fn test(&self, c: &C34Case, obs: &mut Obs) -> Verdict {
        let mut rep = Report::default();
        let r = block_on(run_case(c, &mut rep));
        for l in rep.labels.drain(..) {
            obs.label(l);
        }
        obs.nontrivial(rep.nontrivial);
        match r {
            Ok(()) => match rep.known {
                Some((id, msg)) => Verdict::Known { id, msg },
                None => Verdict::Pass,
            },
            Err(Stop::Discard(d)) => Verdict::Discard(d),
            Err(Stop::Fail(m)) => Verdict::Fail(m),
        }
    }
}

pub fn property() -> Property {
    Property {
        id: "C34",
        level: "exploration",
        assumptions: &[
            "status classes correspond as the two doors document them: 501~Unimplemented, 503~Unavailable, 500~Internal, 400~{InvalidArgument, NotFound, Internal}",
            "row order is compared as a sequence only under an ORDER BY over a unique key; otherwise as a multiset (two executions may legitimately order differently)",
            "the Flight client runs without message-size limits, so a client-side limit never shows as a disagreement",
            "membership is frozen (one probe round, then an hour-long discovery interval) and re-read after every statement; a change discards the case",
        ],
        checks: vec![Box::new(FlightVsHttp)],
    }
}
