//! C15 — Membership view stays consistent under any discovery and probe history.
//!
//! Code under test: `distributed::membership::Membership` (`set_members`,
//! `record_up`, `record_down`, `record_resolve_error`, `set_discovery`,
//! `Discovery::resolve`, `members`, `peer_addresses`, `generation`, `resolved`).
//!
//! Stateful / model-based: a history is a `Vec<Op>`; an interpreter applies it
//! to a fresh `Membership` and to a reference model (the set of peer address
//! strings the last successful discovery produced, minus every spelling of
//! this node).  After EVERY step:
//!   * `members()` is strictly sorted by address (hence unique), has exactly one
//!     `is_self` entry and that entry carries this node's own address;
//!   * no peer entry denotes this node (self aliases: `localhost:<port>`, a
//!     local-interface IP with the same port, `[::1]:<port>`), while a
//!     port-only difference and an unresolvable name ARE peers;
//!   * `peer_addresses()` equals the model set and the non-self part of
//!     `members()` (nothing lost, nothing invented);
//!   * a resolve error (reported, or a DNS discovery that fails) changes no
//!     member, no peer record and not `resolved()`;
//!   * `generation()` never decreases and strictly increases whenever the peer
//!     set changed;
//!   * a (re-)resolution that yields the same peer set leaves every peer
//!     record (status, failures, node id, flight, last error, last seen)
//!     exactly as it was;
//!   * `resolved()` is false before the first successful discovery and true
//!     ever after.
//! The discovery step replays `server::resolve_once` (private):
//! `discovery().resolve()` → `set_members` on Ok, `record_resolve_error` on Err.
//!
//! Which strings denote this node is decided by an oracle that does not use
//! the engine: an `ip:port` literal is this node iff the port equals this
//! node's port and a socket can be bound to the IP (i.e. it is local); a
//! `host:port` name is this node iff it resolves and some result is; an
//! unresolvable name never is (documented in `resolve_all`).
use super::Property;
use crate::runner::*;
use proptest::prelude::*;
use query_engine::distributed::membership::{Discovery, Member, Membership, PeerStatus};
use serde::{Deserialize, Serialize};
use std::collections::{BTreeMap, BTreeSet, HashMap};
use std::net::{IpAddr, SocketAddr, ToSocketAddrs, UdpSocket};
use std::sync::Mutex;

const SELF_ID: u64 = 42;

// ---------------------------------------------------------------------------
// independent "is this me" oracle (cached: name lookups are slow)
// ---------------------------------------------------------------------------
fn ip_is_local(ip: IpAddr) -> bool {
    static CACHE: Mutex<Option<HashMap<IpAddr, bool>>> = Mutex::new(None);
    let mut g = CACHE.lock().unwrap();
    let m = g.get_or_insert_with(HashMap::new);
    *m.entry(ip).or_insert_with(|| UdpSocket::bind(SocketAddr::new(ip, 0)).is_ok())
}

/// every socket address the authority denotes (empty when unresolvable)
fn lookup(authority: &str) -> Vec<SocketAddr> {
    static CACHE: Mutex<Option<HashMap<String, Vec<SocketAddr>>>> = Mutex::new(None);
    if let Ok(sa) = authority.parse::<SocketAddr>() {
        return vec![sa];
    }
    let mut g = CACHE.lock().unwrap();
    let m = g.get_or_insert_with(HashMap::new);
    m.entry(authority.to_string())
        .or_insert_with(|| authority.to_socket_addrs().map(|i| i.collect()).unwrap_or_default())
        .clone()
}

fn denotes_self(candidate: &str, self_address: &str) -> bool {
    if candidate == self_address {
        return true;
    }
    let mine = lookup(self_address);
    let ports: BTreeSet<u16> = mine.iter().map(|s| s.port()).collect();
    lookup(candidate)
        .iter()
        .any(|c| mine.contains(c) || (ports.contains(&c.port()) && ip_is_local(c.ip())))
}

// ---------------------------------------------------------------------------
// case
// ---------------------------------------------------------------------------
#[derive(Clone, Debug, Serialize, Deserialize)]
pub struct Addr {
    pub text: String,
    /// what the generator's machine said; re-checked at run time (a replay on a
    /// machine with other interfaces is discarded, not misjudged)
    pub is_self: bool,
}

#[derive(Clone, Debug, Serialize, Deserialize)]
pub enum Op {
    /// `set_members(list)`; indices into the universe, duplicates allowed
    SetMembers(Vec<u8>),
    /// `set_discovery(Static(list))` then one discovery pass
    DiscoverStatic(Vec<u8>),
    /// `set_discovery(Dns{..})` then one discovery pass
    DiscoverDns { host: String, port: u16 },
    /// one discovery pass with the current discovery source
    ReResolve,
    /// `set_members` of the CURRENT peer set, rotated, optionally with
    /// duplicates and with extra spellings of this node mixed in
    SetSameSet { rotate: u8, dup: bool, aliases: Vec<u8> },
    RecordUp { a: u8, id: Option<u64>, flight: Option<u8> },
    RecordDown { a: u8, err: u8 },
    ResolveError(u8),
}

#[derive(Clone, Debug, Serialize, Deserialize)]
pub struct History {
    pub self_address: String,
    pub universe: Vec<Addr>,
    pub initial: Vec<u8>,
    pub ops: Vec<Op>,
}

fn a<'c>(c: &'c History, i: u8) -> &'c Addr {
    &c.universe[(i as usize) % c.universe.len()]
}

// ---------------------------------------------------------------------------
// observation helpers
// ---------------------------------------------------------------------------
type Rec = (Option<u64>, Option<String>, u8, Option<u64>, Option<String>, u32);
fn rec(m: &Member) -> Rec {
    (
        m.node_id,
        m.flight.clone(),
        match m.status {
            PeerStatus::Unknown => 0,
            PeerStatus::Up => 1,
            PeerStatus::Down => 2,
        },
        m.last_seen_unix_ms,
        m.last_error.clone(),
        m.consecutive_failures,
    )
}
fn peer_records(ms: &[Member]) -> BTreeMap<String, Rec> {
    ms.iter().filter(|m| !m.is_self).map(|m| (m.address.clone(), rec(m))).collect()
}

struct Model {
    peers: BTreeSet<String>,
    resolved: bool,
}

/// what one discovery pass is expected to produce: Ok(address list) or Err
fn expected_discovery(d: &Discovery) -> Result<Vec<String>, ()> {
    match d {
        Discovery::Static(l) => Ok(l.clone()),
        Discovery::Dns { name, port } => {
            let r = lookup(&format!("{}:{}", name, port));
            if r.is_empty() {
                Err(())
            } else {
                Ok(r.iter().map(|s| s.to_string()).collect())
            }
        }
    }
}

pub struct Histories;
impl Check for Histories {
    type Case = History;
    fn name(&self) -> &'static str {
        "histories"
    }
    fn rule(&self) -> &'static str {
        "the history contains a discovery result with a spelling of this node other than its own address, AND a re-resolution that yields an unchanged, non-empty peer set after a probe changed some surviving peer's record"
    }
    fn cases(&self, tier: Tier) -> u32 {
        tier.pick(3000, 300_000)
    }
    fn strategy(&self, _tier: Tier) -> BoxedStrategy<History> {
        let self_address = "127.0.0.1:7001".to_string();
        // a non-loopback local IPv4, proposed by the engine's interface list
        // and confirmed independently by binding to it
        let local: Option<IpAddr> = {
            let mut v: Vec<IpAddr> = query_engine::distributed::membership::local_ip_addresses()
                .into_iter()
                .filter(|ip| ip.is_ipv4() && !ip.is_loopback() && ip_is_local(*ip))
                .collect();
            v.sort();
            v.first().copied()
        };
        let mut texts: Vec<String> = vec![
            self_address.clone(),
            "localhost:7001".into(),
            "[::1]:7001".into(),
            "127.0.0.1:7002".into(), // port-only difference
            "10.9.8.1:7001".into(),
            "10.9.8.2:7001".into(),
            "10.9.8.2:7003".into(),
            "localhost:7002".into(),         // a name, other port: a peer
            "no-such-host.invalid:7001".into(), // unresolvable: a peer
        ];
        if let Some(ip) = local {
            texts.push(format!("{}:7001", ip)); // this node by interface IP
            texts.push(format!("{}:7002", ip)); // same IP, other port: a peer
        }
        let universe: Vec<Addr> = texts
            .into_iter()
            .map(|t| Addr { is_self: denotes_self(&t, &self_address), text: t })
            .collect();
        let n = universe.len() as u8;
        let alias_idx: Vec<u8> = universe
            .iter()
            .enumerate()
            .filter(|(_, a)| a.is_self)
            .map(|(i, _)| i as u8)
            .collect();
        // the unresolvable name costs a DNS round trip per appearance: keep it rare
        let slow = universe.iter().position(|a| a.text.contains(".invalid")).unwrap() as u8;
        let idx = prop_oneof![30 => 0u8..n, 1 => Just(slow)].prop_map(move |i| i).boxed();
        let fast_idx = (0u8..n).prop_map(move |i| if i == slow { 0 } else { i });
        let list = prop::collection::vec(prop_oneof![20 => fast_idx.clone(), 1 => idx.clone()], 0..7);
        let aliases = prop::collection::vec(prop::sample::select(alias_idx), 0..3);
        let op = prop_oneof![
            3 => list.clone().prop_map(Op::SetMembers),
            2 => list.clone().prop_map(Op::DiscoverStatic),
            1 => (prop_oneof![3 => Just("localhost".to_string()), 1 => Just("no-such-host.invalid".to_string())], prop_oneof![Just(7001u16), Just(7002u16)])
                .prop_map(|(host, port)| Op::DiscoverDns { host, port }),
            4 => Just(Op::ReResolve),
            3 => (any::<u8>(), any::<bool>(), aliases).prop_map(|(rotate, dup, aliases)| Op::SetSameSet { rotate, dup, aliases }),
            5 => (fast_idx.clone(), prop::option::of(0u64..4), prop::option::of(0u8..3)).prop_map(|(a, id, flight)| Op::RecordUp { a, id, flight }),
            4 => (fast_idx.clone(), 0u8..3).prop_map(|(a, err)| Op::RecordDown { a, err }),
            2 => (0u8..3).prop_map(Op::ResolveError),
        ];
        (list, prop::collection::vec(op, 1..40))
            .prop_map(move |(initial, ops)| History { self_address: self_address.clone(), universe: universe.clone(), initial, ops })
            .boxed()
    }

    fn test(&self, c: &History, obs: &mut Obs) -> Verdict {
        if c.universe.is_empty() {
            return Verdict::Discard("empty universe".into());
        }
        // environment re-check (replays on another machine)
        for u in &c.universe {
            if denotes_self(&u.text, &c.self_address) != u.is_self {
                return Verdict::Discard(format!("environment: {} self={} does not hold on this machine", u.text, u.is_self));
            }
        }
        let list = |ix: &[u8]| -> Vec<String> { ix.iter().map(|i| a(c, *i).text.clone()).collect() };
        let is_me = |s: &str| denotes_self(s, &c.self_address);

        let mem = Membership::new(SELF_ID, c.self_address.clone(), Discovery::Static(list(&c.initial)));
        let mut model = Model { peers: BTreeSet::new(), resolved: false };
        let mut prev_gen = mem.generation();
        let mut touched: BTreeSet<String> = BTreeSet::new(); // peers whose record a probe changed
        let mut saw_alias = false;
        let mut saw_same_after_probe = false;

        // invariants of a single observation
        let observe = |step: &str, model: &Model| -> Result<Vec<Member>, String> {
            let ms = mem.members();
            let addrs: Vec<&str> = ms.iter().map(|m| m.address.as_str()).collect();
            if addrs.windows(2).any(|w| w[0] >= w[1]) {
                return Err(format!("{}: members() not strictly sorted by address: {:?}", step, addrs));
            }
            let selfs: Vec<&Member> = ms.iter().filter(|m| m.is_self).collect();
            if selfs.len() != 1 {
                return Err(format!("{}: {} entries with is_self (expected exactly 1): {:?}", step, selfs.len(), addrs));
            }
            if selfs[0].address != c.self_address {
                return Err(format!("{}: the is_self entry has address {} (this node is {})", step, selfs[0].address, c.self_address));
            }
            for m in ms.iter().filter(|m| !m.is_self) {
                if is_me(&m.address) {
                    return Err(format!("{}: this node is listed as a peer under the spelling {} (view: {:?})", step, m.address, addrs));
                }
            }
            let peers = mem.peer_addresses();
            for p in &peers {
                if is_me(p) {
                    return Err(format!("{}: peer_addresses() contains this node as {}", step, p));
                }
            }
            let want: Vec<String> = model.peers.iter().cloned().collect();
            if peers != want {
                return Err(format!("{}: peer_addresses() = {:?}, the discovered set (minus this node) is {:?}", step, peers, want));
            }
            let non_self: Vec<String> = ms.iter().filter(|m| !m.is_self).map(|m| m.address.clone()).collect();
            if non_self != want {
                return Err(format!("{}: members() lists peers {:?}, the discovered set (minus this node) is {:?}", step, non_self, want));
            }
            if mem.resolved() != model.resolved {
                return Err(format!("{}: resolved() = {}, expected {}", step, mem.resolved(), model.resolved));
            }
            Ok(ms)
        };

        let mut before = match observe("initially", &model) {
            Ok(ms) => ms,
            Err(e) => return Verdict::Fail(e),
        };

        for (k, op) in c.ops.iter().enumerate() {
            let step = format!("step {} {:?}", k, op);
            // Some(list) = a successful discovery of that list; None = other
            let mut discovered: Option<Vec<String>> = None;
            let mut failed_discovery = false;
            match op {
                Op::SetMembers(ix) => {
                    let l = list(ix);
                    mem.set_members(l.clone());
                    discovered = Some(l);
                }
                Op::SetSameSet { rotate, dup, aliases } => {
                    let mut l: Vec<String> = model.peers.iter().cloned().collect();
                    if !l.is_empty() {
                        let r = (*rotate as usize) % l.len();
                        l.rotate_left(r);
                        if *dup {
                            let first = l[0].clone();
                            l.push(first);
                        }
                    }
                    for (j, al) in aliases.iter().enumerate() {
                        let t = a(c, *al).text.clone();
                        if !a(c, *al).is_self {
                            return Verdict::Discard("SetSameSet alias is not a spelling of this node".into());
                        }
                        let at = (j * 2).min(l.len());
                        l.insert(at, t);
                    }
                    mem.set_members(l.clone());
                    discovered = Some(l);
                }
                Op::DiscoverStatic(_) | Op::DiscoverDns { .. } | Op::ReResolve => {
                    match op {
                        Op::DiscoverStatic(ix) => mem.set_discovery(Discovery::Static(list(ix))),
                        Op::DiscoverDns { host, port } => mem.set_discovery(Discovery::Dns { name: host.clone(), port: *port }),
                        _ => {}
                    }
                    // server::resolve_once
                    let d = mem.discovery();
                    let want = expected_discovery(&d);
                    match d.resolve() {
                        Ok(addrs) => {
                            mem.set_members(addrs.clone());
                            match want {
                                Ok(w) => {
                                    // the engine sorts+dedups DNS answers; compare as sets
                                    let (x, y): (BTreeSet<_>, BTreeSet<_>) = (addrs.iter().cloned().collect(), w.iter().cloned().collect());
                                    if x != y {
                                        return Verdict::Discard(format!("environment: resolver answers differ between calls ({:?} vs {:?})", addrs, w));
                                    }
                                }
                                Err(()) => return Verdict::Discard("environment: name resolved for the engine but not for the harness".into()),
                            }
                            discovered = Some(addrs);
                        }
                        Err(e) => {
                            if want.is_ok() {
                                return Verdict::Discard("environment: name resolved for the harness but not for the engine".into());
                            }
                            mem.record_resolve_error(e.to_string());
                            failed_discovery = true;
                        }
                    }
                }
                Op::RecordUp { a: i, id, flight } => {
                    let t = &a(c, *i).text;
                    mem.record_up(t, *id, flight.map(|f| format!("127.0.0.1:{}", 9000 + f as u16)));
                    if model.peers.contains(t) {
                        touched.insert(t.clone());
                    }
                }
                Op::RecordDown { a: i, err } => {
                    let t = &a(c, *i).text;
                    mem.record_down(t, format!("error {}", err));
                    if model.peers.contains(t) {
                        touched.insert(t.clone());
                    }
                }
                Op::ResolveError(e) => {
                    mem.record_resolve_error(format!("resolve error {}", e));
                    failed_discovery = true;
                }
            }

            // step the model
            let old_peers = model.peers.clone();
            if let Some(l) = &discovered {
                if l.iter().any(|s| s != &c.self_address && is_me(s)) {
                    saw_alias = true;
                }
                model.peers = l.iter().filter(|s| !is_me(s)).cloned().collect();
                model.resolved = true;
            }
            let set_changed = model.peers != old_peers;

            let after = match observe(&step, &model) {
                Ok(ms) => ms,
                Err(e) => return Verdict::Fail(e),
            };
            let gen = mem.generation();
            if gen < prev_gen {
                return Verdict::Fail(format!("{}: generation went from {} to {}", step, prev_gen, gen));
            }
            if set_changed && gen <= prev_gen {
                return Verdict::Fail(format!(
                    "{}: the peer set changed ({:?} -> {:?}) but generation stayed {}",
                    step, old_peers, model.peers, gen
                ));
            }
            let (rb, ra) = (peer_records(&before), peer_records(&after));
            if failed_discovery && rb != ra {
                return Verdict::Fail(format!("{}: a resolve error changed the peer records: {:?} -> {:?}", step, rb, ra));
            }
            if discovered.is_some() && !set_changed {
                if rb != ra {
                    return Verdict::Fail(format!(
                        "{}: re-resolving the same peer set changed probe state: {:?} -> {:?}",
                        step, rb, ra
                    ));
                }
                if !model.peers.is_empty() && model.peers.iter().any(|p| touched.contains(p)) {
                    saw_same_after_probe = true;
                }
                if gen != prev_gen {
                    obs.label("generation-advanced-on-unchanged-set(not judged)");
                }
            }
            if set_changed {
                touched.retain(|p| model.peers.contains(p));
            }
            prev_gen = gen;
            before = after;
        }
        if saw_alias {
            obs.label("self-alias-in-a-discovery");
        }
        if saw_same_after_probe {
            obs.label("same-set-after-probe");
        }
        obs.nontrivial(saw_alias && saw_same_after_probe);
        Verdict::Pass
    }
}

// ---------------------------------------------------------------------------
// is_self_address on its own, over a wider set of spellings
// ---------------------------------------------------------------------------
#[derive(Clone, Debug, Serialize, Deserialize)]
pub struct SelfCase {
    pub candidate: String,
    pub self_address: String,
}
pub struct IsSelf;
impl Check for IsSelf {
    type Case = SelfCase;
    fn name(&self) -> &'static str {
        "is_self_address"
    }
    fn rule(&self) -> &'static str {
        "candidate and self address are different strings"
    }
    fn cases(&self, tier: Tier) -> u32 {
        tier.pick(400, 20_000)
    }
    fn strategy(&self, _tier: Tier) -> BoxedStrategy<SelfCase> {
        let mut hosts: Vec<String> = vec!["127.0.0.1".into(), "localhost".into(), "[::1]".into(), "0.0.0.0".into(), "10.9.8.1".into(), "10.9.8.2".into()];
        let mut v: Vec<IpAddr> = query_engine::distributed::membership::local_ip_addresses()
            .into_iter()
            .filter(|ip| ip.is_ipv4() && !ip.is_loopback() && ip_is_local(*ip))
            .collect();
        v.sort();
        if let Some(ip) = v.first() {
            hosts.push(ip.to_string());
        }
        let self_hosts = vec!["127.0.0.1".to_string(), "localhost".to_string(), "0.0.0.0".to_string()];
        (prop::sample::select(hosts), prop_oneof![Just(7001u16), Just(7002u16)], prop::sample::select(self_hosts), Just(7001u16))
            .prop_map(|(h, p, sh, sp)| SelfCase { candidate: format!("{}:{}", h, p), self_address: format!("{}:{}", sh, sp) })
            .boxed()
    }
    fn test(&self, c: &SelfCase, obs: &mut Obs) -> Verdict {
        obs.nontrivial(c.candidate != c.self_address);
        // 0.0.0.0 as a *candidate* is "any address", not judged
        if c.candidate.starts_with("0.0.0.0:") && c.candidate != c.self_address {
            return Verdict::Discard("0.0.0.0 as a candidate".into());
        }
        let want = denotes_self(&c.candidate, &c.self_address);
        let got = query_engine::distributed::membership::is_self_address(&c.candidate, &c.self_address);
        if got != want {
            return Verdict::Fail(format!(
                "is_self_address({:?}, {:?}) = {}, expected {} (this node iff the strings are equal, or some address the candidate resolves to equals one of this node's, or has this node's port and a local IP)",
                c.candidate, c.self_address, got, want
            ));
        }
        Verdict::Pass
    }
}

pub fn property() -> Property {
    Property {
        id: "C15",
        level: "exploration",
        assumptions: &[
            "this node advertises 127.0.0.1:7001; spellings of this node = localhost:7001, [::1]:7001, <a local interface IPv4>:7001 (locality decided by bind(), not by the engine's getifaddrs)",
            "an unresolvable name and any address with another port are peers (documented in is_self_address / resolve_all)",
            "one discovery pass = Discovery::resolve then set_members on Ok / record_resolve_error on Err, as in server::resolve_once",
            "generation is only required to be monotone and to advance when the peer-address set changes; extra advances (status flips) are allowed",
            "probe-state preservation is required for re-resolutions that yield an equal peer set, as the property states",
        ],
        checks: vec![Box::new(Histories), Box::new(IsSelf)],
    }
}
