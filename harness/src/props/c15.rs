//! C15 — not implemented yet.
use super::Property;

pub fn property() -> Property {
    Property { id: "C15", level: "exploration", assumptions: &[], checks: vec![] }
}
