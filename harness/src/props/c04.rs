//! C04 — Storage layout and fast-path choice never change an answer.
//!
//! One generated row set (1–2 tables, compact specs: nullable BIGINT / INTEGER /
//! DATE keys over dense and sparse ranges, doubles that are multiples of 0.25,
//! strings, booleans) is registered as
//!   * memory, one batch (the baseline),
//!   * memory, random batch layout,
//!   * Parquet: 1 file / 1 row group; and two generated layouts out of
//!     {1 file / many tiny row groups, n files, n files one of which has zero
//!     rows}, with statistics none/chunk/page and dictionary on/off,
//! and the same statement (filtered scans, global and grouped aggregates incl.
//! nullable integer keys, self-joins / repeated table references, joins,
//! DISTINCT, ORDER BY / LIMIT) is executed on each.
//!
//! Two checks, because the planner-threshold hooks are process-global:
//!   * `layouts`       (parallel): every registration, with morsel execution on
//!                     and off (`ExecutionConfig::with_morsel_execution`);
//!   * `forced_paths`  (single worker): every Parquet layout additionally under
//!                     `verif_hooks::{set_force_big, set_no_prescan,
//!                     set_force_disjoint}` (filtered scans stream, shared tables
//!                     are not prescanned, the disjoint fused aggregate runs).
//! Oracle: every configuration that answers returns the baseline's answer
//! (multiset; ORDER BY key sequence), and if any configuration answers, every
//! configuration answers — an `Err` on one layout only is a violation.
//! `refsql` is evaluated only to annotate a failure message.
use super::Property;
use crate::data::*;
use crate::engine::*;
use crate::runner::*;
use proptest::prelude::*;
use query_engine::{ExecutionConfig, ExecutionContext};
use serde::{Deserialize, Serialize};

#[path = "cfgdiff_util.rs"]
mod util;
use util::*;

#[derive(Clone, Debug, Serialize, Deserialize)]
pub struct PLayout {
    /// file cut selectors (monotone → row indices); equal cuts give zero-row files
    pub file_cut_sels: Vec<u16>,
    pub row_group_size: usize,
    /// 0 = none, 1 = chunk, 2 = page
    pub stats: u8,
    pub dictionary: bool,
    /// append an extra cut equal to an existing one → a file with zero rows
    pub empty_file: bool,
}

#[derive(Clone, Debug, Serialize, Deserialize)]
pub struct Case {
    pub tables: Vec<TableSpec>,
    pub stmt: Stmt,
    /// batch cut selectors of the "random batch layout" memory registration
    pub mem_cut_sels: Vec<Vec<u16>>,
    /// generated Parquet layouts (the single-file / single-row-group one is always added)
    pub layouts: Vec<PLayout>,
}

fn tables_profile(tier: Tier) -> TablesProfile {
    TablesProfile {
        max_tables: 2,
        min_rows: 0,
        max_rows: tier.pick(260, 3000),
        max_cols: 4,
        types: vec![ColType::Int, ColType::Int, ColType::Int32, ColType::Date, ColType::Double, ColType::Double, ColType::Str, ColType::Bool],
        domains: vec![1, 2, 3, 7, 20, 100, 1000],
        null_pcts: vec![0, 0, 10, 40],
        sparse: true,
        big_rows: if tier == Tier::Thorough { Some((5000, 20000)) } else { None },
    }
}

fn opts() -> GenOpts {
    GenOpts {
        filter_pct: 60,
        order_pct: 35,
        limit_pct: 40,
        max_join_rows: 20_000,
        self_join_pct: 60,
        w_scan: 20,
        w_join: 20,
        w_agg: 25,
        w_dense_agg: 25,
        no_alias_pct: 65,
        w_distinct: 10,
        w_union: 5,
        union_all: true,
        null_group_keys_pct: 35,
        ..GenOpts::default()
    }
}

fn playout_strategy() -> impl Strategy<Value = PLayout> {
    (
        proptest::collection::vec(any::<u16>(), 0..5),
        prop_oneof![Just(1usize), Just(2), Just(3), Just(7), Just(50), Just(1 << 20)],
        prop_oneof![4 => Just(1u8), 1 => Just(0u8), 1 => Just(2u8)],
        any::<bool>(),
        proptest::bool::weighted(0.3),
    )
        .prop_map(|(file_cut_sels, row_group_size, stats, dictionary, empty_file)| PLayout { file_cut_sels, row_group_size, stats, dictionary, empty_file })
}

fn strategy(tier: Tier) -> BoxedStrategy<Case> {
    (
        tables_spec_strategy(tables_profile(tier)),
        proptest::collection::vec(any::<u16>(), 0..80),
        proptest::collection::vec(proptest::collection::vec(any::<u16>(), 0..5), 2),
        proptest::collection::vec(playout_strategy(), 2),
    )
        .prop_map(|(tables, tape, mem_cut_sels, layouts)| {
            let stmt = gen_stmt(tape, &tables, &opts());
            Case { tables, stmt, mem_cut_sels, layouts }
        })
        .boxed()
}

fn to_layout(p: &PLayout, n_rows: usize) -> ParquetLayout {
    let mut cuts = cuts_from(&p.file_cut_sels, n_rows);
    if p.empty_file {
        let dup = cuts.first().copied().unwrap_or(n_rows / 2);
        cuts.push(dup);
        cuts.sort();
    }
    ParquetLayout { file_cuts: cuts, row_group_size: p.row_group_size, stats: p.stats, dictionary: p.dictionary }
}

/// row groups written for a table under a layout
fn row_groups(l: &ParquetLayout, n_rows: usize) -> usize {
    let mut pts: Vec<usize> = l.file_cuts.iter().map(|c| (*c).min(n_rows)).collect();
    pts.sort();
    pts.push(n_rows);
    let mut lo = 0;
    let mut n = 0;
    for hi in pts {
        n += (hi - lo).div_ceil(l.row_group_size.max(1));
        lo = hi;
    }
    n
}

#[derive(Clone, Copy, Debug, Default, PartialEq)]
struct Variant {
    morsel_off: bool,
    force_big: bool,
    no_prescan: bool,
    force_disjoint: bool,
}
impl Variant {
    fn name(&self) -> String {
        let mut v = vec![];
        if self.morsel_off {
            v.push("morsel_off");
        }
        if self.force_big {
            v.push("force_big");
        }
        if self.no_prescan {
            v.push("no_prescan");
        }
        if self.force_disjoint {
            v.push("force_disjoint");
        }
        if v.is_empty() {
            "plain".into()
        } else {
            v.join("+")
        }
    }
    fn hooked(&self) -> bool {
        self.force_big || self.no_prescan || self.force_disjoint
    }
}

/// Sets the process-global planner overrides for the duration of one run.
struct HookGuard;
impl HookGuard {
    fn set(v: &Variant) -> HookGuard {
        query_engine::verif_hooks::set_force_big(v.force_big);
        query_engine::verif_hooks::set_no_prescan(v.no_prescan);
        query_engine::verif_hooks::set_force_disjoint(v.force_disjoint);
        HookGuard
    }
}
impl Drop for HookGuard {
    fn drop(&mut self) {
        query_engine::verif_hooks::set_force_big(false);
        query_engine::verif_hooks::set_no_prescan(false);
        query_engine::verif_hooks::set_force_disjoint(false);
    }
}

enum Reg<'a> {
    Mem(&'a [Vec<u16>]),
    /// directory under which `<table>/part-*.parquet` were written
    Parquet(&'a std::path::Path),
}

fn run(tables: &[Table], reg: &Reg, v: &Variant, sql: &str) -> RunResult {
    let cfg = ExecutionConfig::default().with_morsel_execution(!v.morsel_off);
    let mut ctx = ExecutionContext::with_config(cfg);
    for (i, t) in tables.iter().enumerate() {
        match reg {
            Reg::Mem(sels) => {
                let cuts = cuts_from(sels.get(i).map(|x| x.as_slice()).unwrap_or(&[]), t.rows.len());
                register_mem(&mut ctx, t, &cuts);
            }
            Reg::Parquet(dir) => {
                if let Err(e) = ctx.register_parquet(t.name.clone(), dir.join(&t.name)) {
                    return Err(format!("register_parquet: {}", e));
                }
            }
        }
    }
    if v.hooked() {
        let _g = HookGuard::set(v);
        run_sql(&ctx, sql)
    } else {
        run_sql(&ctx, sql)
    }
}

fn has(c: &Case, f: &str) -> bool {
    c.stmt.features.iter().any(|x| x == f)
}

struct Outcome {
    name: String,
    parquet: bool,
    row_groups: usize,
    /// Parquet statistics level of the layout (0 none / 1 chunk / 2 page); memory: 0
    stats: u8,
    variant: Variant,
    result: RunResult,
    marks: Vec<&'static str>,
}

/// Known-finding signatures (see known_findings.json, property C04). `a` and `b`
/// are two configurations that disagree (one of them may have failed).
fn classify(c: &Case, tables: &[Table], a: &Outcome, b: &Outcome) -> Option<&'static str> {
    use crate::sqlast::*;
    let f = |x: &str| has(c, x);
    let q = &c.stmt.query;
    let sel = match &q.body {
        SetExpr::Select(s) => Some(s.as_ref()),
        _ => None,
    };
    let err_of = |o: &Outcome| o.result.as_ref().err().cloned().unwrap_or_default();
    let (ea, eb) = (err_of(a), err_of(b));
    let any_err = |pat: &str| ea.contains(pat) || eb.contains(pat);
    let morsel_parquet = |o: &Outcome| o.parquet && !o.variant.morsel_off;

    // (1) MorselAggregateExec's dense direct-address path rejects NULL group keys
    if any_err("dense agg: null group keys unsupported") && f("group_by") && f("groupkey_nullable") {
        return Some("morsel-dense-null-group-key");
    }
    // (2) aggregate-input type of a table-qualified column defaults to Float64 on the
    //     morsel paths (the file schema is unqualified): dense path errors, generic
    //     path sums an integer column as NULL
    let qualified_agg_over_unaliased = f("no_alias") && f("shape_agg");
    if qualified_agg_over_unaliased && (any_err("dense agg: expected Float64") || any_err("dense agg: expected Int64")) {
        return Some("morsel-agg-qualified-column-type");
    }
    if let (Ok(ra), Ok(rb), Some(s)) = (&a.result, &b.result, sel) {
        let sentinel_vs_null = ra.len() == 1
            && rb.len() == 1
            && ra[0].iter().zip(rb[0].iter()).any(|(x, y)| match (x, y) {
                (Value::Null, Value::Double(d)) | (Value::Double(d), Value::Null) => d.is_infinite() || *d == f64::MAX || *d == f64::MIN,
                (Value::Null, Value::Int(i)) | (Value::Int(i), Value::Null) => *i == i64::MAX || *i == i64::MIN || *i == i32::MAX as i64 || *i == i32::MIN as i64,
                _ => false,
            });
        if qualified_agg_over_unaliased && !sentinel_vs_null && (morsel_parquet(a) != morsel_parquet(b)) {
            let (only_a, only_b) = sym_diff(ra, rb);
            let (morsel_rows, other_rows) = if morsel_parquet(a) { (&only_a, &only_b) } else { (&only_b, &only_a) };
            let sum_cols: Vec<usize> = s
                .items
                .iter()
                .enumerate()
                .filter(|(_, it)| matches!(it, Item::Expr(Expr::Agg { f: AggF::Sum | AggF::Avg | AggF::Min | AggF::Max, .. }, _)))
                .map(|(j, _)| j)
                .collect();
            let null_in_agg = |r: &Vec<Value>| sum_cols.iter().any(|j| r.get(*j).map(|v| v.is_null()).unwrap_or(false));
            if !morsel_rows.is_empty() && morsel_rows.iter().all(null_in_agg) && morsel_rows.len() == other_rows.len() {
                return Some("morsel-agg-qualified-column-type");
            }
        }
    }
    // (2b) the dense direct-address aggregate has no "saw a non-NULL input" state: SUM of a
    //      group with only NULL inputs is 0 and its AVG is NaN (0/0) instead of NULL
    if let (Ok(ra), Ok(rb), Some(s)) = (&a.result, &b.result, sel) {
        if let Group::By(keys) = &s.group {
            if keys.len() == 1 && morsel_parquet(a) != morsel_parquet(b) {
                let (only_a, only_b) = sym_diff(ra, rb);
                let (m, o) = if morsel_parquet(a) { (&only_a, &only_b) } else { (&only_b, &only_a) };
                let zeroish = |v: &Value| match v {
                    Value::Int(0) => true,
                    Value::Double(d) => *d == 0.0 || d.is_nan(),
                    _ => false,
                };
                if !m.is_empty()
                    && m.len() == o.len()
                    && m.iter().all(|r| {
                        // the row of the other side with the same key differs only in NULL vs 0/NaN cells
                        o.iter().any(|q| {
                            value_eq(&q[0], &r[0], 0.0) && q.iter().zip(r.iter()).all(|(x, y)| value_eq(x, y, 1e-9) || (x.is_null() && zeroish(y)))
                        })
                    })
                {
                    return Some("morsel-dense-sum-of-no-values");
                }
            }
        }
    }
    // (3) an aggregate function / input type pair implemented by one aggregation path only
    let not_impl = |e: &str| e.contains("Not implemented: ") && (e.contains("not implemented for type") || e.contains("not supported"));
    if (not_impl(&ea) || not_impl(&eb)) && (f("shape_agg") || f("shape_distinct")) {
        return Some("agg-type-not-implemented-on-some-path");
    }
    // (3b) C01 finding agg-empty-input: a global aggregate over no (non-NULL) input returns a
    //      sentinel on some paths and NULL on others
    if let (Ok(ra), Ok(rb)) = (&a.result, &b.result) {
        if f("global_agg") && ra.len() == 1 && rb.len() == 1 {
            let sentinel = |v: &Value| match v {
                Value::Int(i) => *i == i64::MAX || *i == i64::MIN || *i == i32::MAX as i64 || *i == i32::MIN as i64,
                Value::Double(d) => d.is_infinite() || *d == f64::MAX || *d == f64::MIN,
                Value::Date(d) => *d == i32::MAX || *d == i32::MIN,
                _ => false,
            };
            let cells: Vec<(&Value, &Value)> = ra[0].iter().zip(rb[0].iter()).filter(|(x, y)| !value_eq(x, y, 1e-9)).collect();
            if !cells.is_empty() && cells.iter().all(|(x, y)| (x.is_null() && sentinel(y)) || (y.is_null() && sentinel(x))) {
                return Some("agg-empty-input");
            }
        }
    }
    // (4) C01 finding agg-null-group-key: which aggregation path runs depends on the layout
    if let (Ok(ra), Ok(rb), Some(s)) = (&a.result, &b.result, sel) {
        if let Group::By(keys) = &s.group {
            let nk = keys.len();
            let (only_a, only_b) = sym_diff(ra, rb);
            let null_key = |r: &Vec<Value>| r.iter().take(nk).any(|v| v.is_null());
            // the NULL group is dropped, split, or merged into ONE other group (the raw
            // integer-key path folds NULL into a sentinel key): the differing rows belong
            // to the NULL group(s) and to at most one further group
            let mut other_keys: Vec<Vec<Value>> = only_a.iter().chain(only_b.iter()).filter(|r| !null_key(r)).map(|r| r.iter().take(nk).cloned().collect()).collect();
            other_keys.sort_by(|x, y| row_cmp(x, y));
            other_keys.dedup();
            // (the NULL group itself may be equal on both sides while its rows also leaked
            // into the sentinel group: the data condition is a NULL key in either answer)
            let some_null = ra.iter().chain(rb.iter()).any(null_key);
            if some_null && !(only_a.is_empty() && only_b.is_empty()) && other_keys.len() <= 1 {
                return Some("agg-null-group-key");
            }
        }
    }
    // (5) PackedJoinKeys takes integer bounds for a join-key column from ANY table that
    //     has a column of that name
    if f("join_inner") && f("join_multikey") && (a.parquet != b.parquet || a.stats != b.stats) {
        if let Some(s) = sel {
            if let Some(From::Join { on: Some(on), .. }) = s.from.first() {
                let mut key_names: Vec<String> = vec![];
                on.walk(&mut |e| {
                    if let Expr::Col { name, .. } = e {
                        key_names.push(name.clone());
                    }
                });
                let foreign = key_names.iter().any(|n| {
                    let tys: Vec<ColType> = c.tables.iter().flat_map(|t| t.cols.iter().filter(|col| &col.name == n).map(|col| col.ty)).collect();
                    tys.iter().any(|t| t.is_int()) && tys.iter().any(|t| !t.is_int())
                });
                if foreign {
                    return Some("packed-join-keys-foreign-bounds");
                }
            }
        }
    }
    // (6) GroupKeyReduction treats ndv_est = min(rows, max-min+1) >= rows as proof of uniqueness
    if f("group_by") && (a.stats != b.stats || a.parquet != b.parquet) {
        if let Some(s) = sel {
            if let Group::By(keys) = &s.group {
                if keys.len() >= 2 {
                    for k in keys {
                        if let Expr::Col { name, .. } = k {
                            for (t, spec) in tables.iter().zip(c.tables.iter()) {
                                if let Some(j) = spec.cols.iter().position(|col| &col.name == name && (col.ty.is_int() || col.ty == ColType::Date)) {
                                    let vals: Vec<i64> = t
                                        .rows
                                        .iter()
                                        .filter_map(|r| match r[j] {
                                            Value::Int(i) => Some(i),
                                            Value::Date(d) => Some(d as i64),
                                            _ => None,
                                        })
                                        .collect();
                                    if vals.len() == t.rows.len() && !vals.is_empty() {
                                        let (lo, hi) = (*vals.iter().min().unwrap(), *vals.iter().max().unwrap());
                                        let mut d = vals.clone();
                                        d.sort();
                                        d.dedup();
                                        if (hi as i128 - lo as i128 + 1) >= vals.len() as i128 && d.len() < vals.len() {
                                            return Some("group-key-reduction-ndv-not-proof");
                                        }
                                    }
                                }
                            }
                        }
                    }
                }
            }
        }
    }
    None
}

fn judge(c: &Case, obs: &mut Obs, variants: &[Variant], with_mem_layout: bool, use_marks: bool) -> Verdict {
    let tables: Vec<Table> = c.tables.iter().map(|t| t.expand()).collect();
    let sql = c.stmt.query.sql();
    for f in &c.stmt.features {
        obs.label(format!("feat:{}", f));
    }
    obs.sample(serde_json::json!({"sql": sql, "rows": c.tables.iter().map(|t| t.n_rows).collect::<Vec<_>>(),
        "layouts": c.layouts.iter().map(|l| format!("rg={} files={} stats={} empty_file={}", l.row_group_size, l.file_cut_sels.len() + 1, l.stats, l.empty_file)).collect::<Vec<_>>() }));
    let tol = if c.stmt.uses_avg { 1e-9 } else { 0.0 };
    let tmp = TempDir::new("c04");
    let plain = Variant::default();
    let mut outs: Vec<Outcome> = vec![];
    let take = |use_marks: bool| -> Vec<&'static str> {
        if use_marks {
            query_engine::verif_hooks::take_marks().into_keys().collect()
        } else {
            vec![]
        }
    };
    let _ = take(use_marks);
    // memory
    outs.push(Outcome { name: "memory/1-batch".into(), parquet: false, row_groups: 0, stats: 0, variant: plain, result: run(&tables, &Reg::Mem(&[]), &plain, &sql), marks: take(use_marks) });
    if with_mem_layout {
        outs.push(Outcome { name: "memory/batches".into(), parquet: false, row_groups: 0, stats: 0, variant: plain, result: run(&tables, &Reg::Mem(&c.mem_cut_sels), &plain, &sql), marks: take(use_marks) });
    }
    // parquet layouts: the canonical one + the generated ones
    let mut layouts: Vec<(String, Vec<ParquetLayout>)> = vec![("parquet/1file-1rg".into(), tables.iter().map(|_| ParquetLayout::single()).collect())];
    for (i, p) in c.layouts.iter().enumerate() {
        layouts.push((
            format!("parquet/L{}(rg={},files={},stats={},dict={},empty_file={})", i, p.row_group_size, p.file_cut_sels.len() + 1, p.stats, p.dictionary, p.empty_file),
            tables.iter().map(|t| to_layout(p, t.rows.len())).collect(),
        ));
    }
    for (li, (lname, per_table)) in layouts.iter().enumerate() {
        let dir = tmp.path().join(format!("l{}", li));
        let mut rgs = 0;
        for (t, l) in tables.iter().zip(per_table.iter()) {
            write_parquet(t, &dir.join(&t.name), l);
            rgs = rgs.max(row_groups(l, t.rows.len()));
        }
        for v in variants {
            // canonical layout: plain and the all-overrides variant only
            if li == 0 && *v != plain && !(v.force_big && v.no_prescan && v.force_disjoint && !v.morsel_off) {
                continue;
            }
            outs.push(Outcome { name: format!("{} [{}]", lname, v.name()), parquet: true, row_groups: rgs, stats: per_table.iter().map(|l| l.stats).max().unwrap_or(0), variant: *v, result: run(&tables, &Reg::Parquet(&dir), v, &sql), marks: take(use_marks) });
        }
    }

    // ---- oracle
    let n_ok = outs.iter().filter(|o| o.result.is_ok()).count();
    for o in &outs {
        if let Err(e) = &o.result {
            obs.label(format!("error:{}", short_err(e)));
        }
        for m in &o.marks {
            obs.label(format!("path:{}", m));
        }
    }
    if n_ok == 0 {
        obs.label("all_configurations_error");
        return Verdict::Pass;
    }
    let base_idx = outs.iter().position(|o| o.result.is_ok()).unwrap();
    let mut known: Option<(String, String)> = None;
    let describe = |a: &Outcome, b: &Outcome, why: &str| -> String {
        let show = |o: &Outcome| match &o.result {
            Ok(r) => format!("{} rows", r.len()),
            Err(e) => format!("ERROR {}", e.lines().next().unwrap_or("")),
        };
        let mut s = format!("{}\n sql: {}\n  [{}] -> {}\n  [{}] -> {}\n", why, sql, a.name, show(a), b.name, show(b));
        if let (Ok(x), Ok(y)) = (&a.result, &b.result) {
            s.push_str(&diff_summary(x, y, 8));
            s.push_str(&format!("\n {}", third_opinion(&tables, &c.stmt.query, &[("first", x), ("second", y)], tol)));
        } else if let Ok(x) = a.result.as_ref().or(b.result.as_ref()) {
            s.push_str(&format!(" {}", third_opinion(&tables, &c.stmt.query, &[("the answering side", x)], tol)));
        }
        let vs_base = |o: &Outcome| match (&outs[base_idx].result, &o.result) {
            (Ok(x), Ok(y)) => {
                if same_answer(x, y, &c.stmt.order_keys, tol).is_ok() {
                    " (= baseline)"
                } else {
                    " (DIFFERS)"
                }
            }
            _ => "",
        };
        s.push_str(&format!(
            "\n all configurations (baseline = [{}]):\n   {}\n tables:\n{}",
            outs[base_idx].name,
            outs.iter().map(|o| format!("{} -> {}{}", o.name, show(o), vs_base(o))).collect::<Vec<_>>().join("\n   "),
            fmt_specs(&c.tables)
        ));
        s
    };
    for (i, o) in outs.iter().enumerate() {
        if i == base_idx {
            continue;
        }
        let base = &outs[base_idx];
        let bad: Option<String> = match (&base.result, &o.result) {
            (Ok(a), Ok(b)) => same_answer(a, b, &c.stmt.order_keys, tol).err().map(|w| format!("answers differ between configurations: {}", w)),
            (Ok(_), Err(_)) => Some("the statement succeeds on one configuration and fails on another".to_string()),
            _ => None,
        };
        if let Some(why) = bad {
            let msg = describe(base, o, &why);
            match classify(c, &tables, base, o) {
                Some(id) => {
                    obs.label(format!("known:{}", id));
                    known.get_or_insert((id.to_string(), msg));
                }
                None => return Verdict::Fail(msg),
            }
        }
    }
    // ---- non-triviality
    let mem_ok = outs.iter().any(|o| !o.parquet && o.result.is_ok());
    let multi_rg_ok = outs.iter().any(|o| o.parquet && o.row_groups > 1 && o.result.is_ok());
    obs.nontrivial(mem_ok && multi_rg_ok);
    if multi_rg_ok {
        obs.label("parquet_multi_row_group_answered");
    }
    let mut path_sets: Vec<&Vec<&'static str>> = outs.iter().filter(|o| !o.marks.is_empty()).map(|o| &o.marks).collect();
    path_sets.sort();
    path_sets.dedup();
    if path_sets.len() >= 2 {
        obs.label("two_or_more_distinct_physical_paths");
    }
    match known {
        Some((id, msg)) => Verdict::Known { id, msg },
        None => Verdict::Pass,
    }
}

pub struct Layouts;
impl Check for Layouts {
    type Case = Case;
    fn name(&self) -> &'static str {
        "layouts"
    }
    fn rule(&self) -> &'static str {
        "the statement was answered by a memory registration and by at least one Parquet registration with more than one row group (so >=2 layouts that differ in kind were compared)"
    }
    fn cases(&self, tier: Tier) -> u32 {
        tier.pick(320, 10_000)
    }
    fn max_shrink_iters(&self) -> u32 {
        400
    }
    fn strategy(&self, tier: Tier) -> BoxedStrategy<Case> {
        strategy(tier)
    }
    fn test(&self, c: &Case, obs: &mut Obs) -> Verdict {
        let variants = [Variant::default(), Variant { morsel_off: true, ..Variant::default() }];
        judge(c, obs, &variants, true, false)
    }
}

pub struct ForcedPaths;
impl Check for ForcedPaths {
    type Case = Case;
    fn name(&self) -> &'static str {
        "forced_paths"
    }
    fn rule(&self) -> &'static str {
        "as `layouts`, where the Parquet registrations ran under the planner overrides force_big / no_prescan / force_disjoint (alone, combined, and with morsel execution off)"
    }
    fn cases(&self, tier: Tier) -> u32 {
        tier.pick(80, 4_000)
    }
    fn workers(&self, _tier: Tier) -> usize {
        1 // verif_hooks overrides are process-global atomics
    }
    fn max_shrink_iters(&self) -> u32 {
        400
    }
    fn strategy(&self, tier: Tier) -> BoxedStrategy<Case> {
        strategy(tier)
    }
    fn test(&self, c: &Case, obs: &mut Obs) -> Verdict {
        let variants = [
            Variant { force_big: true, ..Variant::default() },
            Variant { no_prescan: true, ..Variant::default() },
            Variant { force_disjoint: true, ..Variant::default() },
            Variant { force_big: true, no_prescan: true, force_disjoint: true, morsel_off: false },
            Variant { force_big: true, no_prescan: true, force_disjoint: true, morsel_off: true },
        ];
        judge(c, obs, &variants, false, true)
    }
}

pub fn property() -> Property {
    Property {
        id: "C04",
        level: "exploration",
        assumptions: &[
            "the size-gated planner paths (streaming filtered scan > 400 MB, no prescan > 400 MB, disjoint fused aggregate for 2M..64M key ranges) are reached through the verif-hooks overrides, not through files of that size",
            "an error on every configuration is an allowed outcome; an error on some but not all configurations is a violation (property text)",
            "doubles are multiples of 0.25 so sums are exact under any association order; AVG results are compared with relative tolerance 1e-9",
            "LIMIT/OFFSET are generated only with an ORDER BY over all output columns, so the statement has one right answer",
        ],
        checks: vec![Box::new(Layouts), Box::new(ForcedPaths)],
    }
}

/// Triage aid (`check --worker c04dbg <replay.json> ["other sql"]`): physical
/// plans and answers of the statement on the memory and Parquet registrations.
pub fn debug(args: &[String]) {
    let doc: serde_json::Value = serde_json::from_str(&std::fs::read_to_string(&args[0]).expect("read")).expect("json");
    let c: Case = serde_json::from_value(doc["case"].clone()).expect("case");
    let sql = args.get(1).cloned().unwrap_or_else(|| c.stmt.query.sql());
    let tables: Vec<Table> = c.tables.iter().map(|t| t.expand()).collect();
    println!("SQL: {}\n{}", sql, fmt_specs(&c.tables));
    let tmp = TempDir::new("c04dbg");
    let mut regs: Vec<(String, Option<std::path::PathBuf>)> = vec![("memory".into(), None)];
    let mut layouts: Vec<Vec<ParquetLayout>> = vec![tables.iter().map(|_| ParquetLayout::single()).collect()];
    for p in &c.layouts {
        layouts.push(tables.iter().map(|t| to_layout(p, t.rows.len())).collect());
    }
    for (li, per_table) in layouts.iter().enumerate() {
        let dir = tmp.path().join(format!("l{}", li));
        for (t, l) in tables.iter().zip(per_table.iter()) {
            write_parquet(t, &dir.join(&t.name), l);
        }
        regs.push((format!("parquet L{} {:?}", li, per_table), Some(dir)));
    }
    let variants = [
        Variant::default(),
        Variant { morsel_off: true, ..Variant::default() },
        Variant { force_big: true, ..Variant::default() },
        Variant { no_prescan: true, ..Variant::default() },
        Variant { force_disjoint: true, ..Variant::default() },
    ];
    for (name, dir) in &regs {
        for v in &variants {
            if dir.is_none() && *v != Variant::default() {
                continue;
            }
            let cfg = ExecutionConfig::default().with_morsel_execution(!v.morsel_off);
            let mut ctx = ExecutionContext::with_config(cfg);
            for t in &tables {
                match dir {
                    None => register_mem(&mut ctx, t, &[]),
                    Some(d) => ctx.register_parquet(t.name.clone(), d.join(&t.name)).expect("register"),
                }
            }
            let _g = HookGuard::set(v);
            let plan = match ctx.physical_plan(&sql) {
                Ok(p) => query_engine::physical::display_plan(p.as_ref(), 0).replace('\n', " / "),
                Err(e) => format!("plan error: {}", e),
            };
            if std::env::var("C04DBG_LOGICAL").is_ok() {
                match ctx.optimized_plan(&sql) {
                    Ok(p) => println!("    optimized logical plan:\n{}", p),
                    Err(e) => println!("    optimize error: {}", e),
                }
            }
            match run_sql(&ctx, &sql) {
                Ok(mut r) => {
                    canon_sort(&mut r);
                    println!("--- {} [{}]\n    plan: {}\n    {} rows, marks {:?}\n{}", name, v.name(), plan, r.len(), query_engine::verif_hooks::take_marks(), fmt_rows(&r, 12));
                }
                Err(e) => println!("--- {} [{}]\n    plan: {}\n    ERROR {}", name, v.name(), plan, e),
            }
        }
    }
}
