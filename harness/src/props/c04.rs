//! C04 — not implemented yet.
use super::Property;

pub fn property() -> Property {
    Property { id: "C04", level: "exploration", assumptions: &[], checks: vec![] }
}
