//! C36: signature predicates of the open known findings. Every predicate is
//! tied to one root cause in src/physical/operators/filter.rs and checks the
//! *observed value* against the value that root cause produces, so that any
//! other wrong answer of the same function is still a violation.
use super::r;
use super::specs::Spec;
use super::{call_with_literals, eval_lits, Failure, FnCase};
use crate::data::{value_eq, ColType, Value};

fn is_int_arg(spec: &Spec, k: usize) -> bool {
    spec.kinds[k].coltype() == ColType::Int
}

/// functions whose integer argument is fetched with `get_int_value`, which
/// ignores the validity bitmap (NULL is read as the slot's 0 / a default)
const INT_ARG_FUNCS: &[&str] = &[
    "LEFT",
    "RIGHT",
    "REPEAT",
    "LPAD",
    "RPAD",
    "SUBSTR/2",
    "SUBSTRING/3",
    "SUBSTRING/from-for",
    "SPLIT_PART",
    "DATE_ADD/day",
    "DATE_ADD/week",
    "DATE_ADD/month",
    "DATE_ADD/year",
];

pub fn classify(spec: &Spec, c: &FnCase, f: &Failure) -> Option<&'static str> {
    let t = &c.rows[f.row];
    let name = spec.name;
    let str_at = |k: usize| match &t[k] {
        Value::Str(s) => Some(s.as_str()),
        _ => None,
    };

    // LENGTH counts UTF-8 bytes (`s.len()`)
    if (name == "LENGTH" || name == "CHAR_LENGTH") && f.vs_reference {
        if let (Some(s), Value::Int(g)) = (str_at(0), &f.got) {
            if !s.is_ascii() && *g == s.len() as i64 {
                return Some("length-counts-bytes");
            }
        }
    }
    // POSITION/STRPOS return the byte offset of `str::find`
    if (name == "STRPOS" || name == "POSITION") && f.vs_reference {
        if let (Some(h), Some(n), Value::Int(g)) = (str_at(0), str_at(1), &f.got) {
            if *g == r::byte_pos(h, n) && *g != r::char_pos(h, n) {
                return Some("strpos-byte-offset");
            }
        }
    }
    // HAMMING_DISTANCE guards on byte length, then compares code points
    if name == "HAMMING_DISTANCE" && f.vs_reference && f.got.is_null() {
        if let (Some(a), Some(b)) = (str_at(0), str_at(1)) {
            if a.chars().count() == b.chars().count() && a.len() != b.len() {
                return Some("hamming-distance-byte-length-guard");
            }
        }
    }
    // CRC32 is narrowed to Int32 (`as i32`)
    if name == "CRC32" && f.vs_reference {
        if let (Some(s), Value::Int(g)) = (str_at(0), &f.got) {
            let crc = r::crc32(s.as_bytes());
            if crc >= (1 << 31) && *g == (crc as i32) as i64 {
                return Some("crc32-narrowed-to-int32");
            }
        }
    }
    // SUBSTRING's row loop reads `str_arr.value(i)` without a NULL test
    if name.starts_with("SUBSTR") && t[0].is_null() {
        let empty = Value::Str(String::new());
        let pair_ok = |a: &Value, b: &Value| (*a == empty && b.is_null()) || (*b == empty && a.is_null());
        if f.vs_reference && f.got == empty {
            return Some("substring-null-string-gives-empty");
        }
        if let Some((_, o, _)) = &f.other {
            if pair_ok(&f.got, o) {
                return Some("substring-null-string-gives-empty");
            }
        }
    }
    // GREATEST/LEAST fold with zip(NULL mask): a NULL on the left is skipped,
    // a NULL on the right wins
    if (name.starts_with("GREATEST/") || name.starts_with("LEAST/")) && t.iter().any(|v| v.is_null()) && f.vs_reference {
        let greatest = name.starts_with("GREATEST/");
        let mut acc = t[0].clone();
        for b in &t[1..] {
            let keep = !acc.is_null() && !b.is_null() && {
                let o = acc.canon_cmp(b);
                if greatest {
                    o == std::cmp::Ordering::Greater
                } else {
                    o == std::cmp::Ordering::Less
                }
            };
            if !keep {
                acc = b.clone();
            }
        }
        if !acc.is_null() && value_eq(&acc, &f.got, 0.0) {
            return Some("greatest-least-null-order-dependent");
        }
    }
    // IS_NAN/IS_FINITE/IS_INFINITE: a non-Float64 argument (the untyped NULL
    // literal) takes the "integers are finite" branch
    if matches!(name, "IS_NAN" | "IS_FINITE" | "IS_INFINITE") && t[0].is_null() && c.bare_null {
        let lit_side = f.path == "literal" || f.path == "mixed" || matches!(&f.other, Some((p, _, _)) if *p == "literal" || *p == "mixed");
        if lit_side {
            return Some("is-nan-untyped-null-not-null");
        }
    }
    // both of the two NULL-ignoring causes below at once (LPAD(s, NULL, NULL))
    if INT_ARG_FUNCS.contains(&name) && !spec.row0.is_empty() {
        let ignored = |k: usize| is_int_arg(spec, k) || spec.row0.contains(&k);
        let some_null = (0..t.len()).any(|k| ignored(k) && t[k].is_null());
        let others_present = (0..t.len()).all(|k| ignored(k) || !t[k].is_null());
        let nonnull_result = !f.got.is_null() || matches!(&f.other, Some((_, o, _)) if !o.is_null());
        if some_null && others_present && nonnull_result {
            return Some(if (0..t.len()).any(|k| is_int_arg(spec, k) && t[k].is_null()) {
                "integer-argument-null-ignored"
            } else {
                "parameter-read-from-row0"
            });
        }
    }
    // integer arguments: NULL ignored
    if INT_ARG_FUNCS.contains(&name) {
        let null_int = (0..t.len()).any(|k| is_int_arg(spec, k) && t[k].is_null());
        let others_present = (0..t.len()).all(|k| is_int_arg(spec, k) || !t[k].is_null());
        let nonnull_result = !f.got.is_null() || matches!(&f.other, Some((_, o, _)) if !o.is_null());
        if null_int && others_present && nonnull_result {
            return Some("integer-argument-null-ignored");
        }
    }
    // parameters read once per batch at row 0, validity ignored
    if !spec.row0.is_empty() {
        // (a) the parameter of this very tuple is NULL and a value came out
        if spec.row0.iter().any(|k| t[*k].is_null()) && (0..t.len()).all(|k| spec.row0.contains(&k) || !t[k].is_null()) {
            let nonnull_result = !f.got.is_null() || matches!(&f.other, Some((_, o, _)) if !o.is_null());
            if nonnull_result {
                return Some("parameter-read-from-row0");
            }
        }
        // (b) a column path answered with the parameter of the batch's first row
        let mut candidates: Vec<(&Value, usize)> = vec![];
        if let Some(bf) = f.batch_first {
            candidates.push((&f.got, bf));
        }
        if let Some((_, o, Some(bf))) = &f.other {
            candidates.push((o, *bf));
        }
        for (val, bf) in candidates {
            let lead = &c.rows[bf];
            if spec.row0.iter().all(|k| lead[*k] == t[*k]) {
                continue;
            }
            let mut sub = t.clone();
            for k in &spec.row0 {
                sub[*k] = match &lead[*k] {
                    Value::Null => match spec.kinds[*k].coltype() {
                        ColType::Str => Value::Str(String::new()),
                        _ => Value::Int(0),
                    },
                    v => v.clone(),
                };
            }
            let expr = call_with_literals(spec, &spec.tpl, &sub, false);
            if let Some(Ok(v)) = eval_lits(&[expr]).into_iter().next() {
                if value_eq(&v, val, 0.0) {
                    return Some("parameter-read-from-row0");
                }
            }
        }
    }
    None
}
