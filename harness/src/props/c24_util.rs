//! Helpers shared by the focused SQL properties C23 / C24 / C28 (included with
//! `#[path = "c24_util.rs"] mod util;`): a `judge` that takes the SQL text to
//! send to the engine explicitly and hands back both answers, so a property can
//! add a second (differential / metamorphic) oracle on top of the reference.
#![allow(dead_code)]

use crate::data::*;
use crate::engine::*;
use crate::refsql::{self, Db, Mode, RefAnswer};
use crate::runner::*;
use crate::sqlcheck::{fmt_tables, mem_context, short_err};
use crate::sqlgen::SqlCase;
use std::collections::BTreeSet;

pub type Ev = BTreeSet<&'static str>;

pub struct Out {
    pub verdict: Verdict,
    pub reference: Option<RefAnswer>,
    /// the engine's rows when it answered
    pub got: Option<Rows>,
    pub events: Ev,
    /// reference answer changes under two-valued logic or set semantics
    pub sensitive: bool,
}

/// Run `sql` (the engine-dialect text of `c.query`, possibly rendered in a
/// property-specific way) through the engine and `c.query` through the
/// reference; compare per DESIGN §3.4.
pub fn judge_text(
    c: &SqlCase,
    sql: &str,
    obs: &mut Obs,
    tol: f64,
    classify: &dyn Fn(&SqlCase, &Ev, &str) -> Option<&'static str>,
) -> Out {
    for f in &c.features {
        obs.label(format!("feat:{}", f));
    }
    obs.sample(serde_json::json!({
        "sql": sql,
        "tables": c.tables.iter().map(|t| format!("{}({} rows x {} cols)", t.name, t.rows.len(), t.cols.len())).collect::<Vec<_>>()
    }));
    let db = Db::new(&c.tables);
    let reference = match db.run(&c.query) {
        Ok(r) => r,
        Err(e) => {
            return Out {
                verdict: Verdict::Discard(format!("ref:{}", short_err(&e))),
                reference: None,
                got: None,
                events: db.events.borrow().clone(),
                sensitive: false,
            }
        }
    };
    let events = db.events.borrow().clone();
    if reference.sorted_full.is_none() && (reference.limit.is_some() || reference.offset.is_some()) {
        return Out { verdict: Verdict::Discard("limit_without_order".into()), reference: None, got: None, events, sensitive: false };
    }
    let mut sensitive = false;
    for m in [Mode::TwoValued, Mode::SetSemantics] {
        if let Ok(alt) = Db::with_mode(&c.tables, m).run(&c.query) {
            if !multiset_eq(&alt.rows, &reference.rows, 0.0) {
                sensitive = true;
                obs.label(if m == Mode::TwoValued { "sensitive:3vl" } else { "sensitive:multiset" });
            }
        }
    }
    let ctx = mem_context(c);
    let got = match run_sql(&ctx, sql) {
        Ok(rows) => rows,
        Err(e) => {
            obs.label(format!("engine_error:{}", short_err(&e)));
            if std::env::var("VERIF_LONG_ERR").is_ok() {
                eprintln!("ENGINE-ERROR {} || {}", e.lines().next().unwrap_or("").chars().take(160).collect::<String>(), sql);
            }
            // an error is an allowed outcome (panics/hangs belong to C29)
            return Out { verdict: Verdict::Pass, reference: Some(reference), got: None, events, sensitive };
        }
    };
    obs.label("engine_ok");
    let verdict = match refsql::compare_answer(&reference, &got, tol) {
        Ok(()) => Verdict::Pass,
        Err(msg) => {
            let full = format!("{}\n sql: {}\n ref-events: {:?}\n tables: {}", msg, sql, events, fmt_tables(&c.tables));
            match classify(c, &events, &msg) {
                Some(id) => Verdict::Known { id: id.to_string(), msg: full },
                None => Verdict::Fail(full),
            }
        }
    };
    Out { verdict, reference: Some(reference), got: Some(got), events, sensitive }
}

/// Multiset comparison of two engine answers (second oracles).
pub fn same_rows(a: &Rows, b: &Rows, tol: f64) -> bool {
    multiset_eq(a, b, tol)
}

pub fn show(rows: &Rows) -> String {
    let mut r = rows.clone();
    canon_sort(&mut r);
    fmt_rows(&r, 30)
}
