//! C09 — A distributed answer equals the single-node answer.
//!
//! Generator: 1–3 Parquet tables (multi-file, tiny row groups, sometimes empty
//! or with fewer splits than nodes) under a temp directory; a cluster of 1..8
//! participants with the initiator at a random position, peers reading the
//! same files or a byte-identical copy under another directory; a statement
//! from one of two profiles of `sqlgen`:
//!   * scatter — one block over 1–2 relations with filters, the five mergeable
//!     aggregates, GROUP BY / HAVING, ORDER BY / LIMIT / OFFSET (the planner
//!     elects Concat / TwoPhase / TopN, or falls back to gather);
//!   * gather  — the full grammar (joins of sharded tables, subqueries,
//!     DISTINCT, COUNT(DISTINCT), set operations, CTEs, derived tables) plus
//!     window functions added here.
//! Oracle (engine-vs-engine, it IS the property): `execute_any_distributed`
//! through the in-process transport vs `ctx.sql` on one node over the same
//! files: same multiset; with ORDER BY the distributed rows must be a valid
//! ordering/window of the single-node rows of the statement without
//! LIMIT/OFFSET (tie groups, DESIGN §3.4). `NotImplemented` is an accepted
//! refusal. `refsql`'s answer is printed as a third opinion only.
use super::Property;
use crate::data::*;
use crate::engine::run_sql;
use crate::kf_sql::classify_sql;
use crate::refsql::{self, Db};
use crate::runner::*;
use crate::sqlast::*;
use crate::sqlgen::*;
use proptest::prelude::*;
use serde::{Deserialize, Serialize};

#[path = "c09_cluster.rs"]
pub mod cluster;
use cluster::*;

#[derive(Clone, Debug, Serialize, Deserialize)]
pub struct DistCase {
    pub tables: Vec<PqTable>,
    pub cluster: ClusterSpec,
    pub query: Query,
    pub features: Vec<String>,
}

pub fn scatter_profile() -> Profile {
    Profile::from_spec(
        "minimal+logic+deep+group_by+having+order_by+limit+nulls_order+joins2+explicit_joins+outer_joins+cross_joins+comma_joins+residual_on+like+in_list_null+is_distinct_from+bool_literals",
    )
}

pub fn gather_profile() -> Profile {
    let mut p = Profile::full();
    p.max_from = 2;
    p
}

fn first_select_mut(b: &mut SetExpr) -> Option<&mut Select> {
    match b {
        SetExpr::Select(s) => Some(s),
        _ => None,
    }
}
pub fn first_select(b: &SetExpr) -> Option<&Select> {
    match b {
        SetExpr::Select(s) => Some(s),
        SetExpr::Op { l, .. } => first_select(l),
        SetExpr::Nested(q) => first_select(&q.body),
        SetExpr::Values(_) => None,
    }
}

/// Deterministic window functions only (ranking over an ORDER BY, whole-partition
/// aggregates): the answer must not depend on the arrival order of the rows.
fn add_window(q: &mut Query, t: &mut Tape, features: &mut Vec<String>) {
    let Some(sel) = first_select_mut(&mut q.body) else { return };
    if sel.distinct || sel.group != Group::None || sel.having.is_some() || sel.items.iter().any(|i| matches!(i, Item::Expr(e, _) if e.contains_agg())) {
        return;
    }
    // columns nameable in this block: the qualified columns already used by the projection / filter
    let mut cols: Vec<Expr> = vec![];
    for it in &sel.items {
        if let Item::Expr(e, _) = it {
            e.walk(&mut |x| {
                if matches!(x, Expr::Col { rel: Some(_), .. }) && !cols.contains(x) {
                    cols.push(x.clone());
                }
            });
        }
    }
    if cols.is_empty() {
        return;
    }
    let c1 = cols[t.pick(cols.len())].clone();
    let c2 = cols[t.pick(cols.len())].clone();
    let call = match t.pick(4) {
        0 => WindowCall { f: WinF::Rank, args: vec![], partition: if t.chance(50) { vec![c2] } else { vec![] }, order: vec![OrderKey { e: c1, desc: t.chance(40), nulls_first: None }], frame: None },
        1 => WindowCall { f: WinF::DenseRank, args: vec![], partition: vec![], order: vec![OrderKey { e: c1, desc: false, nulls_first: None }], frame: None },
        2 => WindowCall { f: WinF::Count, args: vec![], partition: vec![c1], order: vec![], frame: None },
        _ => WindowCall { f: WinF::Count, args: vec![c2], partition: vec![c1], order: vec![], frame: None },
    };
    sel.items.push(Item::Expr(Expr::Win(Box::new(call)), Some("wf_out".into())));
    features.push("window".into());
}

pub fn tables_with_layout(max_rows: usize, min_tables: usize, max_tables: usize) -> BoxedStrategy<Vec<PqTable>> {
    // INTEGER (Int32) columns are rarer than in the default profile: mixed-width COALESCE/NULLIF
    // arguments are a latent engine type error that only wastes cases here
    let tp = TableProfile {
        min_tables,
        max_tables,
        max_cols: 4,
        max_rows,
        types: vec![ColType::Int, ColType::Int, ColType::Int, ColType::Int, ColType::Int32, ColType::Double, ColType::Double, ColType::Str, ColType::Str, ColType::Date, ColType::Bool],
        ..TableProfile::default()
    };
    (
        tables_strategy(tp),
        proptest::collection::vec(tiny_layout_strategy(max_rows), 3),
        // how many rows each table keeps: all / none (empty table) / very few (fewer splits than nodes)
        proptest::collection::vec(prop_oneof![7 => Just(usize::MAX), 1 => Just(0usize), 2 => 1usize..4], 3),
    )
        .prop_map(|(tables, layouts, keep)| {
            tables
                .into_iter()
                .enumerate()
                .map(|(i, mut t)| {
                    t.rows.truncate(keep[i]);
                    PqTable { table: t, layout: layouts[i].clone() }
                })
                .collect()
        })
        .boxed()
}

/// Focused scatter templates (the shapes the M-mutants live in): a two-phase
/// aggregate that always carries an AVG next to other mergeable aggregates, and
/// a TopN with LIMIT and (mostly non-zero) OFFSET.
fn scatter_template(g: &mut Gen, cat: &Catalog, features: &mut Vec<String>) -> Query {
    let (from, sc, w0) = g.from_clause_n(cat, &[], 2);
    let col = |c: &ScopeCol| Expr::qcol(&c.rel, &c.name);
    let mut conds: Vec<Expr> = w0.into_iter().collect();
    if g.t.chance(55) {
        features.push("where".into());
        conds.push(g.bool_expr(&sc, 1, false));
    }
    let where_ = conds.into_iter().reduce(Expr::and);
    let nums: Vec<ScopeCol> = sc.cols.iter().filter(|c| c.ty.is_numeric()).cloned().collect();
    if g.t.chance(60) && !nums.is_empty() {
        // two-phase with AVG
        features.push("group_by".into());
        features.push("tmpl_avg".into());
        let nk = g.t.pick(3);
        let mut items = vec![];
        let mut keys = vec![];
        for i in 0..nk {
            let k = col(&sc.cols[g.t.pick(sc.cols.len())]);
            if !keys.contains(&k) {
                items.push(Item::Expr(k.clone(), Some(format!("k{}", i + 1))));
                keys.push(k);
            }
        }
        if keys.is_empty() {
            features.push("global_agg".into());
        }
        let x = col(&nums[g.t.pick(nums.len())]);
        items.push(Item::Expr(Expr::agg(AggF::Avg, x.clone()), Some("a1".into())));
        let mut aliases = vec!["a1".to_string()];
        for i in 0..g.t.pick(3) {
            let any = &sc.cols[g.t.pick(sc.cols.len())];
            let e = match g.t.pick(5) {
                0 => Expr::count_star(),
                1 => Expr::agg(AggF::Count, col(any)),
                2 => Expr::agg(AggF::Sum, col(&nums[g.t.pick(nums.len())])),
                3 if any.ty != ColType::Bool => Expr::agg(AggF::Min, col(any)),
                4 if any.ty != ColType::Bool => Expr::agg(AggF::Max, col(any)),
                _ => Expr::agg(AggF::Avg, col(&nums[g.t.pick(nums.len())])),
            };
            let a = format!("a{}", i + 2);
            items.push(Item::Expr(e, Some(a.clone())));
            aliases.push(a);
        }
        let having = if g.t.chance(25) {
            features.push("having".into());
            Some(if g.t.chance(50) { Expr::bin(Expr::agg(AggF::Avg, x), BinOp::Ge, Expr::Lit(Value::Double(0.0))) } else { Expr::bin(Expr::count_star(), BinOp::Gt, Expr::int(g.t.pick(3) as i64)) })
        } else {
            None
        };
        for i in 0..keys.len() {
            aliases.push(format!("k{}", i + 1));
        }
        let group = if keys.is_empty() { Group::None } else { Group::By(keys) };
        let mut q = Query::select(Select { distinct: false, items, from, where_, group, having });
        if g.t.chance(50) {
            features.push("order_by".into());
            let n = 1 + g.t.pick(2);
            for _ in 0..n {
                let a = aliases[g.t.pick(aliases.len())].clone();
                if !q.order_by.iter().any(|k| k.e == Expr::col(&a)) {
                    q.order_by.push(OrderKey { e: Expr::col(&a), desc: g.t.chance(40), nulls_first: if g.t.chance(30) { Some(g.t.chance(50)) } else { None } });
                }
            }
            if g.t.chance(50) {
                features.push("limit".into());
                q.limit = Some(g.t.pick(5) as u64);
                if g.t.chance(50) {
                    features.push("offset".into());
                    q.offset = Some(1 + g.t.pick(3) as u64);
                }
            }
        }
        q
    } else {
        // TopN
        features.push("tmpl_topn".into());
        features.push("order_by".into());
        features.push("limit".into());
        let n = 1 + g.t.pick(3);
        let mut items = vec![];
        for i in 0..n {
            items.push(Item::Expr(col(&sc.cols[g.t.pick(sc.cols.len())]), Some(format!("c{}", i + 1))));
        }
        let mut q = Query::select(Select::simple(items, from, where_));
        let nk = 1 + g.t.pick(n.min(2));
        for _ in 0..nk {
            let i = g.t.pick(n);
            let e = if g.t.chance(25) { Expr::int(i as i64 + 1) } else { Expr::col(&format!("c{}", i + 1)) };
            if !q.order_by.iter().any(|k| k.e == e) {
                q.order_by.push(OrderKey { e, desc: g.t.chance(40), nulls_first: if g.t.chance(30) { Some(g.t.chance(50)) } else { None } });
            }
        }
        q.limit = Some(1 + g.t.pick(6) as u64);
        if g.t.chance(75) {
            features.push("offset".into());
            q.offset = Some(1 + g.t.pick(5) as u64);
        }
        q
    }
}

fn case_strategy(tier: Tier, gather: bool) -> BoxedStrategy<DistCase> {
    let max_rows = tier.pick(24, 60);
    (tables_with_layout(max_rows, 1, 3), cluster_strategy(8), proptest::collection::vec(any::<u16>(), 0..200), proptest::collection::vec(any::<u16>(), 8))
        .prop_map(move |(tables, cluster, tape, wtape)| {
            let plain: Vec<Table> = tables.iter().map(|t| t.table.clone()).collect();
            let cat = Catalog::of(&plain);
            let profile = if gather { gather_profile() } else { scatter_profile() };
            let mut g = Gen::new(tape, &profile);
            let templated = !gather && wtape.first().copied().unwrap_or(0) >= 39322; // 40 %
            let mut extra: Vec<String> = vec![];
            let mut query = if templated { scatter_template(&mut g, &cat, &mut extra) } else { g.query(&cat, if gather { 2 } else { 0 }).0 };
            let mut features: Vec<String> = g.features.iter().map(|s| s.to_string()).collect();
            features.extend(extra);
            let keep_unreferenced_cte = wtape.last().copied().unwrap_or(0) >= 57344;
            if gather {
                let mut t = Tape::new(wtape);
                if t.chance(20) {
                    add_window(&mut query, &mut t, &mut features);
                }
            }
            // steer away from the open finding gather-misses-unreferenced-cte-columns (kept in 1 of 8)
            if unreferenced_cte(&query) && !keep_unreferenced_cte {
                query.with.clear();
                features.retain(|f| f != "cte");
            }
            DistCase { tables, cluster, query, features }
        })
        .boxed()
}

// ---------------------------------------------------------------------------

pub fn order_keys(q: &Query) -> Option<Vec<KeySpec>> {
    let sel = first_select(&q.body)?;
    let names: Vec<Option<&str>> = sel
        .items
        .iter()
        .map(|i| match i {
            Item::Expr(_, Some(a)) => Some(a.as_str()),
            Item::Expr(Expr::Col { name, .. }, None) => Some(name.as_str()),
            _ => None,
        })
        .collect();
    if sel.items.iter().any(|i| matches!(i, Item::Star | Item::QStar(_))) {
        return None;
    }
    let mut out = vec![];
    for k in &q.order_by {
        let col = match &k.e {
            Expr::Lit(Value::Int(i)) if *i >= 1 && (*i as usize) <= names.len() => *i as usize - 1,
            Expr::Col { rel: None, name } => names.iter().position(|n| *n == Some(name.as_str()))?,
            _ => return None,
        };
        out.push(KeySpec { col, desc: k.desc, nulls_first: k.nulls_first });
    }
    Some(out)
}

pub fn has_avg(q: &Query) -> bool {
    q.sql().contains("AVG(")
}

pub fn sql_case_of(c: &DistCase) -> SqlCase {
    SqlCase { tables: c.tables.iter().map(|t| t.table.clone()).collect(), query: c.query.clone(), cuts: vec![], features: c.features.clone() }
}

pub fn fmt_case_tables(c: &DistCase) -> String {
    let mut s = crate::sqlcheck::fmt_tables(&c.tables.iter().map(|t| t.table.clone()).collect::<Vec<_>>());
    for t in &c.tables {
        s.push_str(&format!("\n  layout {}: {:?}", t.table.name, t.layout));
    }
    s
}

/// True when the statement defines a CTE that nothing references.
pub fn unreferenced_cte(q: &Query) -> bool {
    if q.with.is_empty() {
        return false;
    }
    let mut body = q.clone();
    body.with = vec![];
    let text = body.sql();
    let words: std::collections::BTreeSet<&str> = text.split(|ch: char| !(ch.is_alphanumeric() || ch == '_')).collect();
    q.with.iter().enumerate().any(|(i, cte)| !words.contains(cte.name.as_str()) && !q.with[i + 1..].iter().any(|later| later.q.sql().split(|ch: char| !(ch.is_alphanumeric() || ch == '_')).any(|w| w == cte.name)))
}

/// C09-specific known-finding classes (precise signatures; the shared SQL ones follow).
fn classify_c09(c: &DistCase, cl: &Cluster, shape: &str, single_rows: usize, msg: &str) -> Option<&'static str> {
    let first = msg.lines().next().unwrap_or("");
    // merge(): the only active shard is the local one and it returned no batch
    if first.contains("no shard returned a schema") && single_rows == 0 {
        return Some("dist-no-schema-when-only-local-shard-is-empty");
    }
    // a statement with a latent evaluation type error (mixed-width COALESCE/NULLIF/CASE, WHERE NULL …):
    // the single node never evaluates it because no batch reaches the expression (empty table,
    // pruned row groups), a shard hands a zero-row batch to it. Signature: ONE node over in-memory
    // copies of the same tables (which always deliver a batch) fails with the same kind of error.
    // MIN/MAX/AVG over an INTEGER (Int32) column is "not implemented" on the scalar / hash
    // aggregation paths but works on others (open finding of C04): a shard that takes such a
    // path fails where the single node (other path, or subquery never evaluated) answers.
    if first.contains("distributed run fails") && first.contains("not implemented for type Int32") {
        return Some("agg-type-not-implemented-on-some-path");
    }
    let type_error = |s: &str| s.contains("same data type") || s.contains("Type error") || s.contains("Cast error") || s.contains("requires boolean") || s.contains("must evaluate to boolean");
    if first.contains("distributed run fails") && type_error(first) {
        let plain: Vec<Table> = c.tables.iter().map(|t| t.table.clone()).collect();
        let ctx = crate::engine::mem_ctx(&plain);
        let mut unlimited = c.query.clone();
        unlimited.limit = None;
        unlimited.offset = None;
        for q in [&c.query, &unlimited] {
            if let Err(e) = run_sql(&ctx, &q.sql()) {
                if type_error(&e) {
                    return Some("dist-evaluates-ill-typed-expression-on-empty-batch");
                }
            }
        }
    }
    // unify(): a shard that returned no rows ships the DECLARED schema of the partial query, a shard
    // with rows ships the schema of its batches; where the engine's declared type of an expression
    // differs from the arrays it produces (INTEGER arithmetic declared BIGINT) the merge refuses
    if first.contains("shards returned incompatible columns") {
        return Some("dist-empty-shard-declares-a-different-column-type");
    }
    if shape == "gather" {
        if let Some((reads, gaps)) = gather_gaps(&cl.base, &c.query.sql(), &c.tables) {
            let only_in_sub = reads.tables.values().any(|(m, s)| *s && !*m) || reads.cols.values().any(|(o, f, s)| *s && !*o && !*f);
            if !gaps.is_empty() && only_in_sub {
                return Some("gather-misses-subquery-expression-scans");
            }
            if !gaps.is_empty() && gaps.iter().all(|g| !g.contains("not gathered")) {
                return Some("gather-misses-columns-the-optimizer-eliminated");
            }
        }
        if unreferenced_cte(&c.query) && (first.contains("not found") || first.contains("NotFound")) {
            return Some("gather-misses-unreferenced-cte-columns");
        }
    }
    // VectorizedHashTable::probe_batch indexes the hash buffer with a row number of another batch
    // (hash_join.rs:556) when a shard feeds the join batches of uneven sizes: an engine panic
    // (C29's subject) that the single node's scan path does not provoke
    if first.contains("distributed run PANICS: index out of bounds") && (c.features.iter().any(|f| f.starts_with("join_") || f == "in_subquery" || f == "not_in_subquery" || f == "exists" || f == "scalar_subquery")) {
        return Some("hash-join-probe-index-out-of-bounds");
    }
    if first.contains("runtime filter column is not Int64") {
        return Some("runtime-filter-on-int32-join-key");
    }
    // ShardedParquetTable::statistics scales row_count to the shard but keeps the whole-table
    // ndv estimates: on a shard "ndv >= rows" reads as "unique key" and GroupKeyReduction drops
    // real GROUP BY keys from the PARTIAL aggregate. Signature: some shard's optimized plan of the
    // partial query carries an ANY_VALUE that the partial query text does not.
    if shape == "two_phase" && shard_plan_has_any_value(cl, &c.query.sql()) {
        return Some("dist-shard-statistics-fire-group-key-reduction");
    }
    // GroupKeyReduction (single node, Parquet footer statistics) rewrote the aggregate on an
    // *estimated* distinct count: the optimized plan carries an ANY_VALUE the statement never wrote
    if c.features.iter().any(|f| f == "group_by") {
        if let Ok(Ok(p)) = std::panic::catch_unwind(std::panic::AssertUnwindSafe(|| cl.base.optimized_plan(&c.query.sql()))) {
            let text = format!("{}", p).to_lowercase();
            if text.contains("any_value") || text.contains("anyvalue") {
                return Some("group-key-reduction-on-estimated-ndv");
            }
        }
    }
    None
}

fn shard_plan_has_any_value(cl: &Cluster, sql: &str) -> bool {
    use query_engine::distributed::coordinator::shard_context;
    use query_engine::distributed::{assign_lpt, plan_distributed, splits_of};
    let r = std::panic::catch_unwind(std::panic::AssertUnwindSafe(|| {
        let Ok(plan) = plan_distributed(&cl.base, sql) else { return false };
        if plan.partial_sql.to_lowercase().contains("any_value") {
            return false;
        }
        // the whole table already triggers the rewrite: that is the single-node finding
        if let Ok(p) = cl.base.optimized_plan(&plan.partial_sql) {
            let t = format!("{}", p).to_lowercase();
            if t.contains("any_value") || t.contains("anyvalue") {
                return false;
            }
        }
        let n = cl.participants.len();
        let Ok(set) = splits_of(&cl.base, &plan.table, n) else { return false };
        let asg = assign_lpt(&set, n);
        (0..n).any(|i| match shard_context(&cl.base, &plan.table, &set, &asg, i) {
            Ok((ctx, _)) => match ctx.optimized_plan(&plan.partial_sql) {
                Ok(p) => {
                    let t = format!("{}", p).to_lowercase();
                    t.contains("any_value") || t.contains("anyvalue")
                }
                Err(_) => false,
            },
            Err(_) => false,
        })
    }));
    r.unwrap_or(false)
}

/// Last resort for the gather shape: the distributed result is exactly what ONE node returns
/// for the statement over in-memory copies of the complete tables. Gathering then lost
/// nothing; the disagreement is the local engine answering differently over Parquet files
/// and over in-memory tables (C04's subject).
fn layout_dependent(c: &DistCase, shape: &str, dist: &Result<Rows, String>) -> bool {
    if shape != "gather" {
        return false;
    }
    let plain: Vec<Table> = c.tables.iter().map(|t| t.table.clone()).collect();
    let ctx = crate::engine::mem_ctx(&plain);
    let mem = run_sql(&ctx, &c.query.sql());
    match (dist, &mem) {
        (Ok(d), Ok(m)) => multiset_eq(d, m, 1e-9),
        (Err(d), Err(m)) => crate::sqlcheck::short_err(d) == crate::sqlcheck::short_err(m) || d.contains(m.as_str()),
        _ => false,
    }
}

pub struct DistEqualsSingle {
    pub gather: bool,
}

impl Check for DistEqualsSingle {
    type Case = DistCase;
    fn name(&self) -> &'static str {
        if self.gather {
            "dist_gather_profile"
        } else {
            "dist_scatter_profile"
        }
    }
    fn rule(&self) -> &'static str {
        "both engines answered, the distributed run used >=2 active shards of some table (shape label recorded: concat/two_phase/top_n/gather; AVG over unequal shards and TopN with OFFSET tracked as labels)"
    }
    fn cases(&self, tier: Tier) -> u32 {
        tier.pick(400, 10_000)
    }
    fn max_shrink_iters(&self) -> u32 {
        600
    }
    fn strategy(&self, tier: Tier) -> BoxedStrategy<DistCase> {
        case_strategy(tier, self.gather)
    }
    fn test(&self, c: &DistCase, obs: &mut Obs) -> Verdict {
        let sql = c.query.sql();
        let cl = match Cluster::build("c09", &c.tables, &c.cluster) {
            Ok(cl) => cl,
            Err(e) => return Verdict::Discard(format!("cluster:{}", crate::sqlcheck::short_err(&e))),
        };
        let spec = c.cluster.normalized();
        obs.label(format!("nodes:{}", spec.nodes));
        obs.label(if spec.self_pos == 0 { "self:first" } else if spec.self_pos + 1 == spec.nodes { "self:last" } else { "self:middle" });
        if (0..spec.nodes).any(|i| i != spec.self_pos && spec.copy[i]) {
            obs.label("peer_on_copy_dir");
        }
        if c.tables.iter().any(|t| t.table.rows.is_empty()) {
            obs.label("empty_table");
        }
        for f in &c.features {
            obs.label(format!("feat:{}", f));
        }
        let shape = match planned_shape(&cl.base, &sql) {
            Ok(s) => s,
            Err(e) => {
                obs.label(format!("plan_error:{}", crate::sqlcheck::short_err(&e)));
                "unplanned"
            }
        };
        obs.label(format!("shape:{}", shape));
        obs.sample(serde_json::json!({"sql": sql, "shape": shape, "nodes": spec.nodes, "self": spec.self_pos,
            "tables": c.tables.iter().map(|t| format!("{}({} rows, files at {:?}, rg {})", t.table.name, t.table.rows.len(), t.layout.file_cuts, t.layout.row_group_size)).collect::<Vec<_>>()}));

        // single node
        let single = match run_sql(&cl.base, &sql) {
            Ok(r) => r,
            Err(e) => {
                obs.label(format!("single_error:{}", crate::sqlcheck::short_err(&e)));
                return Verdict::Pass;
            }
        };
        // distributed
        let tr = cl.transport(vec![]);
        let d = match run_any_distributed(&cl, &sql, &tr) {
            DistOutcome::Ok(d) => d,
            DistOutcome::NotImplemented(m) => {
                obs.label(format!("refused:{}", crate::sqlcheck::short_err(&m)));
                return Verdict::Pass;
            }
            DistOutcome::Err(e) => {
                let msg = format!("single node answers ({} rows) but the distributed run fails: {}\n sql: {}\n shape: {}\n cluster: {:?}\n tables: {}", single.len(), e, sql, shape, spec, fmt_case_tables(c));
                return known_or_fail(c, &cl, shape, single.len(), &Err(e), &Default::default(), msg);
            }
            DistOutcome::Panic(p) => {
                let msg = format!("single node answers ({} rows) but the distributed run PANICS: {}\n sql: {}\n shape: {}\n cluster: {:?}\n tables: {}", single.len(), p, sql, shape, spec, fmt_case_tables(c));
                return known_or_fail(c, &cl, shape, single.len(), &Err(format!("PANIC: {}", p)), &Default::default(), msg);
            }
        };
        let dist = batches_to_rows(&d.result.batches);
        // activity
        let mut per_table: std::collections::BTreeMap<&str, usize> = Default::default();
        for n in &d.distribution.nodes {
            if n.assigned_splits > 0 {
                *per_table.entry(n.table.as_str()).or_default() += 1;
            }
        }
        let active = per_table.values().copied().max().unwrap_or(0);
        obs.label(format!("active_shards:{}", active.min(8)));
        if active < spec.nodes {
            obs.label("idle_nodes");
        }
        if d.distribution.nodes.iter().any(|n| !n.local && n.assigned_splits > 0) {
            obs.label("remote_shard_used");
        }
        let avg = has_avg(&c.query);
        if avg && active >= 2 {
            let rows: Vec<i64> = d.distribution.nodes.iter().filter(|n| n.assigned_splits > 0).map(|n| n.assigned_rows).collect();
            if rows.iter().any(|r| *r != rows[0]) {
                obs.label(format!("avg_unequal_shards:{}", shape));
            }
        }
        if shape == "top_n" && c.query.offset.unwrap_or(0) > 0 && active >= 2 {
            obs.label("topn_offset");
        }
        obs.nontrivial(active >= 2);

        let tol = if avg { 1e-9 } else { 0.0 };
        let cmp: Result<(), String> = if c.query.order_by.is_empty() && c.query.limit.is_none() && c.query.offset.is_none() {
            if multiset_eq(&single, &dist, tol) {
                Ok(())
            } else {
                Err("row multisets differ".into())
            }
        } else {
            match order_keys(&c.query) {
                None => {
                    if c.query.limit.is_none() && c.query.offset.is_none() {
                        obs.label("order_keys_unresolved");
                        if multiset_eq(&single, &dist, tol) {
                            Ok(())
                        } else {
                            Err("row multisets differ".into())
                        }
                    } else {
                        return Verdict::Discard("limit_with_unresolved_order".into());
                    }
                }
                Some(keys) => {
                    let full = if c.query.limit.is_none() && c.query.offset.is_none() {
                        single.clone()
                    } else {
                        let mut q2 = c.query.clone();
                        q2.limit = None;
                        q2.offset = None;
                        match run_sql(&cl.base, &q2.sql()) {
                            Ok(r) => r,
                            Err(e) => return Verdict::Discard(format!("single_unlimited:{}", crate::sqlcheck::short_err(&e))),
                        }
                    };
                    let reference = ordered_reference(&full, &keys, c.query.limit, c.query.offset);
                    if let Err(e) = refsql::compare_answer(&reference, &single, tol) {
                        // the single node contradicts itself (LIMIT vs no LIMIT): not a distributed matter
                        obs.label("single_node_inconsistent_with_its_unlimited_answer");
                        let _ = e;
                        return Verdict::Discard("single_inconsistent".into());
                    }
                    refsql::compare_answer(&reference, &dist, tol)
                }
            }
        };
        match cmp {
            Ok(()) => Verdict::Pass,
            Err(why) => {
                // third opinion
                let plain: Vec<Table> = c.tables.iter().map(|t| t.table.clone()).collect();
                let db = Db::new(&plain);
                let (opinion, events) = match db.run(&c.query) {
                    Ok(r) => {
                        let usable = !(r.sorted_full.is_none() && (r.limit.is_some() || r.offset.is_some()));
                        let s_ok = usable && refsql::compare_answer(&r, &single, 1e-9).is_ok();
                        let d_ok = usable && refsql::compare_answer(&r, &dist, 1e-9).is_ok();
                        (
                            format!(
                                "refsql ({} rows) agrees with: {}\n{}",
                                r.rows.len(),
                                match (s_ok, d_ok) {
                                    (true, true) => "both (?)",
                                    (true, false) => "the SINGLE-NODE answer",
                                    (false, true) => "the DISTRIBUTED answer",
                                    (false, false) => "neither",
                                },
                                fmt_rows(&r.rows, 30)
                            ),
                            db.events.borrow().clone(),
                        )
                    }
                    Err(e) => (format!("refsql: not in dialect ({})", e), db.events.borrow().clone()),
                };
                let mut shard_dump = String::new();
                if std::env::var("C09_DEBUG").is_ok() {
                    for e in tr.exchanges() {
                        let rows = query_engine::distributed::coordinator::decode_ipc(&e.body).map(|b| batches_to_rows(&b)).unwrap_or_default();
                        shard_dump.push_str(&format!("\n  remote shard {} of {} ({} rows announced):\n{}", e.shard_index, e.table, e.rows, fmt_rows(&rows, 40)));
                    }
                    for n in &d.distribution.nodes {
                        shard_dump.push_str(&format!("\n  contribution shard {} table {} local {} splits {} rows_assigned {} result_rows {}", n.shard_index, n.table, n.local, n.assigned_splits, n.assigned_rows, n.result_rows));
                    }
                }
                let msg = format!(
                    "distributed answer differs from the single-node answer: {}{}\n sql: {}\n shape: {} (ran as {:?}), partial: {}\n final: {:?}\n cluster: {:?}, active shards {}\n single node ({} rows):\n{} distributed ({} rows):\n{} third opinion: {}\n ref-events: {:?}\n tables: {}",
                    why,
                    shard_dump,
                    sql,
                    shape,
                    d.distribution.shape,
                    d.distribution.partial_sql,
                    d.distribution.final_sql,
                    spec,
                    active,
                    single.len(),
                    fmt_rows(&single, 30),
                    dist.len(),
                    fmt_rows(&dist, 30),
                    opinion,
                    events,
                    fmt_case_tables(c)
                );
                known_or_fail(c, &cl, shape, single.len(), &Ok(dist.clone()), &events, msg)
            }
        }
    }
}

fn known_or_fail(c: &DistCase, cl: &Cluster, shape: &str, single_rows: usize, dist: &Result<Rows, String>, events: &crate::kf_sql::Ev, msg: String) -> Verdict {
    if let Some(id) = classify_c09(c, cl, shape, single_rows, &msg) {
        return Verdict::Known { id: id.to_string(), msg };
    }
    // gather shape: a mechanism-level signature beats the statement-shape ones
    if layout_dependent(c, shape, dist) {
        return Verdict::Known { id: "gather-answer-is-the-local-answer-over-memory-tables".to_string(), msg };
    }
    if let Some(id) = classify_sql(&sql_case_of(c), events, &msg) {
        return Verdict::Known { id: id.to_string(), msg };
    }
    Verdict::Fail(msg)
}

pub fn property() -> Property {
    Property {
        id: "C09",
        level: "exploration",
        assumptions: &[
            "the in-process FragmentTransport reproduces the HTTP exchange (JSON request, execute_fragment on a peer context over the same or byte-identical files, encode_ipc, x-qe-rows) without a socket",
            "ORDER BY keys of generated statements are output columns, so ordering is checked on the returned rows; LIMIT/OFFSET answers are judged against the tie groups of the single node's un-limited answer",
            "doubles are multiples of 0.25 (sums exact in any order); AVG is compared with relative tolerance 1e-9",
            "a NotImplemented refusal is an accepted outcome; any other distributed error on a statement the single node answers is a violation",
        ],
        checks: vec![Box::new(DistEqualsSingle { gather: false }), Box::new(DistEqualsSingle { gather: true })],
    }
}
