//! C09 — not implemented yet.
use super::Property;

pub fn property() -> Property {
    Property { id: "C09", level: "exploration", assumptions: &[], checks: vec![] }
}
