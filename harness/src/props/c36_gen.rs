//! C36: argument kinds and their generators.
use crate::data::{ColType, Value};
use proptest::prelude::*;

/// Argument kind: decides the column type and the generator.
#[derive(Clone, Copy, Debug, PartialEq)]
pub enum K {
    /// general text: empty, ASCII, multi-byte (2/3/4-byte) code points
    Text,
    /// short text (<= 4 chars)
    TextShort,
    /// letters with simple 1:1 case mappings, both cases, incl. non-ASCII
    TextCase,
    /// text with leading/trailing ASCII spaces
    TextWs,
    /// text with delimiters in it
    TextDelim,
    /// (often) a substring of argument k, possibly empty
    Sub(usize),
    /// (often) a non-empty substring of argument k
    SubNE(usize),
    /// a string with the same number of code points as argument k
    SameLen(usize),
    /// a few characters of argument k (for TRANSLATE's from)
    CharsOf(usize),
    /// single character string
    Ch,
    /// pad string, non-empty
    Pad,
    /// delimiter
    Delim,
    /// digest known-answer inputs and general text
    Kat,
    /// JSON document text
    Json,
    /// URL text
    Url,
    /// decimal digit strings
    Digits,
    /// any i64 except i64::MIN (not expressible as a literal)
    IntAny,
    /// -6..=12
    IntSmall,
    /// non-zero integer
    IntNZ,
    /// 0..=63
    Shift,
    /// 0..=6
    Count,
    /// mostly 0..=12, rarely negative
    Len,
    /// mostly 1..=8, rarely 0 or negative
    Start,
    /// -2..=4 decimal places
    Places,
    /// 1..=5, rarely 0/-1/9
    Idx,
    /// code points incl. invalid ones
    Cp,
    /// radix 2/8/10/16
    Radix,
    /// any finite double incl. huge/tiny/negative/zero
    Dbl,
    /// |x| < 1e6 with fractions, halves, negatives
    DblMid,
    /// [-1.25, 1.25]
    DblUnit,
    /// positive
    DblPos,
    /// decimals k/1000
    DblDec,
    /// non-zero mid double
    DblNZ,
    /// finite plus NaN, +inf, -inf, -0.0
    DblSpecial,
    /// small exponents -4..=6 incl. halves
    DblExp,
    Date,
    Bool,
}

impl K {
    pub fn coltype(self) -> ColType {
        use K::*;
        match self {
            Text | TextShort | TextCase | TextWs | TextDelim | Sub(_) | SubNE(_) | SameLen(_) | CharsOf(_) | Ch | Pad
            | Delim | Kat | Json | Url | Digits => ColType::Str,
            IntAny | IntSmall | IntNZ | Shift | Count | Len | Start | Places | Idx | Cp | Radix => ColType::Int,
            Dbl | DblMid | DblUnit | DblPos | DblDec | DblNZ | DblSpecial | DblExp => ColType::Double,
            Date => ColType::Date,
            Bool => ColType::Bool,
        }
    }
    pub fn dependent(self) -> bool {
        matches!(self, K::Sub(_) | K::SubNE(_) | K::SameLen(_) | K::CharsOf(_))
    }
}

pub const POOL: &[char] = &[
    'a', 'b', 'c', 'l', 'o', 'h', 'e', 'A', 'B', 'Z', ' ', ' ', 'é', 'ö', 'ñ', '€', '日', '本', '𝄞', '1', '2', ',', '-',
    '%', '_', '\'', '.',
];
const CASE_POOL: &[char] = &[
    'a', 'b', 'z', 'A', 'B', 'Z', 'm', 'M', ' ', '1', 'é', 'É', 'ö', 'Ö', 'ñ', 'Ñ', 'ж', 'Ж', 'λ', 'Λ', '日', '-',
];
const WS_POOL: &[char] = &[' ', ' ', ' ', 'a', 'b', 'é', ' ', 'x'];
const DELIM_POOL: &[char] = &['a', 'b', ',', ',', ';', 'é', ' ', '|', 'c'];

fn from_pool(pool: &'static [char], max: usize) -> BoxedStrategy<String> {
    proptest::collection::vec(proptest::sample::select(pool), 0..=max)
        .prop_map(|v| v.into_iter().collect::<String>())
        .boxed()
}
fn fixed(list: &'static [&'static str]) -> BoxedStrategy<String> {
    proptest::sample::select(list).prop_map(|s| s.to_string()).boxed()
}

pub const SPECIAL_TEXT: &[&str] = &[
    "", " ", "a", "hello", "héllo wörld", "  a b  ", "日本語", "a,b,,c", "ÀÉ", "l", "𝄞𝄞", "abcabc", "aaa", "éé",
];
const URLS: &[&str] = &[
    "https://example.com/path/to/page?foo=bar&x=1#sec",
    "http://a.b:81/x?y=1#f",
    "https://example.com",
    "ftp://user@host.org:21/dir/",
    "not a url",
    "",
    "https://exämple.com/päth?q=é",
    "http://localhost:8080",
];
const JSONS: &[&str] = &[
    "{\"a\": [1, 2, {\"b\": null}], \"c\": \"x\"}",
    "[]",
    "{}",
    "[1,2,3]",
    " { \"k\" : true , \"é\" : \"日本\" } ",
    "\"str\"",
    "42",
    "-1.5",
    "null",
    "[[],[[]],{\"a\":{\"b\":{\"c\":[false]}}}]",
    "{\"a\":1,\"a\":2}",
    "{bad",
    "",
    "[1,]",
    "{\"n\": 1e3, \"m\": 0.25, \"s\": \"a\\\"b\\\\c\\n\"}",
];

fn dbl_mid() -> BoxedStrategy<f64> {
    prop_oneof![
        3 => (-4000i64..4000).prop_map(|k| k as f64 * 0.25),
        2 => (-100_000i64..100_000).prop_map(|k| k as f64 / 1000.0),
        1 => (-999_999i64..999_999).prop_map(|k| k as f64 + 0.5),
        1 => Just(0.0),
        1 => proptest::sample::select(&[0.5, -0.5, 1.5, -1.5, 2.5, -2.5, 0.49999999999999994, -0.49999999999999994, 1e-9, -1e-9][..]),
    ]
    .boxed()
}

/// Independent (non-dependent) base value of a kind, never NULL.
pub fn base(k: K) -> BoxedStrategy<Value> {
    use K::*;
    let st = |s: BoxedStrategy<String>| s.prop_map(Value::Str).boxed();
    let it = |s: BoxedStrategy<i64>| s.prop_map(Value::Int).boxed();
    let db = |s: BoxedStrategy<f64>| s.prop_map(Value::Double).boxed();
    match k {
        Text | Sub(_) | SubNE(_) | SameLen(_) | CharsOf(_) => {
            st(prop_oneof![5 => from_pool(POOL, 10), 2 => fixed(SPECIAL_TEXT), 1 => from_pool(&POOL[..10], 8)].boxed())
        }
        TextShort => st(prop_oneof![4 => from_pool(POOL, 4), 1 => fixed(&["", "a", "é", "ab", "日"])].boxed()),
        TextCase => st(prop_oneof![5 => from_pool(CASE_POOL, 9), 1 => fixed(&["", "Hello World", "ÉCOLE écolE", "abc123"])].boxed()),
        TextWs => st(prop_oneof![5 => from_pool(WS_POOL, 9), 1 => fixed(&["", " ", "   ", "  hello  ", "a  b", " é "])].boxed()),
        TextDelim => st(prop_oneof![5 => from_pool(DELIM_POOL, 10), 1 => fixed(&["a,b,c", "", ",", "a,,c", "é;é;é", "abc"])].boxed()),
        Ch => st(proptest::sample::select(POOL).prop_map(|c| c.to_string()).boxed()),
        Pad => st(fixed(&["*", "xy", " ", "é", "日本", "ab", "𝄞", "0"])),
        Delim => st(fixed(&[",", ";", " ", "é", ",,", "|", "ab", "a"])),
        Kat => st(prop_oneof![3 => fixed(super::kat::KAT_INPUTS), 2 => from_pool(POOL, 10)].boxed()),
        Json => st(fixed(JSONS)),
        Url => st(prop_oneof![4 => fixed(URLS), 1 => from_pool(POOL, 8)].boxed()),
        Digits => st(prop_oneof![
            3 => proptest::collection::vec(0u8..10, 0..14).prop_map(|v| v.iter().map(|d| (b'0' + d) as char).collect::<String>()),
            1 => fixed(&["79927398713", "12345", "0", "", "4539 1488 0343 6467", "ff", "zz", "-12"]),
        ]
        .boxed()),
        IntAny => it(prop_oneof![
            4 => -50i64..50,
            2 => any::<i64>().prop_map(|v| if v == i64::MIN { i64::MIN + 1 } else { v }),
            1 => proptest::sample::select(&[i64::MAX, i64::MIN + 1, 0, -1, 1, 1 << 31, (1 << 31) - 1, -(1 << 31), 1 << 62, 255, 256, 65535][..]),
        ]
        .boxed()),
        IntSmall => it((-6i64..=12).boxed()),
        IntNZ => it(prop_oneof![
            4 => (1i64..20).prop_flat_map(|v| prop_oneof![Just(v), Just(-v)]),
            1 => proptest::sample::select(&[i64::MAX, i64::MIN + 1, 2, 3, 7, 1][..]),
        ]
        .boxed()),
        Shift => it(prop_oneof![4 => 0i64..=63, 1 => proptest::sample::select(&[0i64, 1, 31, 32, 62, 63][..])].boxed()),
        Count => it((0i64..=6).boxed()),
        Len => it(prop_oneof![60 => 0i64..=12, 1 => -3i64..0].boxed()),
        Start => it(prop_oneof![10 => 1i64..=8, 1 => -3i64..=0, 1 => 9i64..40].boxed()),
        Places => it((-2i64..=4).boxed()),
        Idx => it(prop_oneof![10 => 1i64..=5, 1 => proptest::sample::select(&[0i64, -1, 9][..])].boxed()),
        Cp => it(prop_oneof![
            4 => 32i64..127,
            2 => proptest::sample::select(&[233i64, 8364, 26085, 119070, 0x10FFFF, 0xD7FF, 0xE000, 1, 9, 10][..]),
            1 => proptest::sample::select(&[-1i64, 0x110000, 0xD800, 0xDFFF, 1 << 32][..]),
        ]
        .boxed()),
        Radix => it(proptest::sample::select(&[2i64, 8, 10, 16][..]).boxed()),
        Dbl => db(prop_oneof![
            4 => dbl_mid(),
            2 => any::<f64>().prop_filter("finite", |x| x.is_finite()),
            1 => proptest::sample::select(&[0.0, -0.0, 1.0, -1.0, f64::MAX, f64::MIN, f64::MIN_POSITIVE, 5e-324, 4503599627370496.0, 4503599627370497.0, 9007199254740993.0, 1e300, -1e300, 1e-300][..]),
        ]
        .boxed()),
        DblMid => db(dbl_mid()),
        DblUnit => db((-1250i64..=1250).prop_map(|k| k as f64 / 1000.0).boxed()),
        DblPos => db(prop_oneof![
            3 => (1i64..100_000).prop_map(|k| k as f64 / 100.0),
            1 => proptest::sample::select(&[1.0, 2.0, 10.0, 0.5, 1e-300, 1e300, std::f64::consts::E, 8.0, 1024.0][..]),
        ]
        .boxed()),
        DblDec => db(prop_oneof![
            4 => (-2_000_000i64..2_000_000).prop_map(|k| k as f64 / 1000.0),
            1 => proptest::sample::select(&[2.675, 1.005, 0.5, -0.5, 1234.5678, -1234.5678, 0.125, 0.375, 2.5, -2.5, 0.0][..]),
        ]
        .boxed()),
        DblNZ => db(dbl_mid().prop_map(|x| if x == 0.0 { 2.5 } else { x }).boxed()),
        DblSpecial => db(prop_oneof![
            3 => dbl_mid(),
            2 => proptest::sample::select(&[f64::NAN, f64::INFINITY, f64::NEG_INFINITY, -0.0, 0.0, f64::MAX, f64::MIN_POSITIVE][..]),
        ]
        .boxed()),
        DblExp => db((-8i64..=12).prop_map(|k| k as f64 * 0.5).boxed()),
        Date => prop_oneof![
            5 => (-25567i32..47482).prop_map(Value::Date),
            // leap days, month/year ends, epoch neighbourhood, ISO-week edge years
            2 => proptest::sample::select(&[
                0i32, -1, 1, 59, 789, 790, 11016, 11017, 11382, 19782, 19783, 19722, 19723, 18627, 18628, 18630, 18992,
                16435, 16436, 16800, 16801, -25508, -25509, -141427, 47481, 10956, 10957, 11015, 364, 365, 366, 730,
            ][..])
            .prop_map(Value::Date),
        ]
        .boxed(),
        Bool => any::<bool>().prop_map(Value::Bool).boxed(),
    }
}

/// Raw argument: base value plus selectors used to resolve dependent kinds.
#[derive(Clone, Debug)]
pub struct Raw {
    pub v: Value,
    pub a: u16,
    pub b: u16,
    pub m: u8,
    pub null: bool,
}

pub fn raw(k: K, null_pct: u32) -> BoxedStrategy<Raw> {
    (base(k), any::<u16>(), any::<u16>(), any::<u8>(), 0u32..100)
        .prop_map(move |(v, a, b, m, n)| Raw { v, a, b, m, null: n < null_pct })
        .boxed()
}

fn pick(sel: u16, len: usize) -> usize {
    ((sel as usize) * len) >> 16
}

/// Resolve one row of raw arguments into values.
pub fn finish_row(kinds: &[K], raws: &[Raw]) -> Vec<Value> {
    let mut out: Vec<Value> = raws.iter().map(|r| r.v.clone()).collect();
    for (idx, k) in kinds.iter().enumerate() {
        let r = &raws[idx];
        let src = |j: usize| -> Vec<char> {
            match &out[j] {
                Value::Str(s) => s.chars().collect(),
                _ => vec![],
            }
        };
        match *k {
            K::Sub(j) | K::SubNE(j) => {
                let ne = matches!(k, K::SubNE(_));
                let cs = src(j);
                // 1/4 independent text, 3/4 a slice of the source
                if r.m % 4 != 0 && !cs.is_empty() {
                    let st = pick(r.a, cs.len());
                    let maxl = cs.len() - st;
                    let mut l = pick(r.b, maxl.min(4) + 1);
                    if ne && l == 0 {
                        l = 1;
                    }
                    out[idx] = Value::Str(cs[st..st + l.min(maxl)].iter().collect());
                }
                if ne {
                    if let Value::Str(s) = &out[idx] {
                        if s.is_empty() {
                            out[idx] = Value::Str("l".into());
                        }
                    }
                }
            }
            K::SameLen(j) => {
                let cs = src(j);
                let own: Vec<char> = match &r.v {
                    Value::Str(s) => s.chars().collect(),
                    _ => vec![],
                };
                if r.m % 8 != 0 {
                    // same code-point count: mutate some positions of the source
                    let mut t = cs.clone();
                    for (p, c) in t.iter_mut().enumerate() {
                        if (r.a >> (p % 16)) & 1 == 1 {
                            *c = *own.get(p).unwrap_or(&POOL[(r.b as usize + p) % POOL.len()]);
                        }
                    }
                    out[idx] = Value::Str(t.into_iter().collect());
                }
            }
            K::CharsOf(j) => {
                let cs = src(j);
                if r.m % 4 != 0 && !cs.is_empty() {
                    let n = 1 + pick(r.a, 3.min(cs.len()));
                    let mut t = vec![];
                    for q in 0..n {
                        t.push(cs[(pick(r.b, cs.len()) + q * 2) % cs.len()]);
                    }
                    // sometimes a char that is not in the source
                    if r.m % 3 == 0 {
                        t.push('q');
                    }
                    out[idx] = Value::Str(t.into_iter().collect());
                }
            }
            _ => {}
        }
    }
    for (idx, r) in raws.iter().enumerate() {
        if r.null {
            out[idx] = Value::Null;
        }
    }
    out
}
