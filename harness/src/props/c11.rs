//! C11 — Split enumeration covers every row exactly once, canonically.
//!
//! Code under test: `query_engine::distributed::splits::enumerate_parquet` and
//! `SplitSet::digest`.
//!
//! Generator: a row-group inventory (files x row groups x (rows, total_byte_size)) written as
//! **footer-only** Parquet files ("PAR1" + a footer produced by `ParquetMetaDataWriter`), so
//! byte sizes up to 2^40 are reachable, optionally mixed with real small Parquet files written
//! by `ArrowWriter` (their inventory is read back with parquet's own `SerializedFileReader`).
//! The same inventory is laid out twice under different directory trees, the file list is
//! permuted, and a third copy differs in exactly one split-relevant attribute.
//!
//! Oracle:
//!  * validity predicate over the SplitSet against the inventory (coverage per (path,row group):
//!    contiguous from 0, no overlap, sums to the row count; sum of bytes = table bytes =
//!    total_bytes; sum of rows = total_rows; canonical order; path/file consistent);
//!  * metamorphic: permuting the list / moving the files leaves the sequence of
//!    (file,row_group,offset,rows,bytes) and digest() unchanged;
//!  * sensitivity: a one-attribute change that alters the split-relevant content changes digest().
use super::Property;
use crate::data::{pick_idx, ColType, Column, ParquetLayout, Table, TempDir, Value};
use crate::runner::*;
use proptest::prelude::*;
use query_engine::distributed::splits::{enumerate_parquet, SplitSet};
use serde::{Deserialize, Serialize};
use std::collections::BTreeMap;
use std::path::{Path, PathBuf};
use std::sync::Arc;

pub const KF_SAME_NAME: &str = "c11-same-file-name-order-dependent";

// ---------------------------------------------------------------------------
// footer-only parquet files
// ---------------------------------------------------------------------------

#[derive(Clone, Debug, Serialize, Deserialize, PartialEq, Eq)]
pub struct Rg {
    pub rows: i64,
    pub bytes: i64,
}

/// Write a file that consists of the magic and a footer describing `rgs`.
pub fn write_footer_only(path: &Path, rgs: &[Rg]) {
    use parquet::basic::{Compression, Repetition, Type as PhysicalType};
    use parquet::file::metadata::{
        ColumnChunkMetaData, FileMetaData, ParquetMetaData, ParquetMetaDataWriter, RowGroupMetaData,
    };
    use parquet::schema::types::{SchemaDescriptor, Type as SchemaType};
    let field = SchemaType::primitive_type_builder("id", PhysicalType::INT64)
        .with_repetition(Repetition::REQUIRED)
        .build()
        .unwrap();
    let schema = SchemaType::group_type_builder("schema")
        .with_fields(vec![Arc::new(field)])
        .build()
        .unwrap();
    let descr = Arc::new(SchemaDescriptor::new(Arc::new(schema)));
    let mut row_groups = vec![];
    for (i, rg) in rgs.iter().enumerate() {
        let col = ColumnChunkMetaData::builder(descr.column(0))
            .set_num_values(rg.rows)
            .set_compression(Compression::UNCOMPRESSED)
            .set_total_compressed_size(rg.bytes)
            .set_total_uncompressed_size(rg.bytes)
            .set_data_page_offset(4)
            .build()
            .unwrap();
        row_groups.push(
            RowGroupMetaData::builder(descr.clone())
                .set_num_rows(rg.rows)
                .set_total_byte_size(rg.bytes)
                .set_column_metadata(vec![col])
                .set_ordinal(i as i16)
                .build()
                .unwrap(),
        );
    }
    let total: i64 = rgs.iter().map(|r| r.rows).sum();
    let fmd = FileMetaData::new(1, total, Some("qe_verif footer-only".into()), None, descr, None);
    let md = ParquetMetaData::new(fmd, row_groups);
    let mut buf: Vec<u8> = b"PAR1".to_vec();
    ParquetMetaDataWriter::new(&mut buf, &md).finish().unwrap();
    if let Some(p) = path.parent() {
        std::fs::create_dir_all(p).unwrap();
    }
    std::fs::write(path, buf).unwrap();
}

/// Row-group inventory of a real file, read with parquet's own reader (not the engine's cache).
pub fn read_inventory(path: &Path) -> Vec<Rg> {
    use parquet::file::reader::{FileReader, SerializedFileReader};
    let r = SerializedFileReader::new(std::fs::File::open(path).unwrap()).unwrap();
    r.metadata()
        .row_groups()
        .iter()
        .map(|g| Rg { rows: g.num_rows(), bytes: g.total_byte_size() })
        .collect()
}

// ---------------------------------------------------------------------------
// case
// ---------------------------------------------------------------------------

#[derive(Clone, Debug, Serialize, Deserialize, PartialEq)]
pub struct SynFile {
    pub name: String,
    pub rgs: Vec<Rg>,
}

#[derive(Clone, Debug, Serialize, Deserialize, PartialEq)]
pub struct RealTable {
    pub rows: usize,
    pub file_cuts: Vec<usize>,
    pub row_group_size: usize,
    /// string payload width factor (controls bytes per row)
    pub pad: u8,
    pub dictionary: bool,
}

#[derive(Clone, Debug, Serialize, Deserialize, PartialEq)]
pub enum Mutation {
    /// rename a file that has a non-empty row group (to the front or back of the name order)
    Rename { target: u16, front: bool },
    /// change the row count of a non-empty row group by `delta` (result clamped to >= 0)
    Rows { target: u16, delta: i64 },
    /// change the byte size of a non-empty row group
    Bytes { target: u16, new_bytes: i64 },
    /// cut a non-empty row group (>=2 rows) into two row groups
    SplitRg { target: u16, at: u16 },
    /// insert an empty row group in front of a non-empty one
    InsertEmpty { target: u16 },
}

#[derive(Clone, Debug, Serialize, Deserialize, PartialEq)]
pub struct Dup {
    /// which synthetic file's name is reused in another directory
    pub of: u16,
    pub rgs: Vec<Rg>,
}

#[derive(Clone, Debug, Serialize, Deserialize)]
pub struct EnumCase {
    pub nodes: usize,
    pub files: Vec<SynFile>,
    pub real: Option<RealTable>,
    /// permutation selectors for the reordered file list
    pub order: Vec<u16>,
    /// directory of each file in layout A / layout B
    pub dirs_a: Vec<u8>,
    pub dirs_b: Vec<u8>,
    pub mutation: Mutation,
    pub dup: Option<Dup>,
    pub class: String,
}

fn permutation(sel: &[u16], n: usize) -> Vec<usize> {
    let mut pool: Vec<usize> = (0..n).collect();
    let mut out = Vec::with_capacity(n);
    for i in 0..n {
        let k = pick_idx(sel.get(i).copied().unwrap_or(0), pool.len());
        out.push(pool.remove(k));
    }
    out
}

const NAME_POOL: [&str; 20] = [
    "a.parquet",
    "B.parquet",
    "b.parquet",
    "data",
    "lineitem.parquet",
    "lineitem.1.parquet",
    "lineitem-2.parquet",
    "p-9.parquet",
    "p-10.parquet",
    "p-100.parquet",
    "00000-0-data.parquet",
    "00001-0-data.parquet",
    "é.parquet",
    "z.parquet",
    "zz.parquet",
    "x y.parquet",
    "n.parq",
    "_tmp.parquet",
    "A.PARQUET",
    "m.parquet",
];

fn rg_strategy(class: u8) -> BoxedStrategy<Rg> {
    let (rows, bytes): (BoxedStrategy<i64>, BoxedStrategy<i64>) = match class {
        0 => (
            prop_oneof![1 => Just(0i64), 1 => Just(1i64), 3 => 2i64..20, 2 => 1i64..10_000].boxed(),
            prop_oneof![1 => Just(0i64), 1 => Just(1i64), 6 => 0i64..5000].boxed(),
        ),
        1 => (
            prop_oneof![1 => Just(0i64), 1 => Just(1i64), 3 => 2i64..2000, 2 => 1i64..=10_000_000].boxed(),
            prop_oneof![1 => Just(0i64), 3 => 0i64..(1 << 20), 4 => 0i64..(1 << 30)].boxed(),
        ),
        _ => (
            prop_oneof![1 => Just(0i64), 1 => Just(1i64), 2 => 2i64..100, 2 => 1i64..=10_000_000, 1 => Just(10_000_000i64)].boxed(),
            prop_oneof![
                1 => Just(0i64),
                2 => 0i64..(1 << 28),
                3 => 0i64..=(1i64 << 40),
                1 => Just(1i64 << 40),
                1 => prop_oneof![Just((1i64 << 26) - 1), Just(1i64 << 26), Just((1i64 << 26) + 1), Just(1i64 << 22), Just((1i64 << 22) + 1)],
            ]
            .boxed(),
        ),
    };
    (rows, bytes, 0u8..5)
        .prop_map(|(rows, bytes, keep)| Rg {
            rows,
            // an empty row group normally has no bytes; sometimes keep them
            bytes: if rows == 0 && keep != 0 { 0 } else { bytes },
        })
        .boxed()
}

fn mutation_strategy() -> BoxedStrategy<Mutation> {
    prop_oneof![
        (any::<u16>(), any::<bool>()).prop_map(|(target, front)| Mutation::Rename { target, front }),
        (any::<u16>(), prop_oneof![Just(-1i64), Just(1i64), -1000i64..1000]).prop_map(|(target, delta)| Mutation::Rows { target, delta }),
        (any::<u16>(), prop_oneof![0i64..5000, 0i64..=(1i64 << 40)]).prop_map(|(target, new_bytes)| Mutation::Bytes { target, new_bytes }),
        (any::<u16>(), any::<u16>()).prop_map(|(target, at)| Mutation::SplitRg { target, at }),
        any::<u16>().prop_map(|target| Mutation::InsertEmpty { target }),
    ]
    .boxed()
}

fn case_strategy(tier: Tier) -> BoxedStrategy<EnumCase> {
    let thorough = tier == Tier::Thorough;
    // class 0 tiny, 1 medium, 2 huge (few row groups, sizes to 2^40)
    prop_oneof![4 => Just(0u8), 3 => Just(1u8), 2 => Just(2u8)]
        .prop_flat_map(move |class| {
            let (max_files, max_rgs) = match class {
                2 => (4usize, 3usize),
                _ => (if thorough { 12 } else { 8 }, 10usize),
            };
            let names = prop_oneof![1 => proptest::sample::subsequence(NAME_POOL.to_vec(), 0..=1), 12 => proptest::sample::subsequence(NAME_POOL.to_vec(), 2..=max_files)].prop_shuffle();
            let real = if class == 0 {
                prop_oneof![
                    2 => Just(None),
                    1 => (0usize..60, proptest::collection::vec(0usize..60, 0..3), prop_oneof![Just(1usize), Just(3), Just(7), Just(16), Just(1000)], 0u8..40, any::<bool>())
                        .prop_map(|(rows, file_cuts, row_group_size, pad, dictionary)| Some(RealTable { rows, file_cuts, row_group_size, pad, dictionary })),
                ]
                .boxed()
            } else {
                Just(None).boxed()
            };
            (
                names,
                proptest::collection::vec(prop_oneof![1 => proptest::collection::vec(rg_strategy(class), 0..=0), 9 => proptest::collection::vec(rg_strategy(class), 1..=max_rgs)], max_files),
                real,
                prop_oneof![3 => 1usize..=8, 1 => 1usize..=64],
                proptest::collection::vec(any::<u16>(), 20),
                proptest::collection::vec(0u8..3, 20),
                proptest::collection::vec(0u8..3, 20),
                mutation_strategy(),
                prop_oneof![
                    12 => Just(None),
                    1 => (any::<u16>(), proptest::collection::vec(rg_strategy(class), 1..=3)).prop_map(|(of, rgs)| Some(Dup { of, rgs })),
                ],
            )
                .prop_map(move |(names, rgs, real, nodes, order, dirs_a, dirs_b, mutation, dup)| {
                    let files: Vec<SynFile> = names
                        .into_iter()
                        .zip(rgs)
                        .map(|(n, rgs)| SynFile { name: n.to_string(), rgs })
                        .collect();
                    let dup = if files.is_empty() { None } else { dup };
                    EnumCase {
                        nodes,
                        files,
                        real,
                        order,
                        dirs_a,
                        dirs_b,
                        mutation,
                        dup,
                        class: ["tiny", "medium", "huge"][class as usize].to_string(),
                    }
                })
        })
        .boxed()
}

// ---------------------------------------------------------------------------
// oracle
// ---------------------------------------------------------------------------

type Seq = Vec<(String, usize, i64, i64, u64)>;

fn seq_of(set: &SplitSet) -> Seq {
    set.splits
        .iter()
        .map(|s| (s.file.clone(), s.row_group, s.row_offset, s.num_rows, s.bytes))
        .collect()
}

fn file_name(p: &Path) -> String {
    p.file_name().unwrap().to_string_lossy().into_owned()
}

/// Validity of `set` against `inv` (path -> row groups). Returns (max pieces of one row group).
fn validate(table: &str, set: &SplitSet, inv: &BTreeMap<PathBuf, Vec<Rg>>, unique_names: bool) -> Result<usize, String> {
    if set.table != table {
        return Err(format!("SplitSet.table = {:?}, asked for {:?}", set.table, table));
    }
    let paths: Vec<&PathBuf> = inv.keys().collect();
    let mut by_rg: Vec<Vec<Vec<(i64, i64)>>> = inv.values().map(|rgs| vec![Vec::new(); rgs.len()]).collect();
    let mut bytes_sum: u128 = 0;
    let mut rows_sum: i128 = 0;
    let mut last: Option<(usize, &PathBuf)> = None;
    for (i, s) in set.splits.iter().enumerate() {
        if s.table != table {
            return Err(format!("split {} has table {:?}", i, s.table));
        }
        let fi = match last {
            Some((fi, p)) if *p == s.path => fi,
            _ => match paths.binary_search(&&s.path) {
                Ok(fi) => fi,
                Err(_) => {
                    return Err(format!("split {} reads from {} which is not one of the table's files", i, s.path.display()));
                }
            },
        };
        last = Some((fi, paths[fi]));
        // the canonical identity must be the file's name (a trailing part of its path)
        if s.file.is_empty() || !s.path.ends_with(&s.file) {
            return Err(format!("split {}: canonical file {:?} is not the trailing part of its path {}", i, s.file, s.path.display()));
        }
        if s.row_group >= by_rg[fi].len() {
            return Err(format!("split {}: row group {} of {} which has {} row groups", i, s.row_group, s.file, by_rg[fi].len()));
        }
        if s.num_rows < 0 || s.row_offset < 0 {
            return Err(format!("split {}: negative range offset={} rows={}", i, s.row_offset, s.num_rows));
        }
        by_rg[fi][s.row_group].push((s.row_offset, s.num_rows));
        bytes_sum += s.bytes as u128;
        rows_sum += s.num_rows as i128;
    }
    // coverage: every row of every row group exactly once, contiguous
    let mut max_pieces = 0usize;
    for (fi, (path, rgs)) in inv.iter().enumerate() {
        for (k, rg) in rgs.iter().enumerate() {
            let mut ranges = std::mem::take(&mut by_rg[fi][k]);
            ranges.sort();
            max_pieces = max_pieces.max(ranges.len());
            let mut next = 0i64;
            for (off, n) in &ranges {
                if *off != next {
                    return Err(format!(
                        "{}[{}] ({} rows): rows {}..{} are {} (ranges {:?})",
                        file_name(path),
                        k,
                        rg.rows,
                        next.min(*off),
                        next.max(*off),
                        if *off > next { "covered by no split" } else { "covered twice" },
                        &ranges[..ranges.len().min(8)]
                    ));
                }
                next += n;
            }
            if next != rg.rows.max(0) {
                return Err(format!(
                    "{}[{}] has {} rows but its splits cover 0..{} (ranges {:?})",
                    file_name(path),
                    k,
                    rg.rows,
                    next,
                    &ranges[..ranges.len().min(8)]
                ));
            }
        }
    }
    // sums
    let want_rows: i128 = inv.values().flatten().map(|r| r.rows.max(0) as i128).sum();
    let want_bytes_nonempty: u128 = inv.values().flatten().filter(|r| r.rows > 0).map(|r| r.bytes.max(0) as u128).sum();
    let want_bytes_all: u128 = inv.values().flatten().map(|r| r.bytes.max(0) as u128).sum();
    if rows_sum != want_rows || set.total_rows as i128 != want_rows {
        return Err(format!("rows: splits sum to {}, total_rows = {}, the row groups hold {}", rows_sum, set.total_rows, want_rows));
    }
    if bytes_sum != set.total_bytes as u128 {
        return Err(format!("bytes: splits sum to {} but total_bytes = {}", bytes_sum, set.total_bytes));
    }
    if bytes_sum != want_bytes_nonempty && bytes_sum != want_bytes_all {
        return Err(format!(
            "bytes: splits sum to {} but the table's non-empty row groups hold {} bytes",
            bytes_sum, want_bytes_nonempty
        ));
    }
    // canonical order
    for w in set.splits.windows(2) {
        let a = (&w[0].file, w[0].row_group, w[0].row_offset);
        let b = (&w[1].file, w[1].row_group, w[1].row_offset);
        if a > b || (unique_names && a == b) {
            return Err(format!("splits not in canonical (file,row_group,offset) order: {:?} before {:?}", a, b));
        }
    }
    Ok(max_pieces)
}

fn describe_diff(a: &SplitSet, b: &SplitSet) -> String {
    let (sa, sb) = (seq_of(a), seq_of(b));
    let first = sa.iter().zip(sb.iter()).position(|(x, y)| x != y);
    format!(
        "{} vs {} splits, digest {:#x} vs {:#x}, total_bytes {} vs {}, first difference at #{:?}: {:?} vs {:?}",
        sa.len(),
        sb.len(),
        a.digest(),
        b.digest(),
        a.total_bytes,
        b.total_bytes,
        first,
        first.map(|i| &sa[i]),
        first.map(|i| &sb[i])
    )
}

fn seq_eq(a: &SplitSet, b: &SplitSet) -> bool {
    a.splits.len() == b.splits.len()
        && a.splits.iter().zip(b.splits.iter()).all(|(x, y)| {
            x.file == y.file && x.row_group == y.row_group && x.row_offset == y.row_offset && x.num_rows == y.num_rows && x.bytes == y.bytes
        })
}

fn same_enumeration(a: &SplitSet, b: &SplitSet) -> bool {
    seq_eq(a, b)
        && a.digest() == b.digest()
        && a.total_bytes == b.total_bytes
        && a.total_rows == b.total_rows
        && a.target_split_bytes == b.target_split_bytes
        && a.table == b.table
}

/// One laid-out copy of the table.
struct Layout {
    /// file list in case order
    list: Vec<PathBuf>,
    inv: BTreeMap<PathBuf, Vec<Rg>>,
}

fn real_table(rt: &RealTable) -> Table {
    let rows = (0..rt.rows)
        .map(|i| {
            let w = if rt.pad == 0 { 0 } else { (i * 7 + 3) % (rt.pad as usize + 1) };
            vec![Value::Int(i as i64), Value::Str("v".repeat(w)), Value::Int((i % 3) as i64)]
        })
        .collect();
    Table {
        name: "t".into(),
        cols: vec![
            Column { name: "id".into(), ty: ColType::Int },
            Column { name: "s".into(), ty: ColType::Str },
            Column { name: "k".into(), ty: ColType::Int },
        ],
        rows,
    }
}

/// Materialize the case under `root/<tag>/…`; `dirs` gives each file's directory.
fn lay_out(base: &Path, dirs: &[String], files: &[SynFile], real_files: &[(String, PathBuf)], dup: Option<(&str, &[Rg])>) -> Layout {
    let mut list = vec![];
    let mut inv = BTreeMap::new();
    let dir_of = |i: usize| base.join(&dirs[i]);
    for (i, f) in files.iter().enumerate() {
        let p = dir_of(i).join(&f.name);
        write_footer_only(&p, &f.rgs);
        inv.insert(p.clone(), f.rgs.clone());
        list.push(p);
    }
    for (j, (name, src)) in real_files.iter().enumerate() {
        let d = dir_of(files.len() + j);
        std::fs::create_dir_all(&d).unwrap();
        let p = d.join(name);
        std::fs::copy(src, &p).unwrap();
        inv.insert(p.clone(), read_inventory(&p));
        list.push(p);
    }
    if let Some((name, rgs)) = dup {
        let p = base.join("dup").join(name);
        write_footer_only(&p, rgs);
        inv.insert(p.clone(), rgs.to_vec());
        list.push(p);
    }
    Layout { list, inv }
}

fn nonempty(rgs: &[Rg]) -> Vec<(usize, i64, i64)> {
    rgs.iter().enumerate().filter(|(_, r)| r.rows > 0).map(|(i, r)| (i, r.rows, r.bytes.max(0))).collect()
}

/// Apply the one-attribute mutation; None when there is nothing it can apply to.
fn mutate(files: &[SynFile], m: &Mutation) -> Option<(Vec<SynFile>, &'static str)> {
    let targets: Vec<(usize, usize)> = files
        .iter()
        .enumerate()
        .flat_map(|(fi, f)| f.rgs.iter().enumerate().filter(|(_, r)| r.rows > 0).map(move |(ri, _)| (fi, ri)))
        .collect();
    if targets.is_empty() {
        return None;
    }
    let mut out = files.to_vec();
    match m {
        Mutation::Rename { target, front } => {
            let (fi, _) = targets[pick_idx(*target, targets.len())];
            // names outside the pool, so no collision; sorts before / after every pool name
            out[fi].name = if *front { format!("!{}", out[fi].name) } else { format!("~{}", out[fi].name) };
            Some((out, "rename"))
        }
        Mutation::Rows { target, delta } => {
            let (fi, ri) = targets[pick_idx(*target, targets.len())];
            let old = out[fi].rgs[ri].rows;
            let new = (old + delta).max(0);
            if new == old {
                out[fi].rgs[ri].rows = old + 1;
            } else {
                out[fi].rgs[ri].rows = new;
            }
            Some((out, "rows"))
        }
        Mutation::Bytes { target, new_bytes } => {
            let (fi, ri) = targets[pick_idx(*target, targets.len())];
            let old = out[fi].rgs[ri].bytes;
            out[fi].rgs[ri].bytes = if *new_bytes == old { old + 1 } else { *new_bytes };
            Some((out, "bytes"))
        }
        Mutation::SplitRg { target, at } => {
            let cands: Vec<(usize, usize)> = targets.iter().copied().filter(|(fi, ri)| files[*fi].rgs[*ri].rows >= 2).collect();
            if cands.is_empty() {
                return None;
            }
            let (fi, ri) = cands[pick_idx(*target, cands.len())];
            let rg = out[fi].rgs[ri].clone();
            let r1 = 1 + pick_idx(*at, (rg.rows - 1) as usize) as i64;
            let b1 = (rg.bytes as i128 * r1 as i128 / rg.rows as i128) as i64;
            out[fi].rgs[ri] = Rg { rows: r1, bytes: b1 };
            out[fi].rgs.insert(ri + 1, Rg { rows: rg.rows - r1, bytes: rg.bytes - b1 });
            Some((out, "layout_split_row_group"))
        }
        Mutation::InsertEmpty { target } => {
            let (fi, ri) = targets[pick_idx(*target, targets.len())];
            out[fi].rgs.insert(ri, Rg { rows: 0, bytes: 0 });
            Some((out, "layout_insert_empty_row_group"))
        }
    }
}

pub struct Enumerate;
impl Check for Enumerate {
    type Case = EnumCase;
    fn name(&self) -> &'static str {
        "enumerate_parquet"
    }
    fn rule(&self) -> &'static str {
        "the table has >=2 files and some row group was cut into >=2 splits"
    }
    fn cases(&self, tier: Tier) -> u32 {
        tier.pick(1500, 40_000)
    }
    fn strategy(&self, tier: Tier) -> BoxedStrategy<EnumCase> {
        case_strategy(tier)
    }
    fn test(&self, c: &EnumCase, obs: &mut Obs) -> Verdict {
        if c.nodes == 0 || c.nodes > 64 {
            return Verdict::Discard("node count outside 1..64".into());
        }
        {
            let mut names: Vec<&str> = c.files.iter().map(|f| f.name.as_str()).collect();
            names.sort();
            if names.windows(2).any(|w| w[0] == w[1]) || names.iter().any(|n| n.starts_with("part-")) {
                return Verdict::Discard("synthetic file names must be distinct (same-name files are the `dup` field)".into());
            }
        }
        let tmp = TempDir::new("c11");
        let root = tmp.path();
        let table = "t";
        obs.label(format!("class:{}", c.class));

        // real files are written once, then copied into each layout
        let mut real_files: Vec<(String, PathBuf)> = vec![];
        if let Some(rt) = &c.real {
            let t = real_table(rt);
            let layout = ParquetLayout { file_cuts: rt.file_cuts.clone(), row_group_size: rt.row_group_size, stats: 1, dictionary: rt.dictionary };
            for p in crate::data::write_parquet(&t, &root.join("real"), &layout) {
                real_files.push((file_name(&p), p));
            }
            obs.label("has_real_files");
        }
        let dup: Option<(&str, &[Rg])> = c.dup.as_ref().map(|d| {
            let of = pick_idx(d.of, c.files.len());
            (c.files[of].name.as_str(), d.rgs.as_slice())
        });
        let dup_conflict = match (&c.dup, dup) {
            (Some(d), Some(_)) => {
                let of = pick_idx(d.of, c.files.len());
                nonempty(&c.files[of].rgs) != nonempty(&d.rgs)
            }
            _ => false,
        };
        if c.dup.is_some() {
            obs.label(if dup_conflict { "same_name_in_two_dirs:different_footers" } else { "same_name_in_two_dirs:equal_footers" });
        }
        let unique_names = c.dup.is_none();

        // ---- layout A, list in case order
        let n_all = c.files.len() + real_files.len();
        let dirs_a: Vec<String> = (0..n_all).map(|i| format!("d{}", c.dirs_a.get(i).copied().unwrap_or(0))).collect();
        // Layout B = another mount point and other directories. Two files that share a name
        // are part of one dataset only through their relative directories, so those two keep
        // theirs (the mount prefix still changes).
        let dup_of = c.dup.as_ref().map(|d| pick_idx(d.of, c.files.len()));
        let dirs_b: Vec<String> = (0..n_all)
            .map(|i| if Some(i) == dup_of { dirs_a[i].clone() } else { format!("e{}", c.dirs_b.get(i).copied().unwrap_or(0)) })
            .collect();
        let a = lay_out(&root.join("A"), &dirs_a, &c.files, &real_files, dup);
        let nfiles = a.list.len();
        let set_a = match enumerate_parquet(table, &a.list, c.nodes) {
            Ok(s) => s,
            Err(e) => return Verdict::Fail(format!("enumerate_parquet failed on valid files: {}", e)),
        };
        let max_pieces = match validate(table, &set_a, &a.inv, unique_names) {
            Ok(m) => m,
            Err(e) => return Verdict::Fail(format!("nodes={} target={}: {}", c.nodes, set_a.target_split_bytes, e)),
        };
        let files_with_rows = a.inv.values().filter(|r| r.iter().any(|g| g.rows > 0)).count();
        obs.nontrivial(nfiles >= 2 && max_pieces >= 2);
        obs.label(match set_a.splits.len() {
            0 => "splits:0",
            1..=9 => "splits:1-9",
            10..=99 => "splits:10-99",
            100..=9999 => "splits:100-9999",
            _ => "splits:10000+",
        });
        if max_pieces >= 2 {
            obs.label("row_group_cut");
        }
        if a.inv.values().flatten().any(|g| g.rows == 0) {
            obs.label("has_empty_row_group");
        }
        if files_with_rows < nfiles {
            obs.label("has_file_without_rows");
        }
        obs.sample(serde_json::json!({
            "nodes": c.nodes, "files": nfiles, "splits": set_a.splits.len(), "max_pieces": max_pieces,
            "total_bytes": set_a.total_bytes, "target": set_a.target_split_bytes, "class": c.class,
        }));

        // determinism on identical input
        match enumerate_parquet(table, &a.list, c.nodes) {
            Ok(s) if same_enumeration(&s, &set_a) => {}
            Ok(s) => return Verdict::Fail(format!("two enumerations of the same list differ: {}", describe_diff(&set_a, &s))),
            Err(e) => return Verdict::Fail(format!("second enumeration failed: {}", e)),
        }

        // ---- permuted list
        let perm = permutation(&c.order, nfiles);
        let list_p: Vec<PathBuf> = perm.iter().map(|&i| a.list[i].clone()).collect();
        let moved_order = perm.iter().enumerate().any(|(i, p)| i != *p);
        if moved_order {
            obs.label("list_permuted");
        }
        let set_p = match enumerate_parquet(table, &list_p, c.nodes) {
            Ok(s) => s,
            Err(e) => return Verdict::Fail(format!("enumerate_parquet failed on the permuted list: {}", e)),
        };
        if let Err(e) = validate(table, &set_p, &a.inv, unique_names) {
            return Verdict::Fail(format!("(permuted list) nodes={}: {}", c.nodes, e));
        }
        let mut order_dependent: Option<String> = None;
        if !same_enumeration(&set_a, &set_p) {
            order_dependent = Some(format!(
                "enumeration depends on the order of the file list (order {:?}): {}",
                perm,
                describe_diff(&set_a, &set_p)
            ));
        }

        // ---- layout B: same names and footers under other directories, same list order
        let b = lay_out(&root.join("B").join("mnt").join("copy"), &dirs_b, &c.files, &real_files, dup);
        let set_b = match enumerate_parquet(table, &b.list, c.nodes) {
            Ok(s) => s,
            Err(e) => return Verdict::Fail(format!("enumerate_parquet failed on the moved copy: {}", e)),
        };
        if let Err(e) = validate(table, &set_b, &b.inv, unique_names) {
            return Verdict::Fail(format!("(moved copy) nodes={}: {}", c.nodes, e));
        }
        if !same_enumeration(&set_a, &set_b) {
            return Verdict::Fail(format!(
                "enumeration depends on the directories the files are in: {}",
                describe_diff(&set_a, &set_b)
            ));
        }
        // moved AND permuted
        let list_bp: Vec<PathBuf> = perm.iter().map(|&i| b.list[i].clone()).collect();
        match enumerate_parquet(table, &list_bp, c.nodes) {
            Ok(s) => {
                if !same_enumeration(&set_a, &s) && order_dependent.is_none() {
                    order_dependent = Some(format!("enumeration depends on list order + directory: {}", describe_diff(&set_a, &s)));
                }
            }
            Err(e) => return Verdict::Fail(format!("enumerate_parquet failed on the moved+permuted copy: {}", e)),
        }

        if let Some(msg) = order_dependent {
            if dup_conflict {
                return Verdict::Known {
                    id: KF_SAME_NAME.into(),
                    msg: format!("two files named {:?} in different directories with different footers: {}", dup.unwrap().0, msg),
                };
            }
            return Verdict::Fail(msg);
        }

        // ---- one-attribute change => different digest
        match mutate(&c.files, &c.mutation) {
            None => obs.label("mutation:not_applicable"),
            Some((files_m, kind)) => {
                let m = lay_out(&root.join("M"), &dirs_a, &files_m, &real_files, dup);
                let set_m = match enumerate_parquet(table, &m.list, c.nodes) {
                    Ok(s) => s,
                    Err(e) => return Verdict::Fail(format!("enumerate_parquet failed on the mutated copy: {}", e)),
                };
                if let Err(e) = validate(table, &set_m, &m.inv, unique_names) {
                    return Verdict::Fail(format!("(copy with changed {}) nodes={}: {}", kind, c.nodes, e));
                }
                obs.label(format!("mutation:{}", kind));
                if seq_eq(&set_m, &set_a) {
                    // cannot happen for these mutations while the validity predicate holds,
                    // except when two same-name files swap roles
                    if c.dup.is_none() {
                        return Verdict::Fail(format!(
                            "a copy that differs in {} enumerates to the same splits (digest cannot tell them apart)",
                            kind
                        ));
                    }
                } else if set_m.digest() == set_a.digest() {
                    return Verdict::Fail(format!(
                        "digest {:#x} unchanged although the copy differs in {}: {}",
                        set_a.digest(),
                        kind,
                        describe_diff(&set_a, &set_m)
                    ));
                }
            }
        }
        Verdict::Pass
    }
}

pub fn property() -> Property {
    Property {
        id: "C11",
        level: "exploration",
        assumptions: &[
            "row counts 0..10^7 and total_byte_size 0..2^40 (non-negative); node counts 1..64",
            "'the table's bytes' = sum of total_byte_size over non-empty row groups (an empty row group with a non-zero size may be counted or not)",
            "digest sensitivity is asserted for changes to a file that has rows, a non-empty row group's rows/bytes, or a layout change that renumbers a non-empty row group; 64-bit hash collisions are ignored",
            "files with equal names in different directories are generated in ~7% of cases; their order dependence is the open finding c11-same-file-name-order-dependent",
        ],
        checks: vec![Box::new(Enumerate)],
    }
}
