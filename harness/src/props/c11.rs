//! C11 — not implemented yet.
use super::Property;

pub fn property() -> Property {
    Property { id: "C11", level: "exploration", assumptions: &[], checks: vec![] }
}
