//! C12 — not implemented yet.
use super::Property;

pub fn property() -> Property {
    Property { id: "C12", level: "exploration", assumptions: &[], checks: vec![] }
}
