//! C12 — Byte-balanced assignment is a deterministic partition within the LPT bound.
//!
//! Code under test: `query_engine::distributed::splits::assign_lpt` (+ `Assignment::
//! imbalance/idle_nodes`). Pure function of `(SplitSet, nodes)`; `SplitSet` has public
//! fields so instances are constructed directly.
//!
//! Checks
//!  * `lpt_small_exhaustive` — every multiset of <=9 sizes over {0..7} and every ordered
//!    sequence of <=6 sizes over {0..4}, for 1..=4 nodes; OPT by exact branch-and-bound;
//!    contains the tight Graham instances for N=2,3,4 ({3,3,2,2,2}, {5,5,4,4,3,3,3},
//!    {7,7,6,6,5,5,4,4,4}).
//!  * `lpt_generated` — generated split sets (0..200 splits, ties, zeros, heavy tails,
//!    byte sizes to 2^40, nodes 1..64). OPT is known exactly for (a) <=14 splits
//!    (branch-and-bound) and (b) "planted" instances built from N bins that all sum to the
//!    same T (OPT = T because T = total/N is a lower bound that is attained).
//!
//! Oracle (both): (1) per_node is a partition of 0..len over exactly `nodes` lists;
//! (2) node_bytes/node_rows/node_splits/total_bytes/idle_nodes/imbalance are the sums over
//! what each node owns; (3) two calls agree field by field, and a SplitSet holding the same
//! splits inserted in a different order gives the same owner for every split (canonical
//! keys are unique by construction, so the documented tie-break decides everything);
//! (4) 3*N*max_load <= (4N-1)*OPT in u128.
use super::Property;
use crate::data::pick_idx;
use crate::runner::*;
use proptest::prelude::*;
use query_engine::distributed::splits::{assign_lpt, Assignment, Split, SplitSet, MAX_SPLIT_BYTES};
use serde::{Deserialize, Serialize};
use std::path::PathBuf;

// ---------------------------------------------------------------------------
// exact optimum makespan (independent of the code under test)
// ---------------------------------------------------------------------------

/// Exact minimum makespan of `sizes` on `m` identical machines, or None when the node
/// budget is exhausted (deterministic: the budget counts search nodes, not time).
pub fn opt_makespan(sizes: &[u64], m: usize, budget: u64) -> Option<u64> {
    let m = m.max(1);
    let mut s: Vec<u64> = sizes.iter().copied().filter(|x| *x > 0).collect();
    s.sort_unstable_by(|a, b| b.cmp(a));
    if s.is_empty() {
        return Some(0);
    }
    let sum: u128 = s.iter().map(|x| *x as u128).sum();
    let mut lb = s[0] as u128;
    lb = lb.max((sum + m as u128 - 1) / m as u128);
    if s.len() > m {
        lb = lb.max(s[m - 1] as u128 + s[m] as u128);
    }
    if s.len() <= m {
        return Some(s[0]);
    }
    // upper bound: own greedy (largest first, least loaded)
    let mut loads = vec![0u128; m];
    for x in &s {
        let j = (0..m).min_by_key(|j| loads[*j]).unwrap();
        loads[j] += *x as u128;
    }
    let mut best = *loads.iter().max().unwrap();
    if best == lb {
        return Some(best as u64);
    }
    // suffix sums for a remaining-work bound
    let mut suffix = vec![0u128; s.len() + 1];
    for i in (0..s.len()).rev() {
        suffix[i] = suffix[i + 1] + s[i] as u128;
    }
    struct St<'a> {
        s: &'a [u64],
        suffix: &'a [u128],
        m: usize,
        lb: u128,
        best: u128,
        budget: u64,
        out: bool,
    }
    fn dfs(st: &mut St, i: usize, loads: &mut Vec<u128>, cur_max: u128) {
        if st.out || st.best == st.lb {
            return;
        }
        if st.budget == 0 {
            st.out = true;
            return;
        }
        st.budget -= 1;
        if i == st.s.len() {
            if cur_max < st.best {
                st.best = cur_max;
            }
            return;
        }
        // bound: even spreading of everything still cannot beat best
        let total: u128 = loads.iter().sum::<u128>() + st.suffix[i];
        let avg = (total + st.m as u128 - 1) / st.m as u128;
        if avg.max(cur_max) >= st.best {
            return;
        }
        let x = st.s[i] as u128;
        let mut tried: Vec<u128> = Vec::with_capacity(st.m);
        for j in 0..st.m {
            let l = loads[j];
            if tried.contains(&l) {
                continue; // symmetric to a machine already tried
            }
            tried.push(l);
            let nl = l + x;
            if nl >= st.best {
                continue;
            }
            loads[j] = nl;
            dfs(st, i + 1, loads, cur_max.max(nl));
            loads[j] = l;
            if st.out || st.best == st.lb {
                return;
            }
        }
    }
    let mut st = St { s: &s, suffix: &suffix, m, lb, best, budget, out: false };
    let mut l0 = vec![0u128; m];
    dfs(&mut st, 0, &mut l0, 0);
    if st.out {
        return None;
    }
    best = st.best;
    Some(best as u64)
}

// ---------------------------------------------------------------------------
// building SplitSets
// ---------------------------------------------------------------------------

#[derive(Clone, Debug, Serialize, Deserialize, PartialEq)]
pub struct Sp {
    /// how the canonical key advances from the previous split:
    /// 0 = next row range of the same row group, 1 = next row group, 2 = next file
    pub adv: u8,
    pub rows: i64,
    pub bytes: u64,
}

/// Splits in canonical order with pairwise distinct canonical keys.
fn build_splits(sp: &[Sp]) -> Vec<Split> {
    let mut out = Vec::with_capacity(sp.len());
    let (mut file, mut rg, mut off) = (0usize, 0usize, 0i64);
    for (i, s) in sp.iter().enumerate() {
        if i > 0 {
            match s.adv {
                0 => {}
                1 => {
                    rg += 1;
                    off = 0;
                }
                _ => {
                    file += 1;
                    rg = 0;
                    off = 0;
                }
            }
        }
        let name = format!("f{:04}.parquet", file);
        out.push(Split {
            table: "t".into(),
            path: PathBuf::from(format!("/data/{}", name)),
            file: name,
            row_group: rg,
            row_offset: off,
            num_rows: s.rows,
            bytes: s.bytes,
        });
        // keys must be distinct even for zero-row splits
        off += s.rows.max(1);
    }
    out
}

fn split_set(splits: Vec<Split>) -> SplitSet {
    SplitSet {
        table: "t".into(),
        total_bytes: splits.iter().map(|s| s.bytes).sum(),
        total_rows: splits.iter().map(|s| s.num_rows).sum(),
        target_split_bytes: MAX_SPLIT_BYTES,
        splits,
    }
}

fn permutation(sel: &[u16], n: usize) -> Vec<usize> {
    let mut pool: Vec<usize> = (0..n).collect();
    let mut out = Vec::with_capacity(n);
    for i in 0..n {
        let k = pick_idx(sel.get(i).copied().unwrap_or(0), pool.len());
        out.push(pool.remove(k));
    }
    out
}

// ---------------------------------------------------------------------------
// the oracle
// ---------------------------------------------------------------------------

fn same_assignment(a: &Assignment, b: &Assignment) -> bool {
    a.nodes == b.nodes
        && a.per_node == b.per_node
        && a.node_bytes == b.node_bytes
        && a.node_rows == b.node_rows
        && a.node_splits == b.node_splits
        && a.total_bytes == b.total_bytes
}

/// Structural part of the property: partition + accounting. Returns max load.
fn check_structure(set: &SplitSet, nodes: usize, a: &Assignment) -> Result<u64, String> {
    let n = set.splits.len();
    if a.nodes != nodes {
        return Err(format!("Assignment.nodes = {} for a request of {} nodes", a.nodes, nodes));
    }
    if a.per_node.len() != nodes || a.node_bytes.len() != nodes || a.node_rows.len() != nodes || a.node_splits.len() != nodes {
        return Err(format!(
            "per-node vectors have lengths {}/{}/{}/{} for {} nodes",
            a.per_node.len(),
            a.node_bytes.len(),
            a.node_rows.len(),
            a.node_splits.len(),
            nodes
        ));
    }
    let mut owner = vec![usize::MAX; n];
    for (node, owned) in a.per_node.iter().enumerate() {
        for &i in owned {
            if i >= n {
                return Err(format!("node {} owns index {} but the set has {} splits", node, i, n));
            }
            if owner[i] != usize::MAX {
                return Err(format!("split {} is owned by node {} and by node {}", i, owner[i], node));
            }
            owner[i] = node;
        }
    }
    if let Some(i) = owner.iter().position(|o| *o == usize::MAX) {
        return Err(format!("split {} ({} bytes) is owned by no node", i, set.splits[i].bytes));
    }
    for node in 0..nodes {
        let b: u64 = a.per_node[node].iter().map(|&i| set.splits[i].bytes).sum();
        let r: i64 = a.per_node[node].iter().map(|&i| set.splits[i].num_rows).sum();
        if a.node_bytes[node] != b {
            return Err(format!("node_bytes[{}] = {} but the node's splits sum to {}", node, a.node_bytes[node], b));
        }
        if a.node_rows[node] != r {
            return Err(format!("node_rows[{}] = {} but the node's splits sum to {}", node, a.node_rows[node], r));
        }
        if a.node_splits[node] != a.per_node[node].len() {
            return Err(format!(
                "node_splits[{}] = {} but the node owns {} splits",
                node,
                a.node_splits[node],
                a.per_node[node].len()
            ));
        }
    }
    let sum: u64 = a.node_bytes.iter().sum();
    if sum != set.total_bytes || a.total_bytes != set.total_bytes {
        return Err(format!(
            "sum of node_bytes = {}, Assignment.total_bytes = {}, table total_bytes = {}",
            sum, a.total_bytes, set.total_bytes
        ));
    }
    let idle: Vec<usize> = (0..nodes).filter(|i| a.per_node[*i].is_empty()).collect();
    if a.idle_nodes() != idle {
        return Err(format!("idle_nodes() = {:?} but the nodes owning nothing are {:?}", a.idle_nodes(), idle));
    }
    let max = a.node_bytes.iter().copied().max().unwrap_or(0);
    let want = if set.total_bytes == 0 { 1.0 } else { max as f64 / (set.total_bytes as f64 / nodes as f64) };
    let got = a.imbalance();
    if !(got.is_finite() && (got - want).abs() <= 1e-9 * want.abs().max(1.0)) {
        return Err(format!("imbalance() = {} but max/mean of the node loads is {}", got, want));
    }
    Ok(max)
}

/// 3*N*max <= (4N-1)*OPT
fn within_lpt_bound(max: u64, opt: u64, nodes: usize) -> bool {
    let n = nodes as u128;
    3 * n * max as u128 <= (4 * n - 1) * opt as u128
}

// ---------------------------------------------------------------------------
// check 1: exhaustive small instances
// ---------------------------------------------------------------------------

#[derive(Clone, Debug, Serialize, Deserialize)]
pub struct SmallCase {
    pub nodes: usize,
    pub sizes: Vec<u64>,
}

fn multisets(alpha: u64, max_len: usize) -> Vec<Vec<u64>> {
    // all non-decreasing sequences of length <= max_len over 0..=alpha
    let mut out = vec![];
    fn rec(cur: &mut Vec<u64>, lo: u64, alpha: u64, max_len: usize, out: &mut Vec<Vec<u64>>) {
        out.push(cur.clone());
        if cur.len() == max_len {
            return;
        }
        for v in lo..=alpha {
            cur.push(v);
            rec(cur, v, alpha, max_len, out);
            cur.pop();
        }
    }
    rec(&mut vec![], 0, alpha, max_len, &mut out);
    out
}

fn sequences(alpha: u64, max_len: usize) -> Vec<Vec<u64>> {
    let mut out = vec![vec![]];
    let mut layer: Vec<Vec<u64>> = vec![vec![]];
    for _ in 0..max_len {
        let mut next = vec![];
        for s in &layer {
            for v in 0..=alpha {
                let mut t = s.clone();
                t.push(v);
                next.push(t);
            }
        }
        out.extend(next.iter().cloned());
        layer = next;
    }
    out
}

pub struct SmallExhaustive;
impl Check for SmallExhaustive {
    type Case = SmallCase;
    fn name(&self) -> &'static str {
        "lpt_small_exhaustive"
    }
    fn rule(&self) -> &'static str {
        ">=2 nodes, >=3 splits, not all sizes equal (space: all multisets of <=9 sizes over 0..7 and all sequences of <=6 sizes over 0..4, nodes 1..4)"
    }
    fn cases(&self, _t: Tier) -> u32 {
        0
    }
    fn strategy(&self, _t: Tier) -> BoxedStrategy<SmallCase> {
        Just(SmallCase { nodes: 1, sizes: vec![] }).boxed()
    }
    fn exhaustive(&self, _t: Tier) -> Option<Box<dyn Iterator<Item = SmallCase> + '_>> {
        let mut all = multisets(7, 9);
        // ordered sequences that are not already non-decreasing
        all.extend(sequences(4, 6).into_iter().filter(|s| s.windows(2).any(|w| w[0] > w[1])));
        Some(Box::new(
            all.into_iter()
                .flat_map(|sizes| (1usize..=4).map(move |nodes| SmallCase { nodes, sizes: sizes.clone() })),
        ))
    }
    fn test(&self, c: &SmallCase, obs: &mut Obs) -> Verdict {
        let sp: Vec<Sp> = c.sizes.iter().map(|b| Sp { adv: 1, rows: 10, bytes: *b }).collect();
        let set = split_set(build_splits(&sp));
        let a = assign_lpt(&set, c.nodes);
        let distinct_sizes = c.sizes.iter().any(|s| *s != c.sizes[0]);
        obs.nontrivial(c.nodes >= 2 && c.sizes.len() >= 3 && distinct_sizes);
        let max = match check_structure(&set, c.nodes, &a) {
            Ok(m) => m,
            Err(e) => return Verdict::Fail(format!("sizes={:?} nodes={}: {}", c.sizes, c.nodes, e)),
        };
        let b = assign_lpt(&set, c.nodes);
        if !same_assignment(&a, &b) {
            return Verdict::Fail(format!("sizes={:?} nodes={}: two calls differ", c.sizes, c.nodes));
        }
        let opt = opt_makespan(&c.sizes, c.nodes, u64::MAX).unwrap();
        if max < opt {
            return Verdict::Fail(format!(
                "harness error: max load {} below the computed optimum {} (sizes={:?} nodes={})",
                max, opt, c.sizes, c.nodes
            ));
        }
        if max == opt {
            obs.label("optimal");
        } else if 3 * c.nodes as u128 * max as u128 == (4 * c.nodes as u128 - 1) * opt as u128 {
            obs.label("bound_tight");
        } else {
            obs.label("suboptimal_within_bound");
        }
        if !within_lpt_bound(max, opt, c.nodes) {
            return Verdict::Fail(format!(
                "sizes={:?} nodes={}: max node load {} > (4/3 - 1/(3*{}))*OPT with OPT={} (node_bytes={:?})",
                c.sizes, c.nodes, max, c.nodes, opt, a.node_bytes
            ));
        }
        Verdict::Pass
    }
}

// ---------------------------------------------------------------------------
// check 2: generated instances
// ---------------------------------------------------------------------------

#[derive(Clone, Debug, Serialize, Deserialize)]
pub struct LptCase {
    pub nodes: usize,
    pub splits: Vec<Sp>,
    /// selectors of the insertion order used for the permuted twin
    pub perm: Vec<u16>,
    /// Some(T) when the instance was built from `nodes` bins each summing to T
    pub planted_opt: Option<u64>,
    pub family: String,
}

fn sp_from_sizes(sizes: Vec<u64>) -> impl Strategy<Value = Vec<Sp>> {
    let n = sizes.len();
    (
        proptest::collection::vec(prop_oneof![3 => Just(0u8), 2 => Just(1u8), 1 => Just(2u8)], n),
        proptest::collection::vec(prop_oneof![Just(0i64), Just(1), 1i64..1000, 1i64..10_000_000], n),
    )
        .prop_map(move |(adv, rows)| {
            sizes
                .iter()
                .enumerate()
                .map(|(i, b)| Sp { adv: adv[i], rows: rows[i], bytes: *b })
                .collect()
        })
}

fn sizes_family(max_len: usize) -> BoxedStrategy<(String, Vec<u64>)> {
    let len = 0..=max_len;
    prop_oneof![
        // tiny alphabet: many ties and zeros
        3 => proptest::collection::vec(0u64..8, len.clone()).prop_map(|v| ("tiny_alphabet".to_string(), v)),
        // near-equal sizes (row groups of one file)
        2 => (1u64..(1 << 30), proptest::collection::vec(0u64..4, len.clone()))
            .prop_map(|(base, d)| ("near_equal".to_string(), d.into_iter().map(|x| base + x).collect())),
        // powers of two: heavy tail
        2 => proptest::collection::vec((0u32..=40).prop_map(|k| 1u64 << k), len.clone())
            .prop_map(|v| ("pow2".to_string(), v)),
        // one boulder and pebbles
        1 => (1u64..=(1 << 40), proptest::collection::vec(0u64..1000, len.clone()))
            .prop_map(|(b, mut v)| { v.push(b); ("boulder".to_string(), v) }),
        // the full stated range
        2 => proptest::collection::vec(prop_oneof![0u64..=(1 << 40), 0u64..100_000, Just(0u64), Just(1u64 << 40)], len.clone())
            .prop_map(|v| ("uniform_2^40".to_string(), v)),
        // two classes around a third / a half of a common unit (hard for greedy)
        2 => (1u64..(1 << 28), proptest::collection::vec((2u64..=7, 0u64..3), len))
            .prop_map(|(u, v)| ("unit_multiples".to_string(), v.into_iter().map(|(k, d)| k * u + d).collect())),
    ]
    .boxed()
}

/// Graham's tight family scaled by `c`: {2N-1,2N-1,...,N+1,N+1,N,N,N}.
fn graham(n: usize, c: u64) -> Vec<u64> {
    let mut v = vec![];
    for k in (n + 1..=2 * n - 1).rev() {
        v.push(k as u64 * c);
        v.push(k as u64 * c);
    }
    v.extend([n as u64 * c; 3]);
    v
}

fn general_case(max_len: usize) -> BoxedStrategy<LptCase> {
    (sizes_family(max_len), prop_oneof![4 => 1usize..=6, 2 => 1usize..=16, 1 => 1usize..=64])
        .prop_flat_map(|((family, sizes), nodes)| {
            let n = sizes.len();
            (sp_from_sizes(sizes), proptest::collection::vec(any::<u16>(), n)).prop_map(move |(splits, perm)| LptCase {
                nodes,
                splits,
                perm,
                planted_opt: None,
                family: family.clone(),
            })
        })
        .boxed()
}

fn graham_case() -> BoxedStrategy<LptCase> {
    (2usize..=6, prop_oneof![Just(1u64), 1u64..1000, 1u64..(1 << 30)], 0usize..3)
        .prop_flat_map(|(n, c, extra_zero)| {
            let mut sizes = graham(n, c);
            sizes.extend(std::iter::repeat(0).take(extra_zero));
            let len = sizes.len();
            (sp_from_sizes(sizes), proptest::collection::vec(any::<u16>(), len), proptest::collection::vec(any::<u16>(), len))
                .prop_map(move |(splits, order, perm)| {
                    // canonical order must not be the size order
                    let p = permutation(&order, splits.len());
                    let bytes: Vec<u64> = p.iter().map(|&i| splits[i].bytes).collect();
                    let splits = splits
                        .iter()
                        .zip(bytes)
                        .map(|(s, b)| Sp { adv: s.adv, rows: s.rows, bytes: b })
                        .collect();
                    LptCase { nodes: n, splits, perm, planted_opt: None, family: "graham_tight".into() }
                })
        })
        .boxed()
}

/// `nodes` bins that each sum to exactly T, cut into random pieces: OPT = T.
fn planted_case(max_nodes: usize, max_per_bin: usize) -> BoxedStrategy<LptCase> {
    (2usize..=max_nodes, prop_oneof![1u64..64, 1u64..100_000, 1u64..=(1 << 40)])
        .prop_flat_map(move |(nodes, t)| {
            let bin = proptest::collection::vec(0u64..=t, 0..max_per_bin);
            (proptest::collection::vec(bin, nodes), Just(nodes), Just(t))
        })
        .prop_flat_map(|(bins, nodes, t)| {
            let mut sizes = vec![];
            for cuts in &bins {
                let mut c = cuts.clone();
                c.sort_unstable();
                let mut lo = 0;
                for x in c {
                    sizes.push(x - lo);
                    lo = x;
                }
                sizes.push(t - lo);
            }
            let len = sizes.len();
            (sp_from_sizes(sizes), proptest::collection::vec(any::<u16>(), len), proptest::collection::vec(any::<u16>(), len))
                .prop_map(move |(splits, order, perm)| {
                    let p = permutation(&order, splits.len());
                    let bytes: Vec<u64> = p.iter().map(|&i| splits[i].bytes).collect();
                    let splits = splits
                        .iter()
                        .zip(bytes)
                        .map(|(s, b)| Sp { adv: s.adv, rows: s.rows, bytes: b })
                        .collect();
                    LptCase { nodes, splits, perm, planted_opt: Some(t), family: "planted".into() }
                })
        })
        .boxed()
}

const BB_MAX_SPLITS: usize = 14;
const BB_BUDGET: u64 = 3_000_000;

pub struct Generated;
impl Check for Generated {
    type Case = LptCase;
    fn name(&self) -> &'static str {
        "lpt_generated"
    }
    fn rule(&self) -> &'static str {
        ">=2 nodes, >=3 splits, not all sizes equal, and the optimum is known exactly (branch-and-bound for <=14 splits, or planted equal bins)"
    }
    fn cases(&self, tier: Tier) -> u32 {
        tier.pick(6000, 3_000_000)
    }
    fn strategy(&self, _tier: Tier) -> BoxedStrategy<LptCase> {
        prop_oneof![
            5 => general_case(BB_MAX_SPLITS),
            2 => general_case(200),
            1 => graham_case(),
            2 => planted_case(6, 5),
            1 => planted_case(64, 4),
        ]
        .boxed()
    }
    fn test(&self, c: &LptCase, obs: &mut Obs) -> Verdict {
        let nodes = c.nodes;
        if nodes == 0 {
            return Verdict::Discard("nodes=0 is outside 1..64".into());
        }
        let n = c.splits.len();
        let canon = build_splits(&c.splits);
        let set = split_set(canon.clone());
        let a = assign_lpt(&set, nodes);
        let sizes: Vec<u64> = c.splits.iter().map(|s| s.bytes).collect();
        obs.label(format!("family:{}", c.family));
        obs.label(match n {
            0 => "len:0",
            1..=2 => "len:1-2",
            3..=14 => "len:3-14",
            15..=63 => "len:15-63",
            _ => "len:64+",
        });
        if nodes > n {
            obs.label("more_nodes_than_splits");
        }
        if sizes.iter().any(|s| *s == 0) {
            obs.label("has_zero_byte_split");
        }
        {
            let mut s = sizes.clone();
            s.sort_unstable();
            if s.windows(2).any(|w| w[0] == w[1]) {
                obs.label("has_size_ties");
            }
        }

        // (1)+(2)
        let max = match check_structure(&set, nodes, &a) {
            Ok(m) => m,
            Err(e) => return Verdict::Fail(format!("nodes={} sizes={:?}: {}", nodes, sizes, e)),
        };
        // (3a) identical input, second call
        let b = assign_lpt(&set.clone(), nodes);
        if !same_assignment(&a, &b) {
            return Verdict::Fail(format!("nodes={} sizes={:?}: two calls on identical input differ", nodes, sizes));
        }
        // (3b) same splits inserted in another order: every split keeps its owner
        let p = permutation(&c.perm, n);
        let twin = split_set(p.iter().map(|&i| canon[i].clone()).collect());
        let t = assign_lpt(&twin, nodes);
        if let Err(e) = check_structure(&twin, nodes, &t) {
            return Verdict::Fail(format!("(permuted insertion order) nodes={} sizes={:?}: {}", nodes, sizes, e));
        }
        let mut owner_a = vec![0usize; n];
        for (node, owned) in a.per_node.iter().enumerate() {
            for &i in owned {
                owner_a[i] = node;
            }
        }
        for (node, owned) in t.per_node.iter().enumerate() {
            for &j in owned {
                let orig = p[j];
                if owner_a[orig] != node {
                    return Verdict::Fail(format!(
                        "assignment depends on insertion order: split #{} ({}[{}]@{}, {} bytes) goes to node {} in canonical order but to node {} when the same splits are inserted in order {:?} (nodes={}, sizes={:?})",
                        orig, canon[orig].file, canon[orig].row_group, canon[orig].row_offset, canon[orig].bytes, owner_a[orig], node, p, nodes, sizes
                    ));
                }
            }
        }
        if t.node_bytes != a.node_bytes || t.node_rows != a.node_rows {
            return Verdict::Fail(format!("node totals depend on insertion order (nodes={}, sizes={:?})", nodes, sizes));
        }

        // (4) the bound, where the optimum is known exactly
        let opt = if let Some(t) = c.planted_opt {
            // validate the plant: total must be nodes*T (otherwise the case file was edited)
            if sizes.iter().map(|x| *x as u128).sum::<u128>() != t as u128 * nodes as u128 {
                return Verdict::Discard("planted_opt inconsistent with sizes".into());
            }
            obs.label("opt:planted");
            Some(t)
        } else if n <= BB_MAX_SPLITS {
            match opt_makespan(&sizes, nodes, BB_BUDGET) {
                Some(o) => {
                    obs.label("opt:branch_and_bound");
                    Some(o)
                }
                None => {
                    obs.label("opt:budget_exhausted");
                    None
                }
            }
        } else if nodes >= n {
            obs.label("opt:trivial");
            Some(sizes.iter().copied().max().unwrap_or(0))
        } else {
            obs.label("opt:unknown(structure only)");
            None
        };
        let distinct_sizes = sizes.iter().any(|s| *s != sizes[0]);
        obs.nontrivial(nodes >= 2 && n >= 3 && distinct_sizes && opt.is_some());
        if let Some(opt) = opt {
            if max < opt {
                return Verdict::Fail(format!(
                    "harness error: max load {} below the optimum {} (nodes={} sizes={:?})",
                    max, opt, nodes, sizes
                ));
            }
            if max == opt {
                obs.label("optimal");
            } else if 3 * nodes as u128 * max as u128 == (4 * nodes as u128 - 1) * opt as u128 {
                obs.label("bound_tight");
            } else {
                obs.label("suboptimal_within_bound");
            }
            if !within_lpt_bound(max, opt, nodes) {
                return Verdict::Fail(format!(
                    "nodes={} sizes={:?}: max node load {} > (4/3 - 1/(3*{}))*OPT with OPT={} (node_bytes={:?})",
                    nodes, sizes, max, nodes, opt, a.node_bytes
                ));
            }
        }
        Verdict::Pass
    }
}

pub fn property() -> Property {
    Property {
        id: "C12",
        level: "exploration",
        assumptions: &[
            "split sets have pairwise distinct canonical keys (table,file,row_group,row_offset), as every enumeration produces; byte sizes <= 2^40 and <= 200 splits so u64 sums cannot overflow",
            "the optimal makespan is computed by an independent exact branch-and-bound (<=14 splits) or known by construction (planted equal bins); larger unplanted instances are checked for partition/accounting/determinism only",
            "insertion-order independence is checked as owner-of-each-split equality (indices necessarily differ)",
        ],
        checks: vec![Box::new(SmallExhaustive), Box::new(Generated)],
    }
}
