//! C45 — not implemented yet.
use super::Property;

pub fn property() -> Property {
    Property { id: "C45", level: "exploration", assumptions: &[], checks: vec![] }
}
