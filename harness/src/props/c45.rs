//! C45 — Gathered tables carry every column the statement reads.
//!
//! Generator: 2–4 Parquet tables (optionally with mixed-case names that must be
//! quoted), a cluster of 1–4 participants, and a gather-path statement: the
//! full `sqlgen` grammar (joins, filters on non-projected columns, subqueries,
//! CTEs, derived tables, set operations, DISTINCT, self-joins by construction of
//! the FROM generator) plus, added here: window functions, `SELECT *` / `t.*`,
//! and subquery predicates / scalar subquery items over a table that appears
//! ONLY inside the subquery (uncorrelated, correlated, and under OR so that it
//! cannot be unnested into a join).
//! Oracle: (1) `plan_gather` must plan every statement the single node answers;
//! (2) every (table, column) the BOUND statement references — found by a
//! harness walker over the bound `LogicalPlan` including the plans inside
//! subquery expressions — is listed in the matching `GatherTable.columns` (or
//! that is `None`), and every referenced table is gathered; (3)
//! `execute_gathered` over the in-process transport binds, runs and returns
//! `ctx.sql`'s answer (multiset; ORDER BY/LIMIT judged as in C09).
use super::c09::cluster::*;
use super::c09::{first_select, order_keys};
use super::Property;
use crate::data::*;
use crate::engine::{panic_text, run_sql};
use crate::refsql;
use crate::runner::*;
use crate::sqlast::*;
use crate::sqlgen::*;
use proptest::prelude::*;
use serde::{Deserialize, Serialize};
use std::collections::{BTreeMap, BTreeSet};

#[derive(Clone, Debug, Serialize, Deserialize)]
pub struct GatherCase {
    pub tables: Vec<PqTable>,
    /// table and column names are mixed-case; the statement quotes them
    pub quoted: bool,
    pub cluster: ClusterSpec,
    pub query: Query,
    pub features: Vec<String>,
}

const PLAIN_T: [&str; 4] = ["r", "s", "u", "v"];
const MIXED_T: [&str; 4] = ["Rt", "sT", "U1", "vv"];
const MIXED_C: [&str; 4] = ["Aa", "bB", "C", "dd"];

fn q_ident(s: &str) -> String {
    format!("\"{}\"", s)
}

fn tables4(max_rows: usize) -> BoxedStrategy<Vec<PqTable>> {
    let tp = TableProfile { max_cols: 4, max_rows, ..TableProfile::default() };
    (2usize..=4)
        .prop_flat_map(move |n| {
            let tp = tp.clone();
            ((0..n).map(|i| table_strategy(PLAIN_T[i].to_string(), tp.clone())).collect::<Vec<_>>(), proptest::collection::vec(tiny_layout_strategy(max_rows), n))
        })
        .prop_map(|(ts, ls)| ts.into_iter().zip(ls).map(|(table, layout)| PqTable { table, layout }).collect())
        .boxed()
}

/// (alias, table index) of the base tables in the FROM of a block
fn from_tables(sel: &Select, cat_names: &[String]) -> Vec<(String, usize)> {
    fn go(f: &From, names: &[String], out: &mut Vec<(String, usize)>) {
        match f {
            From::Table { name, alias } => {
                if let Some(i) = names.iter().position(|n| n == name) {
                    out.push((alias.clone().unwrap_or_else(|| name.clone()), i));
                }
            }
            From::Join { l, r, .. } => {
                go(l, names, out);
                go(r, names, out);
            }
            From::Derived { .. } => {}
        }
    }
    let mut out = vec![];
    for f in &sel.from {
        go(f, cat_names, &mut out);
    }
    out
}

/// Add a subquery over a table that the enclosing block does not mention.
fn add_foreign_subquery(q: &mut Query, cat: &Catalog, t: &mut Tape, features: &mut Vec<String>) {
    let names: Vec<String> = cat.rels.iter().map(|r| r.0.clone()).collect();
    let SetExpr::Select(sel) = &mut q.body else { return };
    let outer = from_tables(sel, &names);
    if outer.is_empty() {
        return;
    }
    let used: BTreeSet<usize> = outer.iter().map(|o| o.1).collect();
    let foreign: Vec<usize> = (0..names.len()).filter(|i| !used.contains(i)).collect();
    if foreign.is_empty() {
        return;
    }
    let fi = foreign[t.pick(foreign.len())];
    let (fname, fcols) = &cat.rels[fi];
    let fa = "fq";
    let (oa, oi) = outer[t.pick(outer.len())].clone();
    let ocols = &cat.rels[oi].1;
    // type-compatible (outer col, foreign col) pairs
    let mut pairs = vec![];
    for (on, ot) in ocols {
        for (fnm, ft) in fcols {
            if (ot == ft || (ot.is_int() && ft.is_int())) && *ot != ColType::Bool && *ot != ColType::Double {
                pairs.push((on.clone(), fnm.clone(), *ot));
            }
        }
    }
    let from = vec![From::Table { name: fname.clone(), alias: Some(fa.into()) }];
    let fcol = |n: &str| Expr::qcol(fa, n);
    let inner_filter = |t: &mut Tape| -> Option<Expr> {
        if t.chance(50) {
            let (n, ty) = &fcols[t.pick(fcols.len())];
            Some(match ty {
                ColType::Bool => Expr::IsNull { e: Box::new(fcol(n)), neg: true },
                ColType::Str => Expr::bin(fcol(n), BinOp::Ge, Expr::Lit(Value::Str("a".into()))),
                ColType::Date => Expr::bin(fcol(n), BinOp::Ge, Expr::Lit(Value::Date(10957))),
                ColType::Double => Expr::bin(fcol(n), BinOp::Le, Expr::Lit(Value::Double(1.0))),
                _ => Expr::bin(fcol(n), BinOp::Le, Expr::int(3)),
            })
        } else {
            None
        }
    };
    let kind = t.pick(5);
    let pred: Option<Expr> = match kind {
        0 | 1 if !pairs.is_empty() => {
            // x IN (SELECT col FROM foreign [WHERE …])
            let (on, fnm, _) = pairs[t.pick(pairs.len())].clone();
            let w = inner_filter(t);
            features.push("foreign_in_subquery".into());
            Some(Expr::InSub { e: Box::new(Expr::qcol(&oa, &on)), q: Box::new(Query::select(Select::simple(vec![Item::Expr(fcol(&fnm), None)], from, w))), neg: false })
        }
        2 if !pairs.is_empty() => {
            // correlated EXISTS
            let (on, fnm, _) = pairs[t.pick(pairs.len())].clone();
            let mut w = Expr::eq(fcol(&fnm), Expr::qcol(&oa, &on));
            if let Some(x) = inner_filter(t) {
                w = Expr::and(w, x);
            }
            features.push("foreign_exists_correlated".into());
            features.push("correlated".into());
            Some(Expr::Exists { q: Box::new(Query::select(Select::simple(vec![Item::Expr(Expr::int(1), None)], from, Some(w)))), neg: t.chance(30) })
        }
        3 => {
            // uncorrelated EXISTS
            let w = inner_filter(t);
            features.push("foreign_exists".into());
            Some(Expr::Exists { q: Box::new(Query::select(Select::simple(vec![Item::Expr(Expr::int(1), None)], from, w))), neg: false })
        }
        _ => {
            // scalar COUNT(*) / MAX compared with a literal
            let w = inner_filter(t);
            features.push("foreign_scalar_subquery".into());
            let ints: Vec<&(String, ColType)> = fcols.iter().filter(|c| c.1.is_int()).collect();
            let agg = if ints.is_empty() || t.chance(50) { Expr::count_star() } else { Expr::agg(AggF::Max, fcol(&ints[t.pick(ints.len())].0)) };
            let sq = Expr::Scalar(Box::new(Query::select(Select::simple(vec![Item::Expr(agg, None)], from, w))));
            if t.chance(35) && sel.group == Group::None && !sel.distinct && matches!(q.order_by.len(), 0) {
                // as a SELECT item instead of a predicate
                features.push("subquery_in_select_list".into());
                sel.items.push(Item::Expr(sq, Some("sq9".into())));
                return;
            }
            Some(Expr::bin(sq, BinOp::Ge, Expr::int(t.pick(3) as i64)))
        }
    };
    let Some(mut pred) = pred else { return };
    if t.chance(35) {
        // under OR: cannot be turned into a semi join
        features.push("subquery_under_or".into());
        let (n, _) = &ocols[t.pick(ocols.len())];
        pred = Expr::bin(Expr::IsNull { e: Box::new(Expr::qcol(&oa, n)), neg: false }, BinOp::Or, pred);
    }
    features.push("foreign_subquery".into());
    sel.where_ = Some(match sel.where_.take() {
        Some(w) => Expr::and(w, pred),
        None => pred,
    });
}

fn add_star(q: &mut Query, t: &mut Tape, features: &mut Vec<String>, cat: &Catalog) {
    if !q.order_by.is_empty() {
        return;
    }
    let names: Vec<String> = cat.rels.iter().map(|r| r.0.clone()).collect();
    let SetExpr::Select(sel) = &mut q.body else { return };
    if sel.group != Group::None || sel.distinct || sel.items.iter().any(|i| matches!(i, Item::Expr(e, _) if e.contains_agg() || e.contains_win())) {
        return;
    }
    let ft = from_tables(sel, &names);
    if t.chance(50) || ft.is_empty() {
        sel.items = vec![Item::Star];
        features.push("select_star".into());
    } else {
        let (a, _) = ft[t.pick(ft.len())].clone();
        sel.items.push(Item::QStar(a));
        features.push("select_qualified_star".into());
    }
}

fn add_window(q: &mut Query, t: &mut Tape, features: &mut Vec<String>) {
    let SetExpr::Select(sel) = &mut q.body else { return };
    if sel.distinct || sel.group != Group::None || sel.having.is_some() || sel.items.iter().any(|i| matches!(i, Item::Expr(e, _) if e.contains_agg()) || matches!(i, Item::Star | Item::QStar(_))) {
        return;
    }
    let mut cols: Vec<Expr> = vec![];
    let mut see = |e: &Expr| {
        e.walk(&mut |x| {
            if matches!(x, Expr::Col { rel: Some(_), .. }) && !cols.contains(x) {
                cols.push(x.clone());
            }
        })
    };
    for it in &sel.items {
        if let Item::Expr(e, _) = it {
            see(e);
        }
    }
    if let Some(w) = &sel.where_ {
        see(w);
    }
    if cols.is_empty() {
        return;
    }
    let c1 = cols[t.pick(cols.len())].clone();
    let c2 = cols[t.pick(cols.len())].clone();
    let call = match t.pick(3) {
        0 => WindowCall { f: WinF::Rank, args: vec![], partition: if t.chance(50) { vec![c2] } else { vec![] }, order: vec![OrderKey { e: c1, desc: t.chance(40), nulls_first: None }], frame: None },
        1 => WindowCall { f: WinF::Count, args: vec![], partition: vec![c1], order: vec![], frame: None },
        _ => WindowCall { f: WinF::Count, args: vec![c2], partition: vec![c1], order: vec![], frame: None },
    };
    sel.items.push(Item::Expr(Expr::Win(Box::new(call)), Some("wf_out".into())));
    features.push("window".into());
}

fn case_strategy(tier: Tier) -> BoxedStrategy<GatherCase> {
    let max_rows = tier.pick(14, 40);
    (tables4(max_rows), any::<bool>(), cluster_strategy(4), proptest::collection::vec(any::<u16>(), 0..200), proptest::collection::vec(any::<u16>(), 24))
        .prop_map(|(mut tables, quoted_sel, cluster, tape, xtape)| {
            // the catalogue the generator sees: quoted spellings when `quoted`
            let quoted = quoted_sel && tables.len() <= 4;
            let mut cat = Catalog { rels: vec![] };
            for (i, t) in tables.iter_mut().enumerate() {
                if quoted {
                    t.table.name = MIXED_T[i].to_string();
                    for (j, c) in t.table.cols.iter_mut().enumerate() {
                        c.name = MIXED_C[j % 4].to_string();
                    }
                    cat.rels.push((q_ident(&t.table.name), t.table.cols.iter().map(|c| (q_ident(&c.name), c.ty)).collect()));
                } else {
                    cat.rels.push((t.table.name.clone(), t.table.cols.iter().map(|c| (c.name.clone(), c.ty)).collect()));
                }
            }
            let mut profile = Profile::full();
            profile.max_from = 2;
            let mut g = Gen::new(tape, &profile);
            let (mut query, _) = g.query(&cat, 2);
            let mut features: Vec<String> = g.features.iter().map(|s| s.to_string()).collect();
            let mut t = Tape::new(xtape);
            if t.chance(45) {
                add_foreign_subquery(&mut query, &cat, &mut t, &mut features);
            }
            if t.chance(15) {
                add_window(&mut query, &mut t, &mut features);
            }
            if t.chance(12) {
                add_star(&mut query, &mut t, &mut features, &cat);
            }
            if quoted {
                features.push("quoted_identifiers".into());
            }
            GatherCase { tables, quoted, cluster, query, features }
        })
        .boxed()
}

// ---------------------------------------------------------------------------

fn contains_subquery_expr(q: &Query) -> bool {
    let s = q.sql();
    s.contains("EXISTS (") || s.contains("IN (SELECT") || s.contains("(SELECT")
}

/// Known-finding classes of C45.
fn classify(c: &GatherCase, reads: Option<&Reads>, msg: &str) -> Option<&'static str> {
    let not_found = msg.contains("not found") || msg.contains("NotFound");
    // collect_scans does not descend into subquery expressions: a table (or a
    // column) read only inside a subquery expression that the optimizer leaves
    // in place is not gathered
    if let Some(r) = reads {
        let only_in_sub = r.tables.values().any(|(main, sub)| *sub && !*main) || r.cols.values().any(|(o, f, s)| *s && !*o && !*f);
        if only_in_sub && contains_subquery_expr(&c.query) && (msg.contains("[coverage]") || not_found) {
            return Some("gather-misses-subquery-expression-scans");
        }
    }
    // a column the statement names outside any subquery but the optimized plan no longer reads
    // (its predicate / expression was folded to a constant): not gathered, and the re-bound
    // statement fails or answers differently
    if msg.contains("[coverage]") && !msg.contains("is scanned by the bound statement but not gathered") {
        if let Some(r) = reads {
            if !(r.cols.values().any(|(o, f, s)| *s && !*o && !*f)) || !contains_subquery_expr(&c.query) {
                return Some("gather-misses-columns-the-optimizer-eliminated");
            }
        }
    }
    // a CTE the statement never references is absent from the (bound and)
    // optimized plan, but re-binding the statement text binds its body
    if super::c09::unreferenced_cte(&c.query) && not_found {
        return Some("gather-misses-unreferenced-cte-columns");
    }
    None
}

pub struct GatherCarriesColumns;

impl Check for GatherCarriesColumns {
    type Case = GatherCase;
    fn name(&self) -> &'static str {
        "gather_columns"
    }
    fn rule(&self) -> &'static str {
        "single node answered, plan_gather planned, and the bound statement reads some base column only in a filter/join/sort position or only inside a subquery expression"
    }
    fn cases(&self, tier: Tier) -> u32 {
        tier.pick(500, 15_000)
    }
    fn max_shrink_iters(&self) -> u32 {
        600
    }
    fn strategy(&self, tier: Tier) -> BoxedStrategy<GatherCase> {
        case_strategy(tier)
    }
    fn test(&self, c: &GatherCase, obs: &mut Obs) -> Verdict {
        let sql = c.query.sql();
        let cl = match Cluster::build("c45", &c.tables, &c.cluster) {
            Ok(cl) => cl,
            Err(e) => return Verdict::Discard(format!("cluster:{}", crate::sqlcheck::short_err(&e))),
        };
        for f in &c.features {
            obs.label(format!("feat:{}", f));
        }
        obs.label(format!("nodes:{}", c.cluster.normalized().nodes));
        obs.label(format!("tables:{}", c.tables.len()));
        obs.sample(serde_json::json!({"sql": sql, "nodes": c.cluster.nodes}));
        let single = match run_sql(&cl.base, &sql) {
            Ok(r) => r,
            Err(e) => {
                obs.label(format!("single_error:{}", crate::sqlcheck::short_err(&e)));
                return Verdict::Pass;
            }
        };
        let ctx_msg = |what: &str| format!("{}\n sql: {}\n cluster: {:?}\n tables: {}", what, sql, c.cluster.normalized(), crate::sqlcheck::fmt_tables(&c.tables.iter().map(|t| t.table.clone()).collect::<Vec<_>>()));
        let bound = match std::panic::catch_unwind(std::panic::AssertUnwindSafe(|| cl.base.logical_plan(&sql))) {
            Ok(Ok(p)) => p,
            _ => return Verdict::Discard("bound_plan_unavailable".into()),
        };
        let reads = reads_of(&bound, &c.tables);
        let filter_only = reads.cols.values().filter(|(o, f, s)| !*o && (*f || *s)).count();
        let sub_only = reads.cols.values().filter(|(o, f, s)| *s && !*o && !*f).count();
        if sub_only > 0 {
            obs.label("column_read_only_in_subquery");
        } else if filter_only > 0 {
            obs.label("column_read_only_in_filter");
        }
        if reads.tables.values().any(|(m, s)| *s && !*m) {
            obs.label("table_only_in_subquery_expression");
        }
        let plan = match std::panic::catch_unwind(std::panic::AssertUnwindSafe(|| query_engine::distributed::plan_gather(&cl.base, &sql))) {
            Ok(Ok(p)) => p,
            Ok(Err(query_engine::QueryError::NotImplemented(m))) => {
                obs.label(format!("plan_gather_refused:{}", crate::sqlcheck::short_err(&m)));
                return Verdict::Pass;
            }
            Ok(Err(e)) => {
                let msg = ctx_msg(&format!("the single node answers ({} rows) but plan_gather fails: {}", single.len(), e));
                return known_or_fail(c, Some(&reads), msg);
            }
            Err(p) => return Verdict::Fail(ctx_msg(&format!("plan_gather PANICS: {}", panic_text(p)))),
        };
        obs.nontrivial(filter_only > 0);
        // (2) coverage
        let missing = gaps_of(&reads, &plan);
        let gathered = plan.tables.iter().map(|g| format!("{}{:?}", g.name, g.columns)).collect::<Vec<_>>().join(" ");
        // (3) execution
        let tr = cl.transport(vec![]);
        let exec = run_gathered(&cl, &plan, &tr);
        if !missing.is_empty() {
            // A column the text mentions but the optimizer proved irrelevant (a predicate folded
            // to a constant) may be absent without consequence: the property's claim is that the
            // statement binds over the gathered tables and gives the single-node answer. A gap
            // is a violation when that claim fails.
            let harmless = match &exec {
                DistOutcome::Ok(d) => c.query.limit.is_none() && c.query.offset.is_none() && multiset_eq(&single, &batches_to_rows(&d.result.batches), 1e-9),
                _ => false,
            };
            if harmless {
                obs.label("coverage_gap_without_consequence");
                return Verdict::Pass;
            }
            let how = match &exec {
                DistOutcome::Ok(d) => format!("execute_gathered answered {} rows, the single node {}", d.result.row_count, single.len()),
                DistOutcome::Err(e) | DistOutcome::NotImplemented(e) => format!("execute_gathered: {}", e),
                DistOutcome::Panic(p) => format!("execute_gathered PANIC: {}", p),
            };
            let msg = ctx_msg(&format!("[coverage] {}\n gathered: {}\n {}", missing.join("; "), gathered, how));
            return known_or_fail(c, Some(&reads), msg);
        }
        let d = match exec {
            DistOutcome::Ok(d) => d,
            DistOutcome::NotImplemented(m) => {
                obs.label(format!("execute_gathered_refused:{}", crate::sqlcheck::short_err(&m)));
                return Verdict::Pass;
            }
            DistOutcome::Err(e) => {
                let msg = ctx_msg(&format!("the single node answers ({} rows) but execute_gathered fails: {}\n gathered: {}", single.len(), e, gathered));
                // (a signature of a FIXED finding does not exempt the case from this control)
                if classify(c, Some(&reads), &msg).map(|id| !crate::runner::is_open_id(id)).unwrap_or(true) && same_as_local_over_memory(c, &Err(e.clone())) {
                    // nothing was lost by gathering: one node fails the same way over in-memory
                    // copies of the complete tables (the local engine's layout dependence is
                    // C09's / C04's finding, not a missing column)
                    obs.label("local_engine_differs_over_memory_tables:error");
                    return Verdict::Pass;
                }
                return known_or_fail(c, Some(&reads), msg);
            }
            DistOutcome::Panic(p) => return Verdict::Fail(ctx_msg(&format!("execute_gathered PANICS: {}\n gathered: {}", p, gathered))),
        };
        let dist = batches_to_rows(&d.result.batches);
        let tol = 1e-9;
        let cmp: Result<(), String> = if c.query.order_by.is_empty() && c.query.limit.is_none() && c.query.offset.is_none() {
            if multiset_eq(&single, &dist, tol) {
                Ok(())
            } else {
                Err("row multisets differ".into())
            }
        } else {
            match order_keys(&c.query) {
                None => {
                    if c.query.limit.is_none() && c.query.offset.is_none() {
                        if multiset_eq(&single, &dist, tol) {
                            Ok(())
                        } else {
                            Err("row multisets differ".into())
                        }
                    } else {
                        return Verdict::Discard("limit_with_unresolved_order".into());
                    }
                }
                Some(keys) => {
                    let full = if c.query.limit.is_none() && c.query.offset.is_none() {
                        single.clone()
                    } else {
                        let mut q2 = c.query.clone();
                        q2.limit = None;
                        q2.offset = None;
                        match run_sql(&cl.base, &q2.sql()) {
                            Ok(r) => r,
                            Err(e) => return Verdict::Discard(format!("single_unlimited:{}", crate::sqlcheck::short_err(&e))),
                        }
                    };
                    let reference = ordered_reference(&full, &keys, c.query.limit, c.query.offset);
                    if refsql::compare_answer(&reference, &single, tol).is_err() {
                        return Verdict::Discard("single_inconsistent".into());
                    }
                    refsql::compare_answer(&reference, &dist, tol)
                }
            }
        };
        let _ = first_select(&c.query.body);
        match cmp {
            Ok(()) => Verdict::Pass,
            Err(why) => {
                // the gathered tables are complete (checked above): a different answer is the
                // local engine disagreeing with itself over Parquet vs in-memory inputs — C09/C04's
                // subject, not a missing column. Classified through the shared SQL signatures.
                let plain: Vec<Table> = c.tables.iter().map(|t| t.table.clone()).collect();
                // refsql resolves plain names: for the quoted variant evaluate the twin statement
                // with the quotes removed (same tables, same names)
                let ref_query: Query = if c.quoted {
                    serde_json::to_string(&c.query).ok().and_then(|j| serde_json::from_str(&j.replace("\\\"", "")).ok()).unwrap_or_else(|| c.query.clone())
                } else {
                    c.query.clone()
                };
                let (events, opinion) = {
                    let db = refsql::Db::new(&plain);
                    match db.run(&ref_query) {
                        Ok(r) => {
                            let usable = !(r.sorted_full.is_none() && (r.limit.is_some() || r.offset.is_some()));
                            let s_ok = usable && refsql::compare_answer(&r, &single, 1e-9).is_ok();
                            let d_ok = usable && refsql::compare_answer(&r, &dist, 1e-9).is_ok();
                            (db.events.borrow().clone(), format!("refsql agrees with single:{} gathered:{}", s_ok, d_ok))
                        }
                        Err(e) => (db.events.borrow().clone(), format!("refsql: {}", e)),
                    }
                };
                let msg = ctx_msg(&format!(
                    "gathered tables are complete, yet execute_gathered's answer differs from ctx.sql's: {}\n gathered: {}\n single ({} rows):\n{} gathered run ({} rows):\n{} {}",
                    why,
                    gathered,
                    single.len(),
                    fmt_rows(&single, 30),
                    dist.len(),
                    fmt_rows(&dist, 30),
                    opinion
                ));
                if same_as_local_over_memory(c, &Ok(dist.clone())) {
                    obs.label("local_engine_differs_over_memory_tables:answer");
                    return Verdict::Pass;
                }
                let sc = SqlCase { tables: plain, query: ref_query.clone(), cuts: vec![], features: c.features.clone() };
                match crate::kf_sql::classify_sql(&sc, &events, &msg) {
                    Some(id) => Verdict::Known { id: id.to_string(), msg },
                    None => Verdict::Fail(msg),
                }
            }
        }
    }
}

/// The outcome of `execute_gathered` is exactly what ONE node returns for the statement over
/// in-memory copies of the complete tables: gathering lost nothing; the local engine answers
/// differently over Parquet files and over in-memory tables (C04's subject).
fn same_as_local_over_memory(c: &GatherCase, dist: &Result<Rows, String>) -> bool {
    let plain: Vec<Table> = c.tables.iter().map(|t| t.table.clone()).collect();
    let ctx = crate::engine::mem_ctx(&plain);
    let mem = run_sql(&ctx, &c.query.sql());
    match (dist, &mem) {
        (Ok(d), Ok(m)) => multiset_eq(d, m, 1e-9),
        (Err(d), Err(m)) => crate::sqlcheck::short_err(d) == crate::sqlcheck::short_err(m) || d.contains(m.as_str()),
        _ => false,
    }
}

fn known_or_fail(c: &GatherCase, reads: Option<&Reads>, msg: String) -> Verdict {
    match classify(c, reads, &msg) {
        Some(id) => Verdict::Known { id: id.to_string(), msg },
        None => Verdict::Fail(msg),
    }
}

pub fn property() -> Property {
    Property {
        id: "C45",
        level: "exploration",
        assumptions: &[
            "the walker resolves a column reference to a base table through the relation alias recorded on the bound Scan nodes (generated aliases are unique per statement); unresolvable or ambiguous references are skipped, never guessed",
            "execute_gathered runs over the in-process transport (same or byte-identical Parquet files on every participant)",
            "a statement the single node cannot answer is outside the property",
        ],
        checks: vec![Box::new(GatherCarriesColumns)],
    }
}
