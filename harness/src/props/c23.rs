//! C23 — Subqueries follow SQL semantics, decorrelated or not.
//!
//! Generator (own, focused; choice tape): 2–3 small tables (BIGINT-heavy, some
//! VARCHAR/DATE; value domain 0..4 so correlation values repeat; NULL density
//! 0/25/45 % per column; 0–6 rows so empty subquery results are common). One
//! outer block `SELECT … FROM T t1 [join T2] WHERE <P>` where P places one or
//! two subquery predicates at the top level, under AND / OR / NOT, and/or a
//! scalar subquery sits in the SELECT list. Subquery kinds: [NOT] EXISTS,
//! x [NOT] IN (SELECT col …), x cmp (SELECT COUNT/MIN/MAX/SUM …) on either side.
//! Correlation: 0–2 predicates `inner op outer` (mostly `=`, sometimes
//! `< <= <> >`, either orientation), the correlated inner column projected or
//! not, local inner predicates, correlation under OR, the inner table equal to
//! the outer one (self reference) or not, an inner join or derived table now
//! and then, and a second nesting level correlated to either enclosing block.
//!
//! Oracles:
//!  1. `refsql` (three-valued IN / NOT IN / EXISTS, aggregates over empty input);
//!  2. differential: `ctx.sql` (production optimizer) vs the same statement
//!     optimized with the production rule list minus SubqueryDecorrelation and
//!     FlattenDependentJoin and executed by the harness-owned physical planner
//!     (row-by-row `SubqueryExecutor`). Any pairwise disagreement is a failure.
//! An engine error (on either path) is an allowed outcome.
use super::Property;
use crate::data::*;
use crate::engine::{run_sql, run_with_rules};
use crate::refsql::Db;
use crate::runner::*;
use crate::sqlast::*;
use crate::sqlcheck::{fmt_tables, mem_context, short_err};
use crate::sqlgen::*;
use proptest::prelude::*;
use query_engine::optimizer as qo;
use std::sync::Arc;

#[path = "c24_util.rs"]
mod util;
use util::*;

// ---------------------------------------------------------------------------
// generator
// ---------------------------------------------------------------------------

#[derive(Clone, Debug)]
struct SCol {
    rel: String,
    name: String,
    ty: ColType,
}
fn cx(c: &SCol) -> Expr {
    Expr::qcol(&c.rel, &c.name)
}

struct G<'a> {
    t: Tape,
    tables: &'a [Table],
    feats: Vec<&'static str>,
    seq: usize,
}

impl<'a> G<'a> {
    fn feat(&mut self, f: &'static str) {
        if !self.feats.contains(&f) {
            self.feats.push(f);
        }
    }
    fn fresh(&mut self, p: &str) -> String {
        self.seq += 1;
        format!("{}{}", p, self.seq)
    }
    fn lit(&mut self, ty: ColType) -> Expr {
        Expr::Lit(match ty {
            ColType::Int | ColType::Int32 => Value::Int(self.t.pick(5) as i64),
            ColType::Double => Value::Double((self.t.pick(9) as i64 - 4) as f64 * 0.25 + 0.0),
            ColType::Str => Value::Str(["a", "", "ab", "b"][self.t.pick(4)].to_string()),
            ColType::Date => Value::Date(10957 + self.t.pick(4) as i32 * 15),
            ColType::Bool => Value::Bool(self.t.pick(2) == 1),
        })
    }
    fn rel(&mut self, prefix: &str, prefer: Option<&str>, same_pct: u32) -> (From, Vec<SCol>, String) {
        let ti = match prefer {
            Some(n) if self.t.chance(same_pct) => self.tables.iter().position(|t| t.name == n).unwrap_or(0),
            _ => self.t.pick(self.tables.len()),
        };
        let tb = &self.tables[ti];
        let alias = self.fresh(prefix);
        let cols = tb.cols.iter().map(|c| SCol { rel: alias.clone(), name: c.name.clone(), ty: c.ty }).collect();
        (From::Table { name: tb.name.clone(), alias: Some(alias) }, cols, tb.name.clone())
    }
    fn pairs(l: &[SCol], r: &[SCol]) -> Vec<(SCol, SCol)> {
        let mut v = vec![];
        for a in l {
            for b in r {
                if a.ty == b.ty && a.ty != ColType::Double && a.ty != ColType::Bool {
                    v.push((a.clone(), b.clone()));
                }
            }
        }
        v
    }
    fn simple_pred(&mut self, scope: &[SCol]) -> Expr {
        let c = scope[self.t.pick(scope.len())].clone();
        match self.t.pick(6) {
            0 => Expr::IsNull { e: Box::new(cx(&c)), neg: true },
            1 => Expr::IsNull { e: Box::new(cx(&c)), neg: false },
            2 => Expr::bin(cx(&c), BinOp::Le, self.lit(c.ty)),
            3 => Expr::bin(cx(&c), BinOp::Ne, self.lit(c.ty)),
            4 => Expr::bin(cx(&c), BinOp::Gt, self.lit(c.ty)),
            _ => Expr::eq(cx(&c), self.lit(c.ty)),
        }
    }

    /// FROM + WHERE of a subquery. Returns (from, where, inner scope).
    fn sub_body(&mut self, outer: &[SCol], outer_table: &str, depth: u32) -> (Vec<From>, Option<Expr>, Vec<SCol>) {
        let (f0, mut inner, _) = self.rel("x", Some(outer_table), 35);
        if let From::Table { name, .. } = &f0 {
            if name == outer_table {
                self.feat("inner_table_is_outer_table");
            }
        }
        let mut from = f0;
        match self.t.pick(14) {
            12 => {
                // inner join of two relations
                let (f1, c1, _) = self.rel("x", None, 0);
                let p = Self::pairs(&inner, &c1);
                if !p.is_empty() {
                    self.feat("inner_join");
                    let (a, b) = p[self.t.pick(p.len())].clone();
                    from = From::Join { l: Box::new(from), r: Box::new(f1), kind: JoinKind::Inner, on: Some(Expr::eq(cx(&a), cx(&b))) };
                    inner.extend(c1);
                }
            }
            13 => {
                // derived table: same columns under a new alias
                self.feat("inner_derived_table");
                let d = self.fresh("d");
                let items = inner.iter().map(|c| Item::Expr(cx(c), Some(c.name.clone()))).collect();
                let w = if self.t.chance(50) { Some(self.simple_pred(&inner)) } else { None };
                let q = Query::select(Select::simple(items, vec![from], w));
                from = From::Derived { q: Box::new(q), alias: d.clone(), cols: None };
                for c in inner.iter_mut() {
                    c.rel = d.clone();
                }
            }
            _ => {}
        }
        let mut conds: Vec<Expr> = vec![];
        let ncorr = match self.t.pick(8) {
            0 | 1 => 0,
            2..=5 => 1,
            _ => 2,
        };
        let ps = Self::pairs(&inner, outer);
        let mut corr: Vec<Expr> = vec![];
        if !ps.is_empty() {
            for _ in 0..ncorr {
                let (i, o) = ps[self.t.pick(ps.len())].clone();
                let op = if self.t.chance(75) { BinOp::Eq } else { [BinOp::Lt, BinOp::Le, BinOp::Ne, BinOp::Gt][self.t.pick(4)] };
                self.feat(if op == BinOp::Eq { "corr_eq" } else { "corr_noneq" });
                let e = if self.t.chance(50) { Expr::bin(cx(&i), op, cx(&o)) } else { Expr::bin(cx(&o), op, cx(&i)) };
                corr.push(e);
            }
        }
        if !corr.is_empty() {
            self.feat("correlated");
        } else {
            self.feat("uncorrelated");
        }
        let local = if self.t.chance(40) { Some(self.simple_pred(&inner)) } else { None };
        if !corr.is_empty() && local.is_some() && self.t.chance(12) {
            // correlation under OR
            self.feat("corr_under_or");
            let c0 = corr.remove(0);
            conds.push(Expr::bin(c0, BinOp::Or, local.unwrap()));
            conds.extend(corr);
        } else {
            conds.extend(corr);
            conds.extend(local);
        }
        if depth < 2 && self.t.chance(14) {
            self.feat("nested_depth2");
            let mut sc: Vec<SCol> = inner.clone();
            // the nested subquery may correlate to this block or skip a level
            if self.t.chance(40) {
                sc.extend(outer.iter().cloned());
                self.feat("nested_sees_outermost");
            }
            let tname = outer_table.to_string();
            let p = self.sub_pred(&sc, &tname, depth + 1);
            conds.push(p);
        }
        (vec![from], conds.into_iter().reduce(Expr::and), inner)
    }

    /// A boolean subquery predicate over `outer`.
    fn sub_pred(&mut self, outer: &[SCol], outer_table: &str, depth: u32) -> Expr {
        let (from, where_, inner) = self.sub_body(outer, outer_table, depth);
        match self.t.pick(9) {
            0 | 1 | 2 => {
                let neg = self.t.chance(45);
                self.feat(if neg { "not_exists" } else { "exists" });
                let item = match self.t.pick(3) {
                    0 => Item::Expr(Expr::int(1), None),
                    1 => Item::Star,
                    _ => Item::Expr(cx(&inner[self.t.pick(inner.len())]), None),
                };
                Expr::Exists { q: Box::new(Query::select(Select::simple(vec![item], from, where_))), neg }
            }
            3 | 4 | 5 => {
                let ps = Self::pairs(outer, &inner);
                if ps.is_empty() {
                    self.feat("exists");
                    return Expr::Exists { q: Box::new(Query::select(Select::simple(vec![Item::Expr(Expr::int(1), None)], from, where_))), neg: false };
                }
                let (o, i) = ps[self.t.pick(ps.len())].clone();
                let neg = self.t.chance(45);
                self.feat(if neg { "not_in_subquery" } else { "in_subquery" });
                let lhs = match self.t.pick(12) {
                    0 => {
                        self.feat("in_lhs_literal");
                        self.lit(o.ty)
                    }
                    _ => cx(&o),
                };
                let distinct = self.t.chance(10);
                let mut sel = Select::simple(vec![Item::Expr(cx(&i), None)], from, where_);
                sel.distinct = distinct;
                Expr::InSub { e: Box::new(lhs), q: Box::new(Query::select(sel)), neg }
            }
            _ => {
                let (agg, ty) = self.scalar_agg(&inner);
                let q = Query::select(Select::simple(vec![Item::Expr(agg, None)], from, where_));
                let cands: Vec<SCol> = outer.iter().filter(|c| c.ty == ty).cloned().collect();
                let other = if !cands.is_empty() && self.t.chance(60) { cx(&cands[self.t.pick(cands.len())]) } else { self.lit(ty) };
                let op = [BinOp::Eq, BinOp::Lt, BinOp::Ge, BinOp::Ne, BinOp::Le, BinOp::Gt][self.t.pick(6)];
                if self.t.chance(50) {
                    Expr::bin(other, op, Expr::Scalar(Box::new(q)))
                } else {
                    self.feat("scalar_on_left");
                    Expr::bin(Expr::Scalar(Box::new(q)), op, other)
                }
            }
        }
    }

    fn scalar_agg(&mut self, inner: &[SCol]) -> (Expr, ColType) {
        let c = inner[self.t.pick(inner.len())].clone();
        match self.t.pick(7) {
            0 | 1 => {
                self.feat("scalar_count_star");
                (Expr::count_star(), ColType::Int)
            }
            2 => {
                self.feat("scalar_count_col");
                (Expr::agg(AggF::Count, cx(&c)), ColType::Int)
            }
            3 => {
                self.feat("scalar_min");
                (Expr::agg(AggF::Min, cx(&c)), c.ty)
            }
            4 => {
                self.feat("scalar_max");
                (Expr::agg(AggF::Max, cx(&c)), c.ty)
            }
            _ => {
                let ints: Vec<SCol> = inner.iter().filter(|c| c.ty == ColType::Int).cloned().collect();
                if ints.is_empty() {
                    self.feat("scalar_count_star");
                    (Expr::count_star(), ColType::Int)
                } else {
                    self.feat("scalar_sum");
                    (Expr::agg(AggF::Sum, cx(&ints[self.t.pick(ints.len())])), ColType::Int)
                }
            }
        }
    }
}

fn build(tables: Vec<Table>, tape: Vec<u16>, cuts: Vec<Vec<usize>>) -> SqlCase {
    let mut g = G { t: Tape::new(tape), tables: &tables, feats: vec![], seq: 0 };
    let (f1, mut scope, tname) = g.rel("t", None, 0);
    let mut from = vec![f1];
    let mut conds: Vec<Expr> = vec![];
    match g.t.pick(10) {
        8 => {
            let (f2, c2, _) = g.rel("t", None, 0);
            g.feat("outer_join_comma");
            let p = G::pairs(&scope, &c2);
            if !p.is_empty() {
                let (a, b) = p[g.t.pick(p.len())].clone();
                conds.push(Expr::eq(cx(&a), cx(&b)));
            }
            from.push(f2);
            scope.extend(c2);
        }
        9 => {
            let (f2, c2, _) = g.rel("t", None, 0);
            let p = G::pairs(&scope, &c2);
            if !p.is_empty() {
                g.feat("outer_join_left");
                let (a, b) = p[g.t.pick(p.len())].clone();
                let l = from.pop().unwrap();
                from.push(From::Join { l: Box::new(l), r: Box::new(f2), kind: JoinKind::Left, on: Some(Expr::eq(cx(&a), cx(&b))) });
                scope.extend(c2);
            }
        }
        _ => {}
    }
    let select_list_sub = g.t.chance(16);
    let where_sub = !select_list_sub || g.t.chance(40);
    if where_sub {
        let p = g.sub_pred(&scope, &tname, 1);
        let placed = match g.t.pick(20) {
            0..=10 => {
                g.feat("place_top");
                p
            }
            11..=13 => {
                g.feat("place_and_local");
                Expr::and(p, g.simple_pred(&scope))
            }
            14 | 15 => {
                g.feat("place_or_local");
                Expr::bin(p, BinOp::Or, g.simple_pred(&scope))
            }
            16 => {
                g.feat("place_not");
                Expr::Not(Box::new(p))
            }
            _ => {
                g.feat("place_two_subqueries");
                let p2 = g.sub_pred(&scope, &tname, 1);
                Expr::and(p, p2)
            }
        };
        conds.push(placed);
    }
    let mut items = vec![];
    let n = 1 + g.t.pick(2);
    for _ in 0..n {
        let c = scope[g.t.pick(scope.len())].clone();
        let a = g.fresh("c");
        items.push(Item::Expr(cx(&c), Some(a)));
    }
    if select_list_sub {
        g.feat("scalar_in_select_list");
        let (sfrom, swhere, inner) = g.sub_body(&scope, &tname, 1);
        let (agg, _) = g.scalar_agg(&inner);
        let q = Query::select(Select::simple(vec![Item::Expr(agg, None)], sfrom, swhere));
        let a = g.fresh("c");
        items.push(Item::Expr(Expr::Scalar(Box::new(q)), Some(a)));
    }
    let mut sel = Select::simple(items, from, conds.into_iter().reduce(Expr::and));
    if g.t.chance(5) {
        g.feat("distinct");
        sel.distinct = true;
    }
    let features = g.feats.iter().map(|s| s.to_string()).collect();
    SqlCase { cuts: cuts.into_iter().take(tables.len()).collect(), tables, query: Query::select(sel), features }
}

pub fn strategy(tier: Tier) -> BoxedStrategy<SqlCase> {
    let mut tp = TableProfile::default();
    tp.min_tables = 2;
    tp.max_rows = tier.pick(6, 16);
    tp.max_cols = 3;
    tp.types = vec![ColType::Int, ColType::Int, ColType::Int, ColType::Int, ColType::Str, ColType::Date];
    tp.null_pcts = vec![0, 0, 25, 45];
    let max_rows = tp.max_rows;
    (
        tables_strategy(tp),
        proptest::collection::vec(any::<u16>(), 0..160),
        proptest::collection::vec(proptest::collection::vec(0..=max_rows, 0..3), 3),
    )
        .prop_map(|(tables, tape, cuts)| build(tables, tape, cuts))
        .boxed()
}

// ---------------------------------------------------------------------------
// analysis of the subqueries of a statement
// ---------------------------------------------------------------------------

#[derive(Clone, Debug, Default)]
pub struct SubInfo {
    /// exists | not_exists | in | not_in | scalar
    pub kind: &'static str,
    pub agg: Option<AggF>,
    pub count_star: bool,
    pub in_select_list: bool,
    /// directly a conjunct of the outer WHERE (not under OR / NOT)
    pub top_conjunct: bool,
    pub level: u32,
    pub corr_eq: usize,
    pub corr_noneq: usize,
    /// correlated in some other way (under OR, inside a nested block, in an expression)
    pub corr_other: bool,
    /// every inner column used in an equality correlation is also in the select list
    pub corr_cols_projected: bool,
    pub inner_relations: usize,
    pub inner_derived: bool,
    pub inner_self: bool,
    pub has_nested: bool,
    pub distinct: bool,
    /// the aggregate's argument column is DATE or VARCHAR in some table
    pub agg_arg_non_numeric: bool,
    /// level >= 2 only: the subquery mentions a column of the OUTERMOST block
    pub refs_outermost: bool,
    pub outer_relations: usize,
    // data facts (first-level subqueries only; None deeper)
    pub some_outer_row_empty: bool,
    pub some_outer_row_nonempty: bool,
    pub result_has_null: bool,
    pub lhs_null: bool,
}

impl SubInfo {
    pub fn correlated(&self) -> bool {
        self.corr_eq + self.corr_noneq > 0 || self.corr_other
    }
    pub fn shape(&self) -> String {
        format!(
            "{}{}|eq{}|ne{}{}|{}|{}{}{}{}|outer{}",
            self.kind,
            match (self.agg, self.count_star) {
                (_, true) => ":count*".to_string(),
                (Some(a), _) => format!(":{}", a.sql().to_lowercase()),
                _ => String::new(),
            },
            self.corr_eq,
            self.corr_noneq,
            if self.corr_other { "+other" } else { "" },
            if self.corr_cols_projected { "proj" } else { "noproj" },
            if self.in_select_list { "select" } else if self.top_conjunct { "where-top" } else { "where-nested-bool" },
            if self.inner_derived { "|derived" } else { "" },
            if self.inner_relations > 1 { "|innerjoin" } else { "" },
            if self.has_nested { "|nested" } else { "" },
            self.outer_relations
        )
    }
}

fn from_aliases(f: &From, out: &mut Vec<(String, Option<String>)>) {
    match f {
        From::Table { name, alias } => out.push((alias.clone().unwrap_or_else(|| name.clone()), Some(name.clone()))),
        From::Derived { alias, .. } => out.push((alias.clone(), None)),
        From::Join { l, r, .. } => {
            from_aliases(l, out);
            from_aliases(r, out);
        }
    }
}

fn conjuncts<'a>(e: &'a Expr, out: &mut Vec<&'a Expr>) {
    match e {
        Expr::Bin(a, BinOp::And, b) => {
            conjuncts(a, out);
            conjuncts(b, out);
        }
        o => out.push(o),
    }
}

/// relations (aliases) an expression mentions, not descending into subqueries
fn rels_of(e: &Expr) -> Vec<String> {
    let mut v = vec![];
    e.walk(&mut |x| {
        if let Expr::Col { rel: Some(r), .. } = x {
            if !v.contains(r) {
                v.push(r.clone());
            }
        }
    });
    v
}

fn sole_select(q: &Query) -> Option<&Select> {
    match &q.body {
        SetExpr::Select(s) => Some(s),
        _ => None,
    }
}

/// Does any expression inside `q` (at any depth) mention an alias not defined inside `q`?
fn mentions_outside(q: &Query, defined: &mut Vec<String>) -> bool {
    let Some(s) = sole_select(q) else { return false };
    let mut al = vec![];
    for f in &s.from {
        from_aliases(f, &mut al);
    }
    let mark = defined.len();
    defined.extend(al.into_iter().map(|(a, _)| a));
    let mut hit = false;
    let mut exprs: Vec<&Expr> = vec![];
    for it in &s.items {
        if let Item::Expr(e, _) = it {
            exprs.push(e);
        }
    }
    exprs.extend(s.where_.iter());
    for e in exprs {
        e.walk(&mut |x| match x {
            Expr::Col { rel: Some(r), .. } => {
                if !defined.contains(r) {
                    hit = true;
                }
            }
            _ => {}
        });
        let mut subs = vec![];
        e.walk(&mut |x| match x {
            Expr::Exists { q, .. } | Expr::Scalar(q) | Expr::InSub { q, .. } => subs.push(q.as_ref()),
            _ => {}
        });
        for sq in subs {
            if mentions_outside(sq, defined) {
                hit = true;
            }
        }
    }
    defined.truncate(mark);
    hit
}

thread_local! {
    /// names of the DATE / VARCHAR columns of the case being analysed
    static NON_NUMERIC_COLS: std::cell::RefCell<Vec<String>> = const { std::cell::RefCell::new(Vec::new()) };
}

fn describe(kind: &'static str, q: &Query, level: u32, in_select_list: bool, top: bool, outer_relations: usize, outer_tables: &[String]) -> SubInfo {
    let mut info = SubInfo { kind, level, in_select_list, top_conjunct: top, outer_relations, corr_cols_projected: true, ..Default::default() };
    let Some(s) = sole_select(q) else { return info };
    let mut al = vec![];
    for f in &s.from {
        from_aliases(f, &mut al);
    }
    info.inner_relations = al.len();
    info.inner_derived = al.iter().any(|(_, t)| t.is_none());
    info.inner_self = al.iter().any(|(_, t)| t.as_ref().map(|n| outer_tables.contains(n)).unwrap_or(false));
    let inner: Vec<String> = al.iter().map(|(a, _)| a.clone()).collect();
    info.distinct = s.distinct;
    if let Some(Item::Expr(Expr::Agg { f, arg, .. }, _)) = s.items.first() {
        info.agg = Some(*f);
        info.count_star = arg.is_none();
        if let Some(a) = arg {
            if let Expr::Col { name, .. } = &**a {
                info.agg_arg_non_numeric = NON_NUMERIC_COLS.with(|c| c.borrow().contains(name));
            }
        }
    }
    let projected: Vec<String> = s
        .items
        .iter()
        .filter_map(|i| match i {
            Item::Expr(Expr::Col { name, .. }, _) => Some(name.clone()),
            _ => None,
        })
        .collect();
    let star = s.items.iter().any(|i| matches!(i, Item::Star));
    let mut cj = vec![];
    if let Some(w) = &s.where_ {
        conjuncts(w, &mut cj);
    }
    for c in cj {
        let is_inner = |e: &Expr| {
            let r = rels_of(e);
            !r.is_empty() && r.iter().all(|x| inner.contains(x))
        };
        let is_outer = |e: &Expr| {
            let r = rels_of(e);
            !r.is_empty() && r.iter().all(|x| !inner.contains(x))
        };
        match c {
            Expr::Bin(a, op, b) if op.is_cmp() && !a.contains_subquery() && !b.contains_subquery() && ((is_inner(a) && is_outer(b)) || (is_outer(a) && is_inner(b))) => {
                if *op == BinOp::Eq {
                    info.corr_eq += 1;
                    let ie = if is_inner(a) { a } else { b };
                    if let Expr::Col { name, .. } = &**ie {
                        if !star && !projected.contains(name) {
                            info.corr_cols_projected = false;
                        }
                    }
                } else {
                    info.corr_noneq += 1;
                }
            }
            other => {
                if other.contains_subquery() {
                    info.has_nested = true;
                }
                // any other mention of an outside alias
                let r = rels_of(other);
                if r.iter().any(|x| !inner.contains(x)) {
                    info.corr_other = true;
                }
                let mut subs = vec![];
                other.walk(&mut |x| match x {
                    Expr::Exists { q, .. } | Expr::Scalar(q) | Expr::InSub { q, .. } => subs.push(q.as_ref()),
                    _ => {}
                });
                for sq in subs {
                    let mut d = inner.clone();
                    if mentions_outside(sq, &mut d) {
                        info.corr_other = true;
                    }
                }
            }
        }
    }
    info
}

/// All subqueries of the outermost block (level 1) and their nested ones (level 2).
pub fn subqueries(c: &SqlCase) -> Vec<(SubInfo, Expr)> {
    NON_NUMERIC_COLS.with(|v| {
        *v.borrow_mut() = c.tables.iter().flat_map(|t| t.cols.iter().filter(|col| matches!(col.ty, ColType::Date | ColType::Str)).map(|col| col.name.clone())).collect()
    });
    let mut out = vec![];
    let Some(s) = sole_select(&c.query) else { return out };
    let mut al = vec![];
    for f in &s.from {
        from_aliases(f, &mut al);
    }
    let outer_tables: Vec<String> = al.iter().filter_map(|(_, t)| t.clone()).collect();
    let n_outer = al.len();
    let outermost: Vec<String> = al.iter().map(|(a, _)| a.clone()).collect();
    fn visit(e: &Expr, level: u32, in_select: bool, top: bool, n_outer: usize, outer_tables: &[String], outermost: &[String], out: &mut Vec<(SubInfo, Expr)>) {
        let mut found: Vec<(&'static str, &Query, &Expr)> = vec![];
        e.walk(&mut |x| match x {
            Expr::Exists { q, neg } => found.push((if *neg { "not_exists" } else { "exists" }, q, x)),
            Expr::InSub { q, neg, .. } => found.push((if *neg { "not_in" } else { "in" }, q, x)),
            Expr::Scalar(q) => found.push(("scalar", q, x)),
            _ => {}
        });
        for (kind, q, x) in found {
            let is_top = top
                && match e {
                    // the conjunct IS the subquery predicate, or a comparison with the scalar subquery
                    Expr::Exists { .. } | Expr::InSub { .. } => true,
                    Expr::Bin(a, op, b) if op.is_cmp() => matches!(**a, Expr::Scalar(_)) || matches!(**b, Expr::Scalar(_)),
                    _ => false,
                };
            let mut info = describe(kind, q, level, in_select, is_top, n_outer, outer_tables);
            if level >= 2 {
                let mut hit = false;
                crate::kf_sql::walk_query_exprs(q, &mut |y| {
                    if let Expr::Col { rel: Some(r), .. } = y {
                        if outermost.contains(r) {
                            hit = true;
                        }
                    }
                });
                info.refs_outermost = hit;
            }
            out.push((info, x.clone()));
            if let Some(s) = sole_select(q) {
                if let Some(w) = &s.where_ {
                    let mut cj = vec![];
                    conjuncts(w, &mut cj);
                    for c in cj {
                        if c.contains_subquery() {
                            visit(c, level + 1, false, true, 1, outer_tables, outermost, out);
                        }
                    }
                }
            }
        }
    }
    if let Some(w) = &s.where_ {
        let mut cj = vec![];
        conjuncts(w, &mut cj);
        for cjn in cj {
            if cjn.contains_subquery() {
                visit(cjn, 1, false, true, n_outer, &outer_tables, &outermost, &mut out);
            }
        }
    }
    for it in &s.items {
        if let Item::Expr(e, _) = it {
            if e.contains_subquery() {
                visit(e, 1, true, false, n_outer, &outer_tables, &outermost, &mut out);
            }
        }
    }
    out
}

fn subst_expr(e: &Expr, env: &[(String, String, Value)]) -> Expr {
    let b = |x: &Expr| Box::new(subst_expr(x, env));
    let v = |xs: &[Expr]| xs.iter().map(|x| subst_expr(x, env)).collect::<Vec<_>>();
    match e {
        Expr::Col { rel: Some(r), name } => match env.iter().find(|(a, n, _)| a == r && n == name) {
            Some((_, _, val)) => Expr::Lit(val.clone()),
            None => e.clone(),
        },
        Expr::Col { .. } | Expr::Lit(_) => e.clone(),
        Expr::Bin(a, op, c) => Expr::Bin(b(a), *op, b(c)),
        Expr::Not(a) => Expr::Not(b(a)),
        Expr::Neg(a) => Expr::Neg(b(a)),
        Expr::IsNull { e, neg } => Expr::IsNull { e: b(e), neg: *neg },
        Expr::InList { e, list, neg } => Expr::InList { e: b(e), list: v(list), neg: *neg },
        Expr::Between { e, lo, hi, neg } => Expr::Between { e: b(e), lo: b(lo), hi: b(hi), neg: *neg },
        Expr::Agg { f, arg, distinct } => Expr::Agg { f: *f, arg: arg.as_ref().map(|a| b(a)), distinct: *distinct },
        Expr::Exists { q, neg } => Expr::Exists { q: Box::new(subst_query(q, env)), neg: *neg },
        Expr::InSub { e, q, neg } => Expr::InSub { e: b(e), q: Box::new(subst_query(q, env)), neg: *neg },
        Expr::Scalar(q) => Expr::Scalar(Box::new(subst_query(q, env))),
        other => other.clone(),
    }
}
fn subst_from(f: &From, env: &[(String, String, Value)]) -> From {
    match f {
        From::Join { l, r, kind, on } => From::Join { l: Box::new(subst_from(l, env)), r: Box::new(subst_from(r, env)), kind: *kind, on: on.as_ref().map(|e| subst_expr(e, env)) },
        From::Derived { q, alias, cols } => From::Derived { q: Box::new(subst_query(q, env)), alias: alias.clone(), cols: cols.clone() },
        o => o.clone(),
    }
}
fn subst_query(q: &Query, env: &[(String, String, Value)]) -> Query {
    let mut q2 = q.clone();
    if let SetExpr::Select(s) = &q.body {
        let mut s2 = (**s).clone();
        s2.items = s.items.iter().map(|i| match i {
            Item::Expr(e, a) => Item::Expr(subst_expr(e, env), a.clone()),
            o => o.clone(),
        }).collect();
        s2.from = s.from.iter().map(|f| subst_from(f, env)).collect();
        s2.where_ = s.where_.as_ref().map(|e| subst_expr(e, env));
        q2.body = SetExpr::Select(Box::new(s2));
    }
    q2
}

/// Fill the data facts of the first-level subqueries by evaluating each of
/// them (through the reference) once per outer row, the outer columns replaced
/// by that row's values.
pub fn analyse(c: &SqlCase) -> Vec<SubInfo> {
    let mut subs = subqueries(c);
    let Some(s) = sole_select(&c.query) else { return subs.into_iter().map(|x| x.0).collect() };
    let mut al = vec![];
    for f in &s.from {
        from_aliases(f, &mut al);
    }
    // outer rows: every column of every outer relation
    let mut items = vec![];
    let mut names: Vec<(String, String)> = vec![];
    for (a, t) in &al {
        if let Some(t) = t {
            if let Some(tb) = c.tables.iter().find(|x| x.name == *t) {
                for col in &tb.cols {
                    items.push(Item::Expr(Expr::qcol(a, &col.name), Some(format!("o{}", names.len()))));
                    names.push((a.clone(), col.name.clone()));
                }
            }
        }
    }
    let outer_q = Query::select(Select::simple(items, s.from.clone(), None));
    let outer_rows = match Db::new(&c.tables).run(&outer_q) {
        Ok(a) => a.rows,
        Err(_) => return subs.into_iter().map(|x| x.0).collect(),
    };
    let mut distinct_rows: Rows = vec![];
    for r in outer_rows {
        if !distinct_rows.contains(&r) {
            distinct_rows.push(r);
        }
    }
    for (info, e) in subs.iter_mut() {
        if info.level != 1 {
            continue;
        }
        for row in distinct_rows.iter().take(40) {
            let env: Vec<(String, String, Value)> = names.iter().zip(row).map(|((a, n), v)| (a.clone(), n.clone(), v.clone())).collect();
            let (q, lhs) = match e {
                Expr::Exists { q, .. } => (q, None),
                Expr::InSub { q, e, .. } => (q, Some(e)),
                Expr::Scalar(q) => (q, None),
                _ => continue,
            };
            let mut q1 = subst_query(q, &env);
            if let Some(l) = lhs {
                let lq = Query::select(Select::simple(vec![Item::Expr(subst_expr(l, &env), None)], vec![], None));
                if let Ok(a) = Db::new(&c.tables).run(&lq) {
                    if a.rows.first().and_then(|r| r.first()).map(|v| v.is_null()).unwrap_or(false) {
                        info.lhs_null = true;
                    }
                }
            }
            if info.kind == "scalar" {
                if let Ok(a) = Db::new(&c.tables).run(&q1) {
                    if a.rows.first().and_then(|r| r.first()).map(|v| v.is_null()).unwrap_or(false) {
                        info.result_has_null = true;
                    }
                }
                // emptiness of the aggregate's input
                if let SetExpr::Select(s1) = &mut q1.body {
                    s1.items = vec![Item::Expr(Expr::int(1), None)];
                }
            }
            if let Ok(a) = Db::new(&c.tables).run(&q1) {
                if a.rows.is_empty() {
                    info.some_outer_row_empty = true;
                } else {
                    info.some_outer_row_nonempty = true;
                }
                if info.kind != "scalar" && info.kind != "exists" && info.kind != "not_exists" && a.rows.iter().any(|r| r.first().map(|v| v.is_null()).unwrap_or(false)) {
                    info.result_has_null = true;
                }
            }
        }
    }
    subs.into_iter().map(|x| x.0).collect()
}

// ---------------------------------------------------------------------------
// the two engine paths
// ---------------------------------------------------------------------------

fn production_rules(without_decorrelation: bool) -> Vec<Arc<dyn qo::OptimizerRule>> {
    // mirrors Optimizer::new() in /repo/src/optimizer/mod.rs (run_with_rules swaps in
    // the statistics-aware variants exactly as ExecutionContext::sql does)
    let mut v: Vec<Arc<dyn qo::OptimizerRule>> = vec![Arc::new(qo::ConstantFolding), Arc::new(qo::DeriveOrPredicates), Arc::new(qo::PredicatePushdown)];
    if !without_decorrelation {
        v.push(Arc::new(qo::FlattenDependentJoin));
        v.push(Arc::new(qo::SubqueryDecorrelation));
    }
    v.extend::<Vec<Arc<dyn qo::OptimizerRule>>>(vec![
        Arc::new(qo::SemiJoinPushdown),
        Arc::new(qo::JoinReorder::new()),
        Arc::new(qo::PredicatePushdown),
        Arc::new(qo::HavingTotalCse),
        Arc::new(qo::GroupKeyReduction::new()),
        Arc::new(qo::EagerAggregation::new()),
        Arc::new(qo::PackedGroupKeys::new()),
        Arc::new(qo::PackedJoinKeys::new()),
        Arc::new(qo::ProjectionPushdown),
        Arc::new(qo::VectorSearchPushdown),
    ]);
    v
}

fn plan_decorrelated(c: &SqlCase, sql: &str) -> (bool, String) {
    let ctx = mem_context(c);
    // the optimizer may panic (C29's business): treat as "no plan"
    let plan = std::panic::catch_unwind(std::panic::AssertUnwindSafe(|| ctx.optimized_plan(sql)));
    let Ok(plan) = plan else { return (false, String::new()) };
    match plan {
        Ok(p) => {
            let t = format!("{}", p);
            let l = t.to_lowercase();
            let kinds: Vec<&str> = ["semi", "anti", "single", "mark", "delimjoin", "__scalar_result"].into_iter().filter(|k| l.contains(k)).collect();
            (!kinds.is_empty(), kinds.join("+"))
        }
        Err(_) => (false, String::new()),
    }
}

// ---------------------------------------------------------------------------
// classification (filled in from the surveys; see kf-extra-C23.json)
// ---------------------------------------------------------------------------

fn asymmetric_noneq(q: &Expr) -> bool {
    // does the subquery's WHERE hold a top-level `<`/`<=`/`>`/`>=` between an inner and an outer column?
    let (Expr::Exists { q, .. } | Expr::InSub { q, .. } | Expr::Scalar(q)) = q else { return false };
    let Some(s) = sole_select(q) else { return false };
    let mut al = vec![];
    for f in &s.from {
        from_aliases(f, &mut al);
    }
    let inner: Vec<String> = al.into_iter().map(|(a, _)| a).collect();
    let mut cj = vec![];
    if let Some(w) = &s.where_ {
        conjuncts(w, &mut cj);
    }
    cj.iter().any(|c| match c {
        Expr::Bin(a, BinOp::Lt | BinOp::Le | BinOp::Gt | BinOp::Ge, b) => {
            let (ra, rb) = (rels_of(a), rels_of(b));
            !ra.is_empty() && !rb.is_empty() && (ra.iter().all(|x| inner.contains(x)) != rb.iter().all(|x| inner.contains(x)))
        }
        _ => false,
    })
}

pub fn classify_infos(c: &SqlCase, ev: &Ev, msg: &str) -> Option<&'static str> {
    let subs = subqueries(c);
    let infos = analyse(c);
    let differential = msg.contains("row-by-row execution disagree");
    let is_in = |i: &SubInfo| i.kind == "in" || i.kind == "not_in";
    let is_ex = |i: &SubInfo| i.kind == "exists" || i.kind == "not_exists";
    // K7: the correlated inner column is looked up by bare name in an inner join
    if !differential && infos.iter().any(|i| i.top_conjunct && !i.in_select_list && i.corr_eq >= 1 && i.inner_relations >= 2) {
        return Some("decorrelation-inner-join-column-by-name");
    }
    // K1: decorrelated [NOT] IN loses correlation predicates
    if !differential && infos.iter().any(|i| is_in(i) && i.top_conjunct && !i.in_select_list && (i.corr_noneq >= 1 || i.corr_other || (i.corr_eq >= 1 && (!i.corr_cols_projected || i.distinct)))) {
        return Some("in-decorrelation-drops-correlation");
    }
    // K2: decorrelated [NOT] EXISTS: Semi/Anti join with a residual (non-equality) filter
    if !differential && infos.iter().any(|i| is_ex(i) && i.top_conjunct && i.corr_eq >= 1 && i.corr_noneq >= 1) {
        return Some("exists-semi-anti-residual-filter");
    }
    // K9: a decorrelated subquery keeps another reference to the outer block in its inner filter
    if !differential && infos.iter().any(|i| i.top_conjunct && !i.in_select_list && i.corr_eq >= 1 && i.corr_other) {
        return Some("decorrelation-leaves-outer-reference");
    }
    // K8: a nested subquery correlated to the outermost block (skipping a level), executed row by row
    if infos.iter().any(|i| i.level >= 2 && i.refs_outermost) {
        return Some("nested-subquery-skip-level-correlation");
    }
    // K13: the ROW-BY-ROW executor (the plan without decorrelation) and a correlated subquery that
    // contains a nested subquery of any kind: the nested subquery is evaluated in the wrong scope
    // (no rows / wrong rows) while the production plan answers like the reference
    if differential && msg.contains("production answer matches the reference") && infos.iter().any(|i| i.level == 1 && i.has_nested && i.correlated()) {
        return Some("rowbyrow-nested-subquery");
    }
    // K8c: the skip-level reference sits in the OPERAND of a nested predicate: a correlated
    // subquery whose non-equality correlation contains a nested subquery, e.g.
    // EXISTS (SELECT .. WHERE t1.a = x2.a AND t1.b IN (SELECT x3.a ..)) — the nested IN is
    // uncorrelated itself, its left operand belongs to the outermost block
    if infos.iter().any(|i| i.level == 1 && i.has_nested && i.corr_other) && infos.iter().any(|i| i.level >= 2) {
        return Some("nested-subquery-skip-level-correlation");
    }
    // K12: correlated scalar MIN/MAX over a DATE / VARCHAR column (row-by-row result conversion)
    if infos.iter().any(|i| i.kind == "scalar" && matches!(i.agg, Some(AggF::Min | AggF::Max)) && i.agg_arg_non_numeric && i.correlated()) {
        return Some("rowbyrow-scalar-date-or-string-result");
    }
    // K8b: a correlated subquery nested in a subquery that itself runs row by row
    if infos.iter().any(|i| i.level >= 2 && i.correlated()) && infos.iter().any(|i| i.level == 1 && i.has_nested && (i.corr_eq == 0 || !i.top_conjunct)) {
        return Some("nested-subquery-skip-level-correlation");
    }
    // K11: a subquery left to the row-by-row executor whose correlation is not a plain `inner op outer` conjunct
    if infos.iter().any(|i| i.corr_other && i.corr_eq == 0 && !is_in(i)) {
        return Some("rowbyrow-correlation-not-a-conjunct");
    }
    // K3: correlated scalar COUNT over an empty correlated input
    if infos.iter().any(|i| i.kind == "scalar" && i.agg == Some(AggF::Count) && i.correlated() && (i.some_outer_row_empty || i.level > 1)) {
        return Some("scalar-count-empty-correlated-input");
    }
    // K4: scalar MIN/MAX/SUM over an empty (or all-NULL) input
    if (ev.contains("global_agg_empty_input") || ev.contains("agg_no_nonnull_input")) && infos.iter().any(|i| i.kind == "scalar" && matches!(i.agg, Some(AggF::Min | AggF::Max | AggF::Sum | AggF::Avg))) {
        return Some("agg-empty-input");
    }
    // K5: [NOT] IN with a NULL on either side
    if infos.iter().any(|i| is_in(i) && (i.lhs_null || i.result_has_null)) || ev.contains("in_subquery_null") || ev.contains("not_in_subquery_null") {
        return Some("in-subquery-null");
    }
    // K6: the row-by-row executor evaluates a correlated IN subquery once, unsubstituted
    if infos.iter().any(|i| is_in(i) && i.correlated() && (differential || !i.top_conjunct || i.level > 1 || i.in_select_list)) {
        return Some("rowbyrow-correlated-in-unsupported");
    }
    None
}

fn classify_with(c: &SqlCase, ev: &Ev, msg: &str) -> Option<&'static str> {
    // the shared signatures, except the coarse "any correlated subquery" one this property refines
    // (among the shared signatures the case meets, one that is listed OPEN for this property wins
    // over one that is fixed: see runner::is_open_id)
    classify_infos(c, ev, msg).or_else(|| {
        let hits: Vec<&crate::kf_sql::Sig> = crate::kf_sql::SIGS.iter().filter(|s| s.id != "correlated-subquery").filter(|s| (s.pred)(c, ev)).collect();
        hits.iter().find(|s| crate::runner::is_open_id(s.id)).or(hits.first()).map(|s| s.id)
    })
}

// ---------------------------------------------------------------------------
// check
// ---------------------------------------------------------------------------

struct SubqueryCheck;

impl Check for SubqueryCheck {
    type Case = SqlCase;
    fn name(&self) -> &'static str {
        "subquery_semantics_and_decorrelation"
    }
    fn rule(&self) -> &'static str {
        "the engine answered, some first-level subquery is empty or yields a NULL (or has a NULL left operand) for some outer row, and the production plan contains a Semi/Anti/Single/Mark/Delim join or a decorrelated scalar join"
    }
    fn cases(&self, tier: Tier) -> u32 {
        tier.pick(2000, 60_000)
    }
    fn max_shrink_iters(&self) -> u32 {
        1500
    }
    fn strategy(&self, tier: Tier) -> BoxedStrategy<SqlCase> {
        strategy(tier)
    }
    fn test(&self, c: &SqlCase, obs: &mut Obs) -> Verdict {
        let sql = c.query.sql();
        let infos = analyse(c);
        for i in &infos {
            obs.label(format!("sub:{}", i.kind));
            if i.level == 1 {
                if i.some_outer_row_empty {
                    obs.label("fact:empty_for_some_outer_row");
                }
                if i.result_has_null {
                    obs.label("fact:null_in_subquery_result");
                }
                if i.lhs_null {
                    obs.label("fact:null_left_operand");
                }
            }
        }
        let survey = survey_mode();
        let shapes: Vec<String> = infos.iter().map(|i| format!("L{}:{}{}{}{}", i.level, i.shape(), if i.some_outer_row_empty { "|EMPTY" } else { "" }, if i.result_has_null { "|NULLRES" } else { "" }, if i.lhs_null { "|NULLLHS" } else { "" })).collect();
        let out = judge_text(c, &sql, obs, 1e-9, &classify_with);
        for e in &out.events {
            obs.label(format!("ev:{}", e));
        }
        let (decorrelated, kinds) = plan_decorrelated(c, &sql);
        if decorrelated {
            obs.label(format!("plan:{}", kinds));
        } else {
            obs.label("plan:not_decorrelated");
        }
        let data_nt = infos.iter().any(|i| i.level == 1 && (i.some_outer_row_empty || i.result_has_null || i.lhs_null));
        obs.nontrivial(out.got.is_some() && data_nt && decorrelated);

        let annotate = |v: Verdict, tag: &str| -> Verdict {
            if !survey {
                return v;
            }
            match v {
                Verdict::Fail(m) => Verdict::Fail(format!("{} [{}] shapes={:?} plan={}", m, tag, shapes, kinds)),
                Verdict::Known { id, msg } => Verdict::Known { id, msg: format!("{} [{}] shapes={:?} plan={}", msg, tag, shapes, kinds) },
                o => o,
            }
        };

        // second oracle: production optimizer vs the rule list without decorrelation
        let (Some(reference), Some(got)) = (&out.reference, &out.got) else { return out.verdict };
        let ctx = mem_context(c);
        let row_by_row = std::panic::catch_unwind(std::panic::AssertUnwindSafe(|| run_with_rules(&ctx, &sql, production_rules(true)))).unwrap_or_else(|_| Err("PANIC: in the row-by-row path".into()));
        let rbr = match row_by_row {
            Ok(r) => r,
            Err(e) => {
                obs.label(format!("rowbyrow_error:{}", short_err(&e)));
                return annotate(out.verdict, "opt-vs-ref; row-by-row errored");
            }
        };
        obs.label("rowbyrow_ok");
        let opt_ok = matches!(out.verdict, Verdict::Pass);
        let rbr_ok = crate::refsql::compare_answer(reference, &rbr, 1e-9).is_ok();
        let same = same_rows(got, &rbr, 1e-9) || (opt_ok && rbr_ok);
        if !opt_ok {
            return annotate(out.verdict, if rbr_ok { "OPT-WRONG rowbyrow-right" } else if same { "BOTH-WRONG-SAME" } else { "BOTH-WRONG-DIFFERENT" });
        }
        if same {
            return Verdict::Pass;
        }
        // production answer agrees with the reference, the row-by-row path does not
        let msg = format!(
            "decorrelated and row-by-row execution disagree (production answer matches the reference, the plan without SubqueryDecorrelation/FlattenDependentJoin does not)\n sql: {}\n production: {}\n row-by-row: {}\n reference: {}\n tables: {}",
            sql,
            show(got),
            show(&rbr),
            show(&reference.rows),
            fmt_tables(&c.tables)
        );
        let v = match classify_with(c, &out.events, &msg) {
            Some(id) => Verdict::Known { id: id.to_string(), msg },
            None => Verdict::Fail(msg),
        };
        annotate(v, "ROWBYROW-WRONG opt-right")
    }
}

pub fn property() -> Property {
    Property {
        id: "C23",
        level: "exploration",
        assumptions: &[
            "the reference evaluator refsql implements SQL's three-valued EXISTS / IN / NOT IN / scalar-subquery semantics (cross-checked against SQLite)",
            "the plan optimized with the production rule list minus SubqueryDecorrelation and FlattenDependentJoin, lowered by PhysicalPlanner with subquery execution enabled, is the engine's row-by-row subquery path",
            "an engine error is an allowed outcome (the property only forbids wrong rows)",
        ],
        checks: vec![Box::new(SubqueryCheck)],
    }
}
