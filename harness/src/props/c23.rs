//! C23 — not implemented yet.
use super::Property;

pub fn property() -> Property {
    Property { id: "C23", level: "exploration", assumptions: &[], checks: vec![] }
}
