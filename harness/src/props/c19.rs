//! C19 — Rewritten files are never served from a stale cache.
//!
//! A case is a *history* over one Parquet path: write(content), query,
//! rewrite (same/different length; modification time advanced, preserved
//! exactly, moved inside the same whole second, or moved back; in place or via
//! rename), re-register, "another process builds the sidecar". The whole
//! history is executed inside ONE worker process (the footer caches are
//! process-global), once per `QE_IPC_CACHE` configuration (`0`, unset, `1`;
//! the switch is read once per process, hence sub-processes:
//! `check --worker c19 <casefile>`). All modification times are set explicitly
//! with `File::set_modified` from a virtual clock in the case, so a history is
//! reproducible. Same-length rewrites are manufactured by padding a footer
//! key/value entry until the file has exactly the previous length.
//!
//! Oracle: the model is the content written last; every query's answer must
//! equal that content's answer, computed here by a few lines of Rust per query
//! shape (scan, COUNT(*), two GROUP BYs, two filters, MIN/MAX) — never by the
//! engine. A query that *fails* after a rewrite did not read the new content
//! either and is reported the same way (every query shape is also executed on
//! never-rewritten files in the same run, where it must succeed).
use super::Property;
use crate::data::*;
use crate::engine::*;
use crate::runner::*;
use proptest::prelude::*;
use query_engine::ExecutionContext;
use serde::{Deserialize, Serialize};
use std::collections::BTreeMap;
use std::path::{Path, PathBuf};

pub const S_DOMAIN: [&str; 4] = ["a", "b", "cc", "d"];

#[derive(Clone, Debug, Serialize, Deserialize, PartialEq)]
pub struct Content {
    /// (g 0..6, index into S_DOMAIN, v nullable)
    pub rows: Vec<(i64, u8, Option<i64>)>,
    pub rg_size: usize,
    pub dictionary: bool,
}

#[derive(Clone, Debug, Serialize, Deserialize, PartialEq)]
pub enum Mtime {
    /// later by `secs` whole seconds (>=1), sub-second part `nanos`
    Advance { secs: u32, nanos: u32 },
    /// exactly the previous file's modification time (`cp -p`, `touch -r`, rsync -t)
    Preserve,
    /// same whole second as the previous file, different sub-second part
    SameSecond { nanos: u32 },
    /// earlier than the previous file (a restored backup)
    Back { secs: u32, nanos: u32 },
}

#[derive(Clone, Debug, Serialize, Deserialize, PartialEq)]
pub enum Op {
    Write { content: Content, same_len: bool, pad: u16, mtime: Mtime, via_rename: bool },
    Query { kind: u8, param: u8 },
    ReRegister,
    /// a separate process with QE_IPC_CACHE=1 scans the table (builds the sidecar)
    ExternalBuild,
}

#[derive(Clone, Debug, Serialize, Deserialize)]
pub struct HistoryCase {
    pub first: Content,
    pub first_pad: u16,
    pub ops: Vec<Op>,
    /// verif hook: treat the table as above the streaming-scan size gate
    pub force_big: bool,
}

#[derive(Clone, Debug, Serialize, Deserialize)]
pub enum Event {
    Wrote { len: u64, secs: i64, nanos: u32, same_len_hit: bool },
    Answer(Result<Rows, String>),
    Registered(Result<(), String>),
    Built(bool),
}

#[derive(Serialize, Deserialize)]
struct Job {
    dir: PathBuf,
    case: HistoryCase,
}

// ---------------------------------------------------------------------------
// shared between worker and parent
// ---------------------------------------------------------------------------

fn cols() -> Vec<Column> {
    vec![
        Column { name: "g".into(), ty: ColType::Int },
        Column { name: "s".into(), ty: ColType::Str },
        Column { name: "v".into(), ty: ColType::Int },
    ]
}

fn content_rows(c: &Content) -> Rows {
    c.rows
        .iter()
        .map(|(g, s, v)| {
            vec![
                Value::Int(*g),
                Value::Str(S_DOMAIN[*s as usize % 4].to_string()),
                v.map(Value::Int).unwrap_or(Value::Null),
            ]
        })
        .collect()
}

pub fn sql_of(kind: u8, param: u8) -> String {
    match kind % 7 {
        0 => "SELECT g, s, v FROM t".into(),
        1 => "SELECT COUNT(*) FROM t".into(),
        2 => "SELECT g, COUNT(*), COUNT(v), SUM(g) FROM t GROUP BY g".into(),
        3 => "SELECT s, COUNT(*) FROM t GROUP BY s".into(),
        4 => format!("SELECT g, s, v FROM t WHERE g >= {}", param % 7),
        5 => "SELECT MIN(g), MAX(g), COUNT(v) FROM t".into(),
        _ => format!("SELECT g, v FROM t WHERE s = '{}'", S_DOMAIN[param as usize % 4]),
    }
}

/// the reference answer, straight from the rows
pub fn model_answer(c: &Content, kind: u8, param: u8) -> Rows {
    let rows = content_rows(c);
    let int = |v: &Value| match v {
        Value::Int(i) => Some(*i),
        _ => None,
    };
    match kind % 7 {
        0 => rows,
        1 => vec![vec![Value::Int(rows.len() as i64)]],
        2 => {
            // (SUM over an all-NULL group is C21's business: v is only counted here)
            let mut m: BTreeMap<i64, (i64, i64)> = BTreeMap::new();
            for r in &rows {
                let e = m.entry(int(&r[0]).unwrap()).or_insert((0, 0));
                e.0 += 1;
                if int(&r[2]).is_some() {
                    e.1 += 1;
                }
            }
            m.into_iter()
                .map(|(g, (n, nv))| vec![Value::Int(g), Value::Int(n), Value::Int(nv), Value::Int(g * n)])
                .collect()
        }
        3 => {
            let mut m: BTreeMap<String, i64> = BTreeMap::new();
            for r in &rows {
                if let Value::Str(s) = &r[1] {
                    *m.entry(s.clone()).or_insert(0) += 1;
                }
            }
            m.into_iter().map(|(s, n)| vec![Value::Str(s), Value::Int(n)]).collect()
        }
        4 => rows.into_iter().filter(|r| int(&r[0]).unwrap() >= (param % 7) as i64).collect(),
        5 => {
            let gs: Vec<i64> = rows.iter().map(|r| int(&r[0]).unwrap()).collect();
            let cnt = rows.iter().filter(|r| !r[2].is_null()).count() as i64;
            vec![vec![
                gs.iter().min().map(|x| Value::Int(*x)).unwrap_or(Value::Null),
                gs.iter().max().map(|x| Value::Int(*x)).unwrap_or(Value::Null),
                Value::Int(cnt),
            ]]
        }
        _ => {
            let want = S_DOMAIN[param as usize % 4];
            rows.into_iter()
                .filter(|r| matches!(&r[1], Value::Str(s) if s == want))
                .map(|r| vec![r[0].clone(), r[2].clone()])
                .collect()
        }
    }
}

fn encode(c: &Content, pad: usize) -> Vec<u8> {
    use parquet::arrow::ArrowWriter;
    use parquet::file::metadata::KeyValue;
    use parquet::file::properties::WriterProperties;
    let props = WriterProperties::builder()
        .set_max_row_group_size(c.rg_size.max(1))
        .set_dictionary_enabled(c.dictionary)
        .set_key_value_metadata(Some(vec![KeyValue::new("pad".to_string(), "x".repeat(pad))]))
        .build();
    let batch = rows_to_batch(&cols(), &content_rows(c));
    let mut buf = Vec::new();
    let mut w = ArrowWriter::try_new(&mut buf, batch.schema(), Some(props)).unwrap();
    w.write(&batch).unwrap();
    w.close().unwrap();
    buf
}

/// bytes of `c` with exactly `target` length, if padding can reach it
fn encode_to_len(c: &Content, target: usize) -> Option<Vec<u8>> {
    let l0 = encode(c, 0).len();
    if l0 > target {
        return None;
    }
    let d = target - l0;
    for p in [d, d.saturating_sub(1), d.saturating_sub(2)] {
        let b = encode(c, p);
        if b.len() == target {
            return Some(b);
        }
    }
    None
}

// ---------------------------------------------------------------------------
// worker (runs inside a sub-process whose QE_IPC_CACHE the parent chose)
// ---------------------------------------------------------------------------

fn set_mtime(p: &Path, secs: i64, nanos: u32) {
    let f = std::fs::OpenOptions::new().write(true).open(p).unwrap();
    let t = std::time::UNIX_EPOCH + std::time::Duration::new(secs as u64, nanos);
    f.set_modified(t).unwrap();
}

/// `--worker c19 <jobfile>`  |  `--worker c19 --build <parquet path>`
pub fn worker(args: &[String]) {
    if args.first().map(|s| s.as_str()) == Some("--build") {
        let mut ctx = ExecutionContext::new();
        let ok = ctx.register_parquet("t", &args[1]).is_ok() && run_sql(&ctx, &sql_of(0, 0)).is_ok();
        std::process::exit(if ok { 0 } else { 3 });
    }
    let jobfile = &args[0];
    let job: Job = serde_json::from_str(&std::fs::read_to_string(jobfile).expect("job file")).expect("job json");
    let events = run_history(&job);
    std::fs::write(format!("{}.out", jobfile), serde_json::to_string(&events).unwrap()).unwrap();
}

fn run_history(job: &Job) -> Vec<Event> {
    let c = &job.case;
    query_engine::verif_hooks::set_force_big(c.force_big);
    let path = job.dir.join("t.parquet");
    let mut events = vec![];
    let (mut secs, mut nanos): (i64, u32) = (1_700_000_000, 123_456_789);
    let bytes = encode(&c.first, c.first_pad as usize);
    std::fs::write(&path, &bytes).unwrap();
    set_mtime(&path, secs, nanos);
    let mut cur_len = bytes.len();
    events.push(Event::Wrote { len: cur_len as u64, secs, nanos, same_len_hit: false });
    let mut ctx = ExecutionContext::new();
    events.push(Event::Registered(ctx.register_parquet("t", &path).map_err(|e| e.to_string())));
    for op in &c.ops {
        match op {
            Op::Write { content, same_len, pad, mtime, via_rename } => {
                let (bytes, hit) = match (*same_len).then(|| encode_to_len(content, cur_len)).flatten() {
                    Some(b) => (b, true),
                    None => {
                        let mut b = encode(content, *pad as usize);
                        if b.len() == cur_len {
                            b = encode(content, *pad as usize + 1);
                        }
                        (b, false)
                    }
                };
                match mtime {
                    Mtime::Advance { secs: s, nanos: n } => {
                        secs += (*s).max(1) as i64;
                        nanos = *n % 1_000_000_000;
                    }
                    Mtime::Preserve => {}
                    Mtime::SameSecond { nanos: n } => {
                        let n = *n % 1_000_000_000;
                        nanos = if n == nanos { (n + 1) % 1_000_000_000 } else { n };
                    }
                    Mtime::Back { secs: s, nanos: n } => {
                        secs -= (*s).max(1) as i64;
                        nanos = *n % 1_000_000_000;
                    }
                }
                if *via_rename {
                    let tmp = job.dir.join("incoming.tmp");
                    std::fs::write(&tmp, &bytes).unwrap();
                    set_mtime(&tmp, secs, nanos);
                    std::fs::rename(&tmp, &path).unwrap();
                } else {
                    std::fs::write(&path, &bytes).unwrap();
                    set_mtime(&path, secs, nanos);
                }
                cur_len = bytes.len();
                events.push(Event::Wrote { len: cur_len as u64, secs, nanos, same_len_hit: hit });
            }
            Op::Query { kind, param } => {
                events.push(Event::Answer(run_sql(&ctx, &sql_of(*kind, *param))));
            }
            Op::ReRegister => {
                ctx = ExecutionContext::new();
                events.push(Event::Registered(ctx.register_parquet("t", &path).map_err(|e| e.to_string())));
            }
            Op::ExternalBuild => {
                let st = std::process::Command::new(std::env::current_exe().unwrap())
                    .args(["--worker", "c19", "--build", path.to_str().unwrap()])
                    .env("QE_IPC_CACHE", "1")
                    .stdout(std::process::Stdio::null())
                    .stderr(std::process::Stdio::null())
                    .status();
                events.push(Event::Built(st.map(|s| s.success()).unwrap_or(false)));
            }
        }
    }
    events
}

// ---------------------------------------------------------------------------
// parent
// ---------------------------------------------------------------------------

#[derive(Clone, Copy, PartialEq, Debug)]
enum Cfg {
    Off,
    Auto,
    Build,
}
impl Cfg {
    fn name(self) -> &'static str {
        match self {
            Cfg::Off => "QE_IPC_CACHE=0",
            Cfg::Auto => "QE_IPC_CACHE unset",
            Cfg::Build => "QE_IPC_CACHE=1",
        }
    }
}

fn spawn_worker(job: &Job, cfg: Cfg) -> Result<Vec<Event>, String> {
    let jobfile = job.dir.join("job.json");
    std::fs::write(&jobfile, serde_json::to_string(job).unwrap()).unwrap();
    let mut cmd = std::process::Command::new(std::env::current_exe().unwrap());
    cmd.args(["--worker", "c19", jobfile.to_str().unwrap()]);
    match cfg {
        Cfg::Off => cmd.env("QE_IPC_CACHE", "0"),
        Cfg::Auto => cmd.env_remove("QE_IPC_CACHE"),
        Cfg::Build => cmd.env("QE_IPC_CACHE", "1"),
    };
    // fewer idle pool threads per worker process (many run side by side)
    cmd.env_remove("QE_IPC_SLICE").env_remove("QE_IPC_WILLNEED").env("RAYON_NUM_THREADS", "4");
    let out = cmd.output().map_err(|e| format!("spawn worker: {}", e))?;
    let res = std::fs::read_to_string(format!("{}.out", jobfile.display()));
    match res {
        Ok(s) => serde_json::from_str(&s).map_err(|e| format!("worker output: {}", e)),
        Err(_) => Err(format!(
            "worker died ({}) without a result; stderr tail: {}",
            out.status,
            String::from_utf8_lossy(&out.stderr).chars().rev().take(600).collect::<String>().chars().rev().collect::<String>()
        )),
    }
}

struct Version {
    content: Content,
    len: u64,
    secs: i64,
    nanos: u32,
    /// a query ran in the worker while this version was current
    queried: bool,
    /// another process built a sidecar while this version was current
    ext_built: bool,
}

pub struct RewriteHistories;

impl Check for RewriteHistories {
    type Case = HistoryCase;
    fn name(&self) -> &'static str {
        "rewrite_histories"
    }
    fn rule(&self) -> &'static str {
        "the history queries, rewrites with different content such that the new file has (exactly the modification time of an earlier queried version) or (the same length and the same whole-second mtime as an earlier version), and queries again"
    }
    fn cases(&self, tier: Tier) -> u32 {
        tier.pick(260, 6000)
    }
    fn workers(&self, _tier: Tier) -> usize {
        8
    }
    fn max_shrink_iters(&self) -> u32 {
        60
    }
    fn strategy(&self, tier: Tier) -> BoxedStrategy<HistoryCase> {
        let max_ops = tier.pick(4usize, 7);
        (content_strategy(), 0u16..300, ops_strategy(max_ops), proptest::bool::weighted(0.3))
            .prop_map(|(first, first_pad, ops, force_big)| HistoryCase { first, first_pad, ops, force_big })
            .boxed()
    }
    fn test(&self, c: &HistoryCase, obs: &mut Obs) -> Verdict {
        let mut known: Option<(String, String)> = None;
        let mut nontrivial = false;
        for cfg in [Cfg::Off, Cfg::Auto, Cfg::Build] {
            let tmp = TempDir::new("c19");
            let job = Job { dir: tmp.path().to_path_buf(), case: c.clone() };
            let events = match spawn_worker(&job, cfg) {
                Ok(e) => e,
                Err(e) => return Verdict::Fail(format!("[{}] {}", cfg.name(), e)),
            };
            // walk the history alongside the events
            let mut versions: Vec<Version> = vec![];
            let mut ev = events.iter();
            let mut next = || ev.next().cloned();
            match next() {
                Some(Event::Wrote { len, secs, nanos, .. }) => {
                    versions.push(Version { content: c.first.clone(), len, secs, nanos, queried: false, ext_built: false })
                }
                o => return Verdict::Fail(format!("[{}] protocol: expected Wrote, got {:?}", cfg.name(), o)),
            }
            match next() {
                Some(Event::Registered(Ok(()))) => {}
                o => return Verdict::Fail(format!("[{}] first registration failed: {:?}", cfg.name(), o)),
            }
            let mut registered_ok = true;
            for (i, op) in c.ops.iter().enumerate() {
                let e = next();
                match (op, e) {
                    (Op::Write { content, .. }, Some(Event::Wrote { len, secs, nanos, same_len_hit })) => {
                        if same_len_hit {
                            obs.label("same-length rewrite");
                        }
                        versions.push(Version { content: content.clone(), len, secs, nanos, queried: false, ext_built: false });
                    }
                    (Op::ExternalBuild, Some(Event::Built(ok))) => {
                        if ok {
                            versions.last_mut().unwrap().ext_built = true;
                        } else {
                            obs.label("external build failed");
                        }
                    }
                    (Op::ReRegister, Some(Event::Registered(r))) => {
                        registered_ok = r.is_ok();
                        if let Err(e) = r {
                            // registration reads the footer without any cache: it must work
                            return Verdict::Fail(format!("[{}] op {}: re-register failed: {}", cfg.name(), i, e));
                        }
                    }
                    (Op::Query { kind, param }, Some(Event::Answer(got))) => {
                        let vi = versions.len() - 1;
                        let cur = &versions[vi];
                        let want = model_answer(&cur.content, *kind, *param);
                        // staleness opportunities for the current version
                        let same_mtime_as_queried = versions[..vi].iter().any(|u| {
                            u.content != cur.content && u.secs == cur.secs && u.nanos == cur.nanos && u.queried
                        });
                        let same_stamp_as_built = cfg != Cfg::Off
                            && versions[..vi].iter().any(|u| {
                                u.content != cur.content
                                    && u.len == cur.len
                                    && u.secs == cur.secs
                                    && ((cfg == Cfg::Build && u.queried) || u.ext_built)
                            });
                        let same_stamp_any = versions[..vi]
                            .iter()
                            .any(|u| u.content != cur.content && u.len == cur.len && u.secs == cur.secs);
                        if same_mtime_as_queried {
                            obs.label("query after rewrite with an earlier queried version's exact mtime");
                            nontrivial = true;
                        }
                        if same_stamp_any {
                            obs.label("query after rewrite with same length + same whole second");
                            nontrivial = true;
                        }
                        if vi > 0 {
                            obs.label("query after rewrite");
                        }
                        let ok = match &got {
                            Ok(rows) => multiset_eq(rows, &want, 0.0),
                            Err(_) => false,
                        };
                        versions[vi].queried = true;
                        if ok {
                            continue;
                        }
                        let cur = &versions[vi];
                        let what = match &got {
                            Ok(rows) => format!("returned\n{}", fmt_rows(rows, 10)),
                            Err(e) => format!("failed: {}", e),
                        };
                        let msg = format!(
                            "[{}] op {} `{}` on version {} (len {}, mtime {}.{:09}) {}but the file now holds content whose answer is\n{}history: {}",
                            cfg.name(),
                            i,
                            sql_of(*kind, *param),
                            vi,
                            cur.len,
                            cur.secs,
                            cur.nanos,
                            what,
                            fmt_rows(&want, 10),
                            versions
                                .iter()
                                .enumerate()
                                .map(|(j, v)| format!("v{}(len {}, mtime {}.{:09}{}{})", j, v.len, v.secs, v.nanos, if v.queried { ", queried" } else { "" }, if v.ext_built { ", sidecar built" } else { "" }))
                                .collect::<Vec<_>>()
                                .join(" -> ")
                        );
                        if vi == 0 {
                            return Verdict::Fail(format!("(never rewritten) {}", msg));
                        }
                        if same_mtime_as_queried {
                            known.get_or_insert(("footer-cache-mtime-only".into(), msg));
                        } else if same_stamp_as_built {
                            known.get_or_insert(("sidecar-stamp-coarse".into(), msg));
                        } else {
                            return Verdict::Fail(msg);
                        }
                    }
                    (op, e) => {
                        return Verdict::Fail(format!("[{}] protocol: op {:?} answered by {:?}", cfg.name(), op, e));
                    }
                }
            }
            let _ = registered_ok;
        }
        obs.nontrivial(nontrivial);
        if c.force_big {
            obs.label("force_big");
        }
        match known {
            Some((id, msg)) => Verdict::Known { id, msg },
            None => Verdict::Pass,
        }
    }
}

fn content_strategy() -> impl Strategy<Value = Content> {
    (
        proptest::collection::vec((0i64..6, 0u8..4, proptest::option::weighted(0.8, 0i64..100)), 1..14),
        prop_oneof![Just(2usize), Just(5usize), Just(1usize << 20)],
        proptest::bool::weighted(0.8),
    )
        .prop_map(|(rows, rg_size, dictionary)| Content { rows, rg_size, dictionary })
}

fn mtime_strategy() -> impl Strategy<Value = Mtime> {
    prop_oneof![
        3 => (1u32..4, 0u32..1_000_000_000).prop_map(|(secs, nanos)| Mtime::Advance { secs, nanos }),
        4 => Just(Mtime::Preserve),
        6 => (0u32..1_000_000_000).prop_map(|nanos| Mtime::SameSecond { nanos }),
        1 => (1u32..4, 0u32..1_000_000_000).prop_map(|(secs, nanos)| Mtime::Back { secs, nanos }),
    ]
}

fn query_strategy() -> impl Strategy<Value = Op> {
    (0u8..7, 0u8..7).prop_map(|(kind, param)| Op::Query { kind, param })
}

/// one round: [another process builds the sidecar] rewrite [re-register] query+
fn round_strategy() -> impl Strategy<Value = Vec<Op>> {
    (
        proptest::bool::weighted(0.25),
        (content_strategy(), proptest::bool::weighted(0.6), 0u16..300, mtime_strategy(), any::<bool>()),
        proptest::bool::weighted(0.2),
        proptest::collection::vec(query_strategy(), 1..3),
    )
        .prop_map(|(ext, (content, same_len, pad, mtime, via_rename), rereg, queries)| {
            let mut v = vec![];
            if ext {
                v.push(Op::ExternalBuild);
            }
            v.push(Op::Write { content, same_len, pad, mtime, via_rename });
            if rereg {
                v.push(Op::ReRegister);
            }
            v.extend(queries);
            v
        })
}

fn ops_strategy(max_rounds: usize) -> impl Strategy<Value = Vec<Op>> {
    (proptest::collection::vec(query_strategy(), 0..3), proptest::collection::vec(round_strategy(), 1..max_rounds)).prop_map(
        |(warm, rounds)| {
            let mut v = warm;
            for r in rounds {
                v.extend(r);
            }
            v
        },
    )
}

pub fn property() -> Property {
    Property {
        id: "C19",
        level: "exploration",
        assumptions: &[
            "the replacement keeps the schema (g BIGINT, s VARCHAR, v BIGINT); a registered provider keeps the schema it read at registration",
            "modification times are set with File::set_modified from a virtual clock (no dependence on the wall clock or the filesystem's timestamp granularity)",
            "a query that fails after a rewrite counts as not reading the new content",
        ],
        checks: vec![Box::new(RewriteHistories)],
    }
}
