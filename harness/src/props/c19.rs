//! C19 — not implemented yet.
use super::Property;

pub fn property() -> Property {
    Property { id: "C19", level: "exploration", assumptions: &[], checks: vec![] }
}
