//! C27 — GROUPING SETS, ROLLUP and CUBE match their SQL definition.
//!
//! Generator (own): one table `g(a BIGINT, b VARCHAR, c BIGINT, v BIGINT, d DOUBLE)`
//! with 0–12 rows (thorough 0–30); grouping columns `a ∈ {0,1,2}`, `b ∈ {'x','y'}`,
//! `c ∈ {0,1}`; in ~50 % of the tables the grouping columns also hold NULLs (the
//! open finding `agg-null-group-key` interferes there, so half of the tables keep them
//! NULL-free); `v`, `d` (multiples of 0.25) are nullable measures. A statement is
//!   SELECT <grouping columns (any subset/order)>, <1–3 aggregates>, <0–2 GROUPING(…)>
//!   FROM g [WHERE …] GROUP BY { GROUPING SETS (…) | ROLLUP (…) | CUBE (…) }
//! with GROUPING SETS lists of 1–4 sets over 1–3 columns including the empty
//! set `()`, repeated sets and permuted column order inside a set; ROLLUP / CUBE
//! over 1–3 columns in any order; GROUPING() with 1–3 arguments in any order.
//! (The engine's binder accepts exactly this shape: one grouping-set item, no
//! HAVING, plain aggregates.)
//!
//! Oracle: `refsql`'s grouping-set evaluation — which this module first checks
//! against itself on every case (SQLite has no grouping sets): the statement is
//! expanded HERE (own ROLLUP/CUBE expansion, own GROUPING bitmask) into one plain
//! `GROUP BY` statement per set, with absent columns replaced by NULL literals
//! and GROUPING() by its constant; each is evaluated by refsql's ordinary GROUP
//! BY path and the concatenation must equal refsql's direct answer
//! (`ORACLE SELF-CHECK` failure otherwise — a harness bug, never an engine verdict).
//!
//! NT: a grouping column used by the statement is NULL in some input row (so "NULL
//! because absent" and "NULL group" coexist), ≥ 2 distinct grouping sets, and the
//! engine answered.
use super::Property;
use crate::data::*;
use crate::kf_sql::classify_sql;
use crate::refsql::Db;
use crate::runner::*;
use crate::sqlast::*;
use crate::sqlcheck::*;
use crate::sqlgen::{SqlCase, Tape};
use proptest::prelude::*;
use std::collections::BTreeSet;

fn nullable(s: BoxedStrategy<Value>, pct: u32) -> BoxedStrategy<Value> {
    if pct == 0 {
        s
    } else {
        prop_oneof![pct => Just(Value::Null), (100 - pct) => s].boxed()
    }
}

fn table_strategy(max_rows: usize) -> BoxedStrategy<Table> {
    (prop_oneof![10 => Just(0u32), 5 => Just(20u32), 5 => Just(45u32)], prop_oneof![Just(0u32), Just(25u32)])
        .prop_flat_map(move |(gpct, mpct)| {
            let row = (
                nullable((0i64..3).prop_map(Value::Int).boxed(), gpct),
                nullable(prop_oneof![Just("x"), Just("y")].prop_map(|s| Value::Str(s.to_string())).boxed(), gpct),
                nullable((0i64..2).prop_map(Value::Int).boxed(), gpct),
                nullable((0i64..5).prop_map(Value::Int).boxed(), mpct),
                nullable((-2i64..7).prop_map(|k| Value::Double(k as f64 * 0.25)).boxed(), mpct),
            );
            proptest::collection::vec(row, 0..=max_rows).prop_map(|rows| {
                let c = |n: &str, ty| Column { name: n.to_string(), ty };
                Table {
                    name: "g".into(),
                    cols: vec![c("a", ColType::Int), c("b", ColType::Str), c("c", ColType::Int), c("v", ColType::Int), c("d", ColType::Double)],
                    rows: rows.into_iter().map(|(a, b, c, v, d)| vec![a, b, c, v, d]).collect(),
                }
            })
        })
        .boxed()
}

fn col(n: &str) -> Expr {
    Expr::qcol("g", n)
}

const GCOLS: [&str; 3] = ["a", "b", "c"];

pub fn gen_case(table: Table, tape: Vec<u16>, cuts: Vec<usize>) -> SqlCase {
    let mut t = Tape::new(tape);
    let mut feats: BTreeSet<String> = BTreeSet::new();
    // the columns this statement groups over (1–3, any order)
    let k = 1 + t.pick(3);
    let mut pool: Vec<&str> = GCOLS.to_vec();
    let mut cols: Vec<&str> = vec![];
    for _ in 0..k {
        let i = t.pick(pool.len());
        cols.push(pool.remove(i));
    }
    let group = match t.pick(4) {
        0 => {
            feats.insert("rollup".into());
            Group::Rollup(cols.iter().map(|c| col(c)).collect())
        }
        1 => {
            feats.insert("cube".into());
            Group::Cube(cols.iter().map(|c| col(c)).collect())
        }
        _ => {
            feats.insert("grouping_sets".into());
            let ns = 1 + t.pick(4);
            let mut sets: Vec<Vec<Expr>> = vec![];
            for _ in 0..ns {
                if !sets.is_empty() && t.chance(15) {
                    feats.insert("repeated_set".into());
                    let i = t.pick(sets.len());
                    sets.push(sets[i].clone());
                    continue;
                }
                let mut s: Vec<Expr> = vec![];
                for c in &cols {
                    if t.chance(50) {
                        s.push(col(c));
                    }
                }
                if s.len() >= 2 && t.chance(40) {
                    s.reverse();
                }
                if s.is_empty() {
                    feats.insert("empty_set".into());
                }
                sets.push(s);
            }
            // every chosen column appears in some set (else it is not a grouping column)
            for c in &cols {
                if !sets.iter().any(|s| s.contains(&col(c))) {
                    sets.push(vec![col(c)]);
                }
            }
            Group::Sets(sets)
        }
    };
    if matches!(group, Group::Rollup(_) | Group::Cube(_)) {
        feats.insert("empty_set".into());
    }
    feats.insert(format!("cols{}", cols.len()));

    // select list: grouping columns (subset, any order) + aggregates + GROUPING()
    let mut items: Vec<Item> = vec![];
    let mut shown: Vec<&str> = cols.clone();
    if t.chance(30) {
        shown.reverse();
    }
    if shown.len() > 1 && t.chance(20) {
        shown.pop();
        feats.insert("grouping_column_not_projected".into());
    }
    for c in &shown {
        items.push(Item::Expr(col(c), Some(format!("k_{}", c))));
    }
    let na = 1 + t.pick(3);
    for i in 0..na {
        let e = match t.pick(7) {
            0 => Expr::count_star(),
            1 => Expr::agg(AggF::Count, col("v")),
            2 => Expr::agg(AggF::Sum, col("v")),
            3 => Expr::agg(AggF::Min, col("v")),
            4 => Expr::agg(AggF::Max, col("d")),
            5 => Expr::agg(AggF::Avg, col("v")),
            // an aggregate over a grouping column: it keeps seeing the real values
            // in the sets where the column is absent
            _ => Expr::agg([AggF::Count, AggF::Max, AggF::Min][t.pick(3)], col(cols[t.pick(cols.len())])),
        };
        if i == 0 {
            // the first aggregate is always COUNT(*) so that every expansion branch is an aggregate query
            items.push(Item::Expr(Expr::count_star(), Some("n".into())));
        }
        items.push(Item::Expr(e, Some(format!("a{}", i))));
    }
    let ng = t.pick(3);
    for i in 0..ng {
        let n = 1 + t.pick(cols.len());
        let mut pool: Vec<&str> = cols.clone();
        let mut args = vec![];
        for _ in 0..n {
            let j = t.pick(pool.len());
            args.push(col(pool.remove(j)));
        }
        feats.insert(format!("grouping_args{}", n));
        items.push(Item::Expr(Expr::Grouping(args), Some(format!("gr{}", i))));
    }
    let where_ = if t.chance(25) {
        feats.insert("where".into());
        Some(match t.pick(3) {
            0 => Expr::bin(col("v"), BinOp::Ge, Expr::int(t.pick(5) as i64)),
            1 => Expr::bin(col("a"), BinOp::Ne, Expr::int(t.pick(3) as i64)),
            _ => Expr::bin(col("v"), BinOp::Lt, Expr::int(0)),
        })
    } else {
        None
    };
    // data facts for the rule
    let used_idx: Vec<usize> = cols.iter().map(|c| table.col_index(c).unwrap()).collect();
    if table.rows.iter().any(|r| used_idx.iter().any(|i| r[*i].is_null())) {
        feats.insert("null_in_grouping_column".into());
    }
    let n = table.rows.len();
    let q = Query::select(Select { distinct: false, items, from: vec![From::Table { name: "g".into(), alias: None }], where_, group, having: None });
    SqlCase { tables: vec![table], query: q, cuts: vec![cuts.iter().map(|c| c % (n + 1)).collect()], features: feats.into_iter().collect() }
}

/// Own expansion of the GROUP BY item into grouping sets (independent of refsql's).
fn expand_sets(g: &Group) -> Vec<Vec<Expr>> {
    match g {
        Group::Sets(s) => s.clone(),
        Group::Rollup(v) => {
            // (c1..cn), (c1..cn-1), …, (c1), ()
            let mut out = vec![];
            let mut k = v.len() as i64;
            while k >= 0 {
                out.push(v[..k as usize].to_vec());
                k -= 1;
            }
            out
        }
        Group::Cube(v) => {
            // every subset
            let n = v.len();
            (0..(1usize << n)).map(|m| v.iter().enumerate().filter(|(i, _)| m >> i & 1 == 1).map(|(_, e)| e.clone()).collect()).collect()
        }
        Group::By(v) => vec![v.clone()],
        Group::None => vec![vec![]],
    }
}

/// One plain GROUP BY statement per grouping set.
fn expansion(q: &Query) -> Option<Vec<Query>> {
    let s = match &q.body {
        SetExpr::Select(s) => s,
        _ => return None,
    };
    let sets = expand_sets(&s.group);
    let mut out = vec![];
    for set in sets {
        let items: Vec<Item> = s
            .items
            .iter()
            .map(|it| match it {
                Item::Expr(Expr::Grouping(args), a) => {
                    // standard bitmask: leftmost argument = most significant bit; 1 = not grouped
                    let mut m = 0i64;
                    for x in args {
                        m = m * 2 + if set.contains(x) { 0 } else { 1 };
                    }
                    Item::Expr(Expr::int(m), a.clone())
                }
                Item::Expr(e @ Expr::Col { .. }, a) => {
                    if set.contains(e) {
                        Item::Expr(e.clone(), a.clone())
                    } else {
                        Item::Expr(Expr::Lit(Value::Null), a.clone())
                    }
                }
                other => other.clone(),
            })
            .collect();
        // duplicates inside one set do not matter for GROUP BY
        let mut keys: Vec<Expr> = vec![];
        for e in &set {
            if !keys.contains(e) {
                keys.push(e.clone());
            }
        }
        let group = if keys.is_empty() { Group::None } else { Group::By(keys) };
        out.push(Query::select(Select { distinct: false, items, from: s.from.clone(), where_: s.where_.clone(), group, having: None }));
    }
    Some(out)
}

fn classify(c: &SqlCase, ev: &BTreeSet<&'static str>, msg: &str) -> Option<&'static str> {
    match classify_sql(c, ev, msg) {
        Some(id @ ("agg-null-group-key" | "agg-empty-input")) => Some(id),
        _ => None,
    }
}

struct GroupingSets;

impl Check for GroupingSets {
    type Case = SqlCase;
    fn name(&self) -> &'static str {
        "grouping_sets"
    }
    fn rule(&self) -> &'static str {
        "a grouping column used by the statement is NULL in some input row (NULL-because-absent and NULL-group coexist), the statement has >= 2 distinct grouping sets, and the engine answered"
    }
    fn cases(&self, tier: Tier) -> u32 {
        tier.pick(500, 30_000)
    }
    fn max_shrink_iters(&self) -> u32 {
        // (every grouping set is one aggregate pipeline in the engine: ~0.1 s per branch)
        300
    }
    fn strategy(&self, tier: Tier) -> BoxedStrategy<SqlCase> {
        let max_rows = tier.pick(12, 30);
        (table_strategy(max_rows), proptest::collection::vec(any::<u16>(), 10..80), proptest::collection::vec(0usize..31, 0..3)).prop_map(|(t, tape, cuts)| gen_case(t, tape, cuts)).boxed()
    }
    fn test(&self, c: &SqlCase, obs: &mut Obs) -> Verdict {
        // ---- oracle self-check: refsql's grouping sets == UNION ALL of refsql's plain GROUP BYs
        let direct = Db::new(&c.tables).run(&c.query);
        let mut distinct_sets = 0usize;
        if let (Ok(direct), Some(parts)) = (&direct, expansion(&c.query)) {
            let mut all: Rows = vec![];
            let mut ok = true;
            for p in &parts {
                match Db::new(&c.tables).run(p) {
                    Ok(a) => all.extend(a.rows),
                    Err(_) => ok = false,
                }
            }
            if ok && !multiset_eq(&all, &direct.rows, 1e-12) {
                return Verdict::Fail(format!(
                    "ORACLE SELF-CHECK: refsql's grouping-set answer differs from the UNION ALL of its plain GROUP BY answers (harness bug, not an engine defect)\n sql: {}\n direct:\n{} expanded:\n{}",
                    c.query.sql(),
                    fmt_rows(&direct.rows, 40),
                    fmt_rows(&all, 40)
                ));
            }
            obs.label("selfcheck_ok");
            if let SetExpr::Select(s) = &c.query.body {
                let mut seen: Vec<Vec<String>> = vec![];
                for set in expand_sets(&s.group) {
                    let mut k: Vec<String> = set.iter().map(|e| e.sql()).collect();
                    k.sort();
                    k.dedup();
                    if !seen.contains(&k) {
                        seen.push(k);
                    }
                }
                distinct_sets = seen.len();
            }
        }
        obs.label(format!("distinct_sets:{}", distinct_sets.min(8)));
        let out = judge(c, obs, 1e-9, classify);
        for e in &out.events {
            obs.label(format!("ev:{}", e));
        }
        obs.nontrivial(has(c, "null_in_grouping_column") && distinct_sets >= 2 && out.engine_rows.is_some());
        out.verdict
    }
}

pub fn property() -> Property {
    Property {
        id: "C27",
        level: "exploration",
        assumptions: &[
            "the reference evaluator's grouping-set semantics (refsql) are cross-checked on every case against this module's own expansion into plain GROUP BY statements evaluated by refsql's ordinary GROUP BY path (itself validated against SQLite)",
            "GROUPING() follows the standard bitmask: leftmost argument is the most significant bit, 1 = the column is not part of the row's grouping set",
            "an engine error is an allowed outcome (the binder supports one GROUPING SETS / ROLLUP / CUBE item, no HAVING, plain aggregates)",
        ],
        checks: vec![Box::new(GroupingSets)],
    }
}
