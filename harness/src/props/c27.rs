//! C27 — not implemented yet.
use super::Property;

pub fn property() -> Property {
    Property { id: "C27", level: "exploration", assumptions: &[], checks: vec![] }
}
