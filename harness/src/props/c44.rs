//! C44 — VALUES lists produce their rows.
//!
//! Generator (own, choice-tape): a VALUES list of 1–8 rows × 1–5 columns. Each
//! column has a kind — BIGINT, DOUBLE, mixed BIGINT/DOUBLE, VARCHAR (with an
//! embedded quote, the text 'NULL', a non-ASCII letter), BOOLEAN or all-NULL —
//! and a NULL density (0/25/50 %); a NULL is forced into the first row of some
//! column in a quarter of the cases (the binder infers the schema from the
//! first row only). The list is used
//!   direct      VALUES (…), (…)
//!   star        SELECT * FROM (VALUES …) AS v
//!   aliased     SELECT v.c2, v.c1 FROM (VALUES …) AS v(c1, c2, …)
//!   filtered    … WHERE <comparison / IS NULL / IN-list on a column>
//!   joined      … INNER/LEFT/RIGHT JOIN r ON v.ci = r.x   (r: a small generated table with NULLs)
//!   aggregated  COUNT(*) / COUNT(c) / SUM / MIN / MAX, global and GROUP BY c1
//!   cte         WITH w(c1, …) AS (VALUES …) SELECT … FROM w
//!   setop       VALUES … UNION ALL VALUES … , SELECT x FROM r UNION ALL VALUES …
//!   ordered     … ORDER BY c1 [DESC] [NULLS FIRST], … [LIMIT n]
//! The names of un-aliased VALUES columns are implementation-defined, so columns
//! are referenced only through names the statement itself defines, in one of
//! three ways: a derived-table column-alias list `AS v(c1, …)` (50 %), a CTE column
//! list `WITH v(c1, …)` (30 %) — both need the binder fix
//! `fix-derived-column-aliases.patch`, without it they are "Column not found"
//! errors (allowed) — or an empty first UNION ALL operand that carries the names:
//! `(SELECT 1 AS c1, 'n2' AS c2 FROM r WHERE 1 = 0 UNION ALL VALUES …) AS v` (20 %).
//!
//! Oracle: `refsql` (the listed rows; cross-checked against SQLite with the
//! `values` export profile, which uses the CTE / UNION forms for the names).
//! NT: the list has ≥ 2 rows and contains a NULL, and the engine answered.
//! Known finding `values-no-rows` (every VALUES list is lowered to an empty
//! relation) has a precise signature: the engine's answer equals the reference
//! answer of the same statement with every VALUES list emptied.
use super::Property;
use crate::data::*;
use crate::kf_sql::classify_sql;
use crate::runner::*;
use crate::sqlast::*;
use crate::sqlcheck::*;
use crate::sqlgen::{SqlCase, Tape};
use proptest::prelude::*;
use std::collections::BTreeSet;

#[derive(Clone, Copy, PartialEq, Eq, Debug)]
enum Kind {
    Int,
    Dbl,
    Mixed,
    Str,
    Bool,
    AllNull,
}

struct VList {
    rows: Vec<Vec<Expr>>,
    kinds: Vec<Kind>,
    names: Vec<String>,
}

fn cell(t: &mut Tape, k: Kind) -> Value {
    match k {
        Kind::Int => Value::Int([0, 1, 2, 3, -1, 7][t.pick(6)]),
        Kind::Dbl => Value::Double([0.5, 1.0, 1.5, -0.25, 2.25, 0.0][t.pick(6)]),
        Kind::Mixed => {
            if t.chance(50) {
                Value::Double([1.5, 0.5, 2.0, -0.75][t.pick(4)])
            } else {
                Value::Int([1, 2, 0, 3][t.pick(4)])
            }
        }
        Kind::Str => Value::Str(["a", "", "b", "a'b", "NULL", "é", "ab"][t.pick(7)].to_string()),
        Kind::Bool => Value::Bool(t.pick(2) == 0),
        Kind::AllNull => Value::Null,
    }
}

fn gen_list(t: &mut Tape, ncols: Option<&[Kind]>) -> VList {
    let nrows = 1 + t.pick(8);
    let kinds: Vec<Kind> = match ncols {
        Some(k) => k.to_vec(),
        None => {
            let n = 1 + t.pick(5);
            (0..n).map(|_| [Kind::Int, Kind::Str, Kind::Dbl, Kind::Mixed, Kind::Bool, Kind::Int, Kind::Str, Kind::AllNull][t.pick(8)]).collect()
        }
    };
    let pcts: Vec<u32> = kinds.iter().map(|_| [0, 25, 50][t.pick(3)]).collect();
    let mut rows = vec![];
    for _ in 0..nrows {
        let row: Vec<Expr> = kinds
            .iter()
            .zip(&pcts)
            .map(|(k, p)| {
                let v = cell(t, *k);
                Expr::Lit(if t.chance(*p) { Value::Null } else { v })
            })
            .collect();
        rows.push(row);
    }
    if t.chance(25) {
        let c = t.pick(kinds.len());
        rows[0][c] = Expr::Lit(Value::Null);
    }
    let names = (1..=kinds.len()).map(|i| format!("c{}", i)).collect();
    VList { rows, kinds, names }
}

fn gen_r(t: &mut Tape) -> Table {
    let n = t.pick(7);
    let rows = (0..n)
        .map(|_| {
            let x = if t.chance(20) { Value::Null } else { Value::Int(t.pick(4) as i64) };
            let y = if t.chance(20) { Value::Null } else { Value::Str(["a", "b", "", "ab"][t.pick(4)].to_string()) };
            let z = if t.chance(20) { Value::Null } else { Value::Double(t.pick(5) as f64 * 0.5) };
            let b = if t.chance(20) { Value::Null } else { Value::Bool(t.pick(2) == 0) };
            vec![x, y, z, b]
        })
        .collect();
    let c = |n: &str, ty| Column { name: n.into(), ty };
    Table { name: "r".into(), cols: vec![c("x", ColType::Int), c("y", ColType::Str), c("z", ColType::Double), c("b", ColType::Bool)], rows }
}

/// How the columns of the VALUES list get their names `c1, c2, …`.
#[derive(Clone, Copy, PartialEq, Eq, Debug)]
enum Naming {
    /// `(VALUES …) AS v(c1, …)` — a derived-table column-alias list
    AliasList,
    /// `WITH v(c1, …) AS (VALUES …)`
    CteList,
    /// `(SELECT r.x AS c1, … FROM r WHERE 1 = 0 UNION ALL VALUES …) AS v` — the
    /// names (and nothing else) come from the empty first operand of the set operation
    UnionNamed,
}

/// The VALUES list as a named relation `v(c1, …)`.
fn source(l: &VList, naming: Naming) -> (Vec<Cte>, From) {
    let q = Query::of(SetExpr::Values(l.rows.clone()));
    match naming {
        Naming::CteList => (vec![Cte { name: "v".into(), cols: Some(l.names.clone()), q }], From::Table { name: "v".into(), alias: None }),
        Naming::AliasList => (vec![], From::Derived { q: Box::new(q), alias: "v".into(), cols: Some(l.names.clone()) }),
        Naming::UnionNamed => {
            let items: Vec<Item> = l
                .kinds
                .iter()
                .zip(&l.names)
                .enumerate()
                .map(|(ci, (_k, n))| {
                    // the naming operand's column has exactly the type the list's column
                    // gets (UNION ALL of BIGINT with DOUBLE is a different property's business)
                    let cells: Vec<&Value> = l.rows.iter().filter_map(|r| if let Expr::Lit(v) = &r[ci] { Some(v) } else { None }).collect();
                    // a distinct typed constant per column (the operand is empty, so its
                    // value never shows; a repeated source column loses its alias in the engine)
                    let k = ci as i64 + 1;
                    let e = if cells.iter().any(|v| matches!(v, Value::Double(_))) {
                        Expr::Lit(Value::Double(k as f64 + 0.5))
                    } else if cells.iter().any(|v| matches!(v, Value::Int(_))) {
                        Expr::int(k)
                    } else if cells.iter().any(|v| matches!(v, Value::Bool(_))) {
                        Expr::bin(Expr::int(1), BinOp::Eq, Expr::int(k))
                    } else {
                        Expr::Lit(Value::Str(format!("n{}", k)))
                    };
                    Item::Expr(e, Some(n.clone()))
                })
                .collect();
            let never = Expr::bin(Expr::int(1), BinOp::Eq, Expr::int(0));
            let names = Select::simple(items, vec![From::Table { name: "r".into(), alias: None }], Some(never));
            let u = SetExpr::Op { op: SetOp::Union, all: true, l: Box::new(SetExpr::Select(Box::new(names))), r: Box::new(SetExpr::Values(l.rows.clone())) };
            (vec![], From::Derived { q: Box::new(Query::of(u)), alias: "v".into(), cols: None })
        }
    }
}

fn vcol(n: &str) -> Expr {
    Expr::qcol("v", n)
}

fn lit_for(t: &mut Tape, k: Kind) -> Expr {
    match k {
        Kind::AllNull => Expr::int(1),
        k => Expr::Lit(cell(t, k)),
    }
}

fn predicate(t: &mut Tape, l: &VList) -> Expr {
    let c = t.pick(l.kinds.len());
    let (k, col) = (l.kinds[c], vcol(&l.names[c]));
    match t.pick(5) {
        0 => Expr::IsNull { e: Box::new(col), neg: t.chance(50) },
        1 if k != Kind::Bool && k != Kind::AllNull => {
            let n = 1 + t.pick(3);
            let list = (0..n).map(|_| lit_for(t, k)).collect();
            Expr::InList { e: Box::new(col), list, neg: t.chance(40) }
        }
        _ if k == Kind::Bool => col,
        _ if k == Kind::AllNull => Expr::IsNull { e: Box::new(col), neg: t.chance(50) },
        _ => {
            let op = [BinOp::Eq, BinOp::Ne, BinOp::Lt, BinOp::Ge][t.pick(4)];
            Expr::bin(col, op, lit_for(t, k))
        }
    }
}

pub fn gen_values(tape: Vec<u16>, cuts: Vec<usize>, sqlite_friendly: bool) -> SqlCase {
    let mut t = Tape::new(tape);
    let r = gen_r(&mut t);
    let l = gen_list(&mut t, None);
    let mut feats: BTreeSet<String> = BTreeSet::new();
    // Three ways to name the columns. Column-alias lists on derived tables / CTEs need
    // the binder fix `fix-derived-column-aliases.patch` (without it: "Column not found",
    // an allowed error); the UNION-ALL naming works without alias lists but the engine
    // often fails to resolve the names above a UNION whose operands name their columns
    // differently (also an error).
    let naming = match (sqlite_friendly, t.pick(10)) {
        (true, 0..=4) => Naming::CteList,
        (true, _) => Naming::UnionNamed,
        (false, 0..=4) => Naming::AliasList,
        (false, 5 | 6 | 7) => Naming::CteList,
        (false, _) => Naming::UnionNamed,
    };
    let all_items = |l: &VList| -> Vec<Item> { l.names.iter().map(|n| Item::Expr(vcol(n), Some(n.clone()))).collect() };
    let num_col = |l: &VList| l.kinds.iter().position(|k| matches!(k, Kind::Int | Kind::Dbl | Kind::Mixed));
    let mut use_kind = t.pick(10);
    if sqlite_friendly && use_kind == 2 {
        use_kind = 7;
    }
    let mut q = match use_kind {
        0 => {
            feats.insert("use_direct".into());
            Query::of(SetExpr::Values(l.rows.clone()))
        }
        1 => {
            feats.insert("use_star".into());
            let f = From::Derived { q: Box::new(Query::of(SetExpr::Values(l.rows.clone()))), alias: "v".into(), cols: None };
            Query::select(Select::simple(vec![Item::Star], vec![f], None))
        }
        2 | 7 => {
            let naming = if use_kind == 7 { Naming::CteList } else { naming };
            feats.insert("use_projected".into());
            let (with, f) = source(&l, naming);
            feats.insert(format!("naming_{:?}", naming).to_lowercase());
            // a reordered, possibly repeated, subset of the columns
            let n = 1 + t.pick(l.names.len() + 1);
            let items: Vec<Item> = (0..n)
                .map(|i| {
                    let c = t.pick(l.names.len());
                    Item::Expr(vcol(&l.names[c]), Some(format!("o{}", i)))
                })
                .collect();
            let w = if t.chance(30) { Some(predicate(&mut t, &l)) } else { None };
            let mut q = Query::select(Select::simple(items, vec![f], w));
            q.with = with;
            q
        }
        3 => {
            feats.insert("use_filtered".into());
            let (with, f) = source(&l, naming);
            feats.insert(format!("naming_{:?}", naming).to_lowercase());
            let mut w = predicate(&mut t, &l);
            if t.chance(30) {
                let w2 = predicate(&mut t, &l);
                w = Expr::bin(w, if t.chance(50) { BinOp::And } else { BinOp::Or }, w2);
            }
            let mut q = Query::select(Select::simple(all_items(&l), vec![f], Some(w)));
            q.with = with;
            q
        }
        4 => {
            let (with, f) = source(&l, naming);
            feats.insert(format!("naming_{:?}", naming).to_lowercase());
            let rt = From::Table { name: "r".into(), alias: None };
            // join key: an integer column with r.x, else a string column with r.y, else a constant condition
            let on = if let Some(c) = l.kinds.iter().position(|k| *k == Kind::Int) {
                Expr::eq(vcol(&l.names[c]), Expr::qcol("r", "x"))
            } else if let Some(c) = l.kinds.iter().position(|k| *k == Kind::Str) {
                Expr::eq(vcol(&l.names[c]), Expr::qcol("r", "y"))
            } else {
                Expr::bin(Expr::qcol("r", "x"), BinOp::Ge, Expr::int(1))
            };
            let kind = [JoinKind::Inner, JoinKind::Left, JoinKind::Right][t.pick(3)];
            feats.insert(format!("use_join_{:?}", kind).to_lowercase());
            let (lf, rf) = if t.chance(50) { (f, rt) } else { (rt, f) };
            let j = From::Join { l: Box::new(lf), r: Box::new(rf), kind, on: Some(on) };
            let mut items = all_items(&l);
            items.push(Item::Expr(Expr::qcol("r", "x"), Some("x".into())));
            items.push(Item::Expr(Expr::qcol("r", "y"), Some("y".into())));
            let mut q = Query::select(Select::simple(items, vec![j], None));
            q.with = with;
            q
        }
        5 | 6 => {
            let grouped = use_kind == 6;
            feats.insert(if grouped { "use_group_by".into() } else { "use_global_agg".into() });
            let (with, f) = source(&l, naming);
            feats.insert(format!("naming_{:?}", naming).to_lowercase());
            let mut items: Vec<Item> = vec![];
            let mut group = Group::None;
            if grouped {
                let mut c = t.pick(l.names.len());
                // (a NULL grouping key is the open finding agg-null-group-key: mostly
                // group by a column without NULLs when there is one)
                let null_free: Vec<usize> = (0..l.names.len()).filter(|ci| l.rows.iter().all(|r| !matches!(r[*ci], Expr::Lit(Value::Null)))).collect();
                if !null_free.is_empty() && !t.chance(15) {
                    c = null_free[t.pick(null_free.len())];
                }
                items.push(Item::Expr(vcol(&l.names[c]), Some("k".into())));
                group = Group::By(vec![vcol(&l.names[c])]);
            }
            items.push(Item::Expr(Expr::count_star(), Some("n".into())));
            let c = t.pick(l.names.len());
            items.push(Item::Expr(Expr::agg(AggF::Count, vcol(&l.names[c])), Some("nc".into())));
            if let Some(c) = num_col(&l) {
                // (a grouped SUM over a column qualified by a derived-table alias is an open
                // finding — NULL sums, also over ordinary derived tables — so grouped uses
                // take SUM rarely)
                let f = if grouped && !t.chance(12) { [AggF::Min, AggF::Max, AggF::Avg][t.pick(3)] } else { [AggF::Sum, AggF::Min, AggF::Max, AggF::Avg][t.pick(4)] };
                items.push(Item::Expr(Expr::agg(f, vcol(&l.names[c])), Some("a".into())));
            }
            if let Some(c) = l.kinds.iter().position(|k| *k == Kind::Str) {
                if t.chance(40) {
                    let f = [AggF::Min, AggF::Max][t.pick(2)];
                    items.push(Item::Expr(Expr::agg(f, vcol(&l.names[c])), Some("m".into())));
                }
            }
            let w = if t.chance(25) { Some(predicate(&mut t, &l)) } else { None };
            let mut q = Query::select(Select { distinct: false, items, from: vec![f], where_: w, group, having: None });
            q.with = with;
            q
        }
        8 => {
            // set operation between two lists of the same shape, or a table and a list
            if t.chance(35) {
                feats.insert("use_setop_table".into());
                let l2 = gen_list(&mut t, Some(&[Kind::Int, Kind::Str]));
                let sel = Select::simple(vec![Item::Expr(Expr::qcol("r", "x"), Some("x".into())), Item::Expr(Expr::qcol("r", "y"), Some("y".into()))], vec![From::Table { name: "r".into(), alias: None }], None);
                let (a, b) = (SetExpr::Select(Box::new(sel)), SetExpr::Values(l2.rows.clone()));
                let (a, b) = if t.chance(50) { (a, b) } else { (b, a) };
                Query::of(SetExpr::Op { op: SetOp::Union, all: true, l: Box::new(a), r: Box::new(b) })
            } else {
                feats.insert("use_setop_values".into());
                let kinds: Vec<Kind> = l.kinds.iter().map(|k| if *k == Kind::AllNull { Kind::Int } else { *k }).collect();
                let l1 = gen_list(&mut t, Some(&kinds));
                let l2 = gen_list(&mut t, Some(&kinds));
                Query::of(SetExpr::Op { op: SetOp::Union, all: true, l: Box::new(SetExpr::Values(l1.rows.clone())), r: Box::new(SetExpr::Values(l2.rows.clone())) })
            }
        }
        _ => {
            feats.insert("use_ordered".into());
            let (with, f) = source(&l, naming);
            feats.insert(format!("naming_{:?}", naming).to_lowercase());
            let mut q = Query::select(Select::simple(all_items(&l), vec![f], None));
            q.with = with;
            let nk = 1 + t.pick(l.names.len().min(2));
            let mut used = vec![];
            for _ in 0..nk {
                let c = t.pick(l.names.len());
                if used.contains(&c) || l.kinds[c] == Kind::AllNull {
                    continue;
                }
                used.push(c);
                let nulls_first = if t.chance(40) { Some(t.chance(50)) } else { None };
                q.order_by.push(OrderKey { e: Expr::col(&l.names[c]), desc: t.chance(40), nulls_first });
            }
            if !q.order_by.is_empty() && t.chance(40) {
                q.limit = Some(t.pick(5) as u64);
            }
            q
        }
    };
    let _ = &mut q;
    let nulls = l.rows.iter().flatten().filter(|e| matches!(e, Expr::Lit(Value::Null))).count();
    if l.rows.len() >= 2 {
        feats.insert("rows_ge2".into());
    }
    if nulls > 0 {
        feats.insert("has_null".into());
    }
    if l.rows[0].iter().any(|e| matches!(e, Expr::Lit(Value::Null))) {
        feats.insert("null_in_first_row".into());
    }
    for k in &l.kinds {
        feats.insert(format!("col_{:?}", k).to_lowercase());
    }
    let n = r.rows.len();
    SqlCase { tables: vec![r], query: q, cuts: vec![cuts.iter().map(|c| c % (n + 1)).collect()], features: feats.into_iter().collect() }
}

fn strategy(_tier: Tier) -> BoxedStrategy<SqlCase> {
    (proptest::collection::vec(any::<u16>(), 60..200), proptest::collection::vec(0usize..8, 0..2)).prop_map(|(tape, cuts)| gen_values(tape, cuts, false)).boxed()
}

/// SQLite cross-check profile (`check --export values …`): column aliases through the CTE form
pub fn export_strategy() -> BoxedStrategy<SqlCase> {
    (proptest::collection::vec(any::<u16>(), 60..200), proptest::collection::vec(0usize..8, 0..2)).prop_map(|(tape, cuts)| gen_values(tape, cuts, true)).boxed()
}

fn nontrivial(c: &SqlCase, o: &SqlOutcome) -> bool {
    has(c, "rows_ge2") && has(c, "has_null") && o.engine_rows.is_some()
}

fn classify(c: &SqlCase, ev: &BTreeSet<&'static str>, msg: &str) -> Option<&'static str> {
    // (values-no-rows is decided in `ValuesRows::test`, which can see the engine's rows)
    // grouped SUM(<alias>.<column>) over a derived table / CTE returns NULL sums
    if has(c, "use_group_by") {
        let mut sum_qualified = false;
        crate::kf_sql::walk_query_exprs(&c.query, &mut |e| {
            if let Expr::Agg { f: AggF::Sum, arg: Some(a), .. } = e {
                if matches!(&**a, Expr::Col { rel: Some(_), .. }) {
                    sum_qualified = true;
                }
            }
        });
        if sum_qualified {
            return Some("agg-sum-qualified-derived-column");
        }
    }
    // shared aggregate findings reachable through the aggregated uses
    match classify_sql(c, ev, msg) {
        Some(id @ ("agg-empty-input" | "agg-null-group-key")) => Some(id),
        _ => None,
    }
}

/// The statement with every VALUES list emptied (`SELECT <first row> WHERE 1 = 0`,
/// same width): what an engine that lowers VALUES to an empty relation computes.
fn empty_values(q: &Query) -> Query {
    fn set(s: &SetExpr) -> SetExpr {
        match s {
            SetExpr::Values(rows) => {
                let items = rows.first().map(|r| r.iter().enumerate().map(|(i, e)| Item::Expr(e.clone(), Some(format!("column{}", i + 1)))).collect()).unwrap_or_default();
                SetExpr::Select(Box::new(Select::simple(items, vec![], Some(Expr::bin(Expr::int(1), BinOp::Eq, Expr::int(0))))))
            }
            SetExpr::Select(sel) => {
                let mut sel = (**sel).clone();
                sel.from = sel.from.iter().map(from).collect();
                SetExpr::Select(Box::new(sel))
            }
            SetExpr::Op { op, all, l, r } => SetExpr::Op { op: *op, all: *all, l: Box::new(set(l)), r: Box::new(set(r)) },
            SetExpr::Nested(q) => SetExpr::Nested(Box::new(empty_values(q))),
        }
    }
    fn from(f: &From) -> From {
        match f {
            From::Table { .. } => f.clone(),
            From::Derived { q, alias, cols } => From::Derived { q: Box::new(empty_values(q)), alias: alias.clone(), cols: cols.clone() },
            From::Join { l, r, kind, on } => From::Join { l: Box::new(from(l)), r: Box::new(from(r)), kind: *kind, on: on.clone() },
        }
    }
    let mut out = q.clone();
    out.with = q.with.iter().map(|c| Cte { name: c.name.clone(), cols: c.cols.clone(), q: empty_values(&c.q) }).collect();
    out.body = set(&q.body);
    out
}

struct ValuesRows;

impl Check for ValuesRows {
    type Case = SqlCase;
    fn name(&self) -> &'static str {
        "values_rows"
    }
    fn rule(&self) -> &'static str {
        "the VALUES list has >= 2 rows and contains a NULL, and the engine answered"
    }
    fn cases(&self, tier: Tier) -> u32 {
        tier.pick(1500, 50_000)
    }
    fn max_shrink_iters(&self) -> u32 {
        1500
    }
    fn strategy(&self, tier: Tier) -> BoxedStrategy<SqlCase> {
        strategy(tier)
    }
    fn test(&self, c: &SqlCase, obs: &mut Obs) -> Verdict {
        let out = judge(c, obs, 1e-9, classify);
        obs.nontrivial(nontrivial(c, &out));
        match out.verdict {
            Verdict::Fail(msg) => {
                // open finding values-no-rows: the physical planner lowers every VALUES list
                // to an empty relation. Precise signature: the engine's answer is exactly the
                // answer of the same statement with every VALUES list emptied.
                let emptied = empty_values(&c.query);
                if let Ok(r2) = crate::refsql::Db::new(&c.tables).run(&emptied) {
                    if let Ok(got) = crate::engine::run_sql(&mem_context(c), &c.query.sql()) {
                        if crate::refsql::compare_answer(&r2, &got, 1e-9).is_ok() {
                            return Verdict::Known { id: "values-no-rows".into(), msg };
                        }
                    }
                }
                Verdict::Fail(msg)
            }
            v => v,
        }
    }
}

pub fn property() -> Property {
    Property {
        id: "C44",
        level: "exploration",
        assumptions: &[
            "the reference evaluator refsql lists the VALUES rows as written (cross-checked against SQLite with the `values` export profile)",
            "names of un-aliased VALUES columns are implementation-defined: columns are referenced only through an explicit column-alias list",
            "an engine error is an allowed outcome (the property forbids wrong rows, e.g. zero rows)",
        ],
        checks: vec![Box::new(ValuesRows)],
    }
}
