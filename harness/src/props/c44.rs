//! C44 — not implemented yet.
use super::Property;

pub fn property() -> Property {
    Property { id: "C44", level: "exploration", assumptions: &[], checks: vec![] }
}
