//! C26 — not implemented yet.
use super::Property;

pub fn property() -> Property {
    Property { id: "C26", level: "exploration", assumptions: &[], checks: vec![] }
}
