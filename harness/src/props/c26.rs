//! C26 — Window functions match their SQL definition.
//!
//! Generator (own): one table `w(id, p1, p2, k1, k2, k3, k4, x, y, s)` —
//! `id` BIGINT unique/non-NULL (the tiebreak key), partition columns `p1`
//! BIGINT ∈ {0,1,2,NULL}, `p2` VARCHAR ∈ {'a','b',NULL}, order keys `k1` BIGINT
//! ∈ {0..3,NULL}, `k2` DOUBLE (multiples of 0.25, NULL), `k3` DATE, `k4` VARCHAR,
//! value columns `x` BIGINT, `y` DOUBLE, `s` VARCHAR (all nullable) — with
//! 0–14 rows (thorough: 0–40), random batch layout. A statement projects `id`
//! and 1–3 window calls (sometimes sharing one window specification, sometimes
//! nested in an expression: `win + 1`, `COALESCE(win, 0)`, `x - win`, `CASE WHEN win = 1 …`),
//! optionally after a WHERE on `id`. Calls: ROW_NUMBER, RANK, DENSE_RANK,
//! PERCENT_RANK, CUME_DIST, NTILE(n), LAG/LEAD(v[,k[,default]]),
//! FIRST/LAST/NTH_VALUE, COUNT(*)/COUNT/SUM/AVG/MIN/MAX OVER; PARTITION BY 0–2
//! columns; ORDER BY 0–3 keys (ASC/DESC, NULLS FIRST/LAST); ROWS frames with
//! every standard-valid bound combination (including empty frames such as
//! `2 FOLLOWING AND 1 FOLLOWING`); RANGE frames over UNBOUNDED / CURRENT ROW and
//! numeric offsets over exactly one BIGINT / DOUBLE / DATE key.
//!
//! Uniqueness of the SQL answer by construction: a function whose value depends
//! on the order inside a peer group (ROW_NUMBER, NTILE, LAG/LEAD, anything with a
//! ROWS frame, FIRST/LAST/NTH_VALUE) gets `id` appended to its ORDER BY — except
//! value functions whose argument is itself the (single) order key, which keep
//! real ties; peer-based functions (RANK, DENSE_RANK, PERCENT_RANK, CUME_DIST,
//! RANGE-framed / default-framed aggregates) are generated with real ties.
//!
//! Oracle: `refsql`'s O(n²) window evaluator, validated against SQLite 3.40
//! (`check --export windows …` + tools/sqlite_crosscheck.py). AVG / PERCENT_RANK /
//! CUME_DIST compare with relative tolerance 1e-9, everything else exactly.
//! NT: some call has a partition with ≥ 2 peer groups one of which has ≥ 2 rows,
//! or an empty frame, or a NULL order key — and the engine answered.
use super::Property;
use crate::data::*;
use crate::runner::*;
use crate::sqlast::*;
use crate::sqlcheck::*;
use crate::sqlgen::{SqlCase, Tape};
use proptest::prelude::*;
use std::collections::BTreeSet;

const D0: i32 = 10957;

fn nullable(s: BoxedStrategy<Value>, pct: u32) -> BoxedStrategy<Value> {
    prop_oneof![pct => Just(Value::Null), (100 - pct) => s].boxed()
}

fn table_strategy(max_rows: usize) -> BoxedStrategy<Table> {
    // per-table NULL density so NULL-free tables occur too
    (prop_oneof![Just(0u32), Just(15u32), Just(35u32)], any::<bool>()).prop_flat_map(move |(pct, null_parts)| {
        let ppct = if null_parts { pct } else { 0 };
        let int = |n: i64| (0..n).prop_map(Value::Int).boxed();
        let row = (
            nullable(int(3), ppct.max(1)),
            nullable(prop_oneof![Just("a"), Just("b")].prop_map(|s| Value::Str(s.to_string())).boxed(), ppct.max(1)),
            nullable(int(4), pct.max(1)),
            nullable((-2i64..5).prop_map(|k| Value::Double(k as f64 * 0.25)).boxed(), pct.max(1)),
            nullable((0i32..4).prop_map(|d| Value::Date(D0 + d * 10)).boxed(), pct.max(1)),
            nullable(prop_oneof![Just("a"), Just("b"), Just(""), Just("ab")].prop_map(|s| Value::Str(s.to_string())).boxed(), pct.max(1)),
            nullable((-1i64..5).prop_map(Value::Int).boxed(), pct.max(1)),
            nullable((-4i64..9).prop_map(|k| Value::Double(k as f64 * 0.25)).boxed(), pct.max(1)),
            nullable(prop_oneof![Just("u"), Just("v"), Just(""), Just("uv")].prop_map(|s| Value::Str(s.to_string())).boxed(), pct.max(1)),
        );
        proptest::collection::vec(row, 0..=max_rows).prop_map(move |rows| {
            let mut out = vec![];
            for (i, (p1, p2, k1, k2, k3, k4, x, y, s)) in rows.into_iter().enumerate() {
                // with pct == 0 the `max(1)` above still allows a rare NULL: drop it
                let z = |v: Value, keep: bool, dflt: Value| if !keep && v.is_null() { dflt } else { v };
                out.push(vec![
                    Value::Int(i as i64 + 1),
                    z(p1, ppct > 0, Value::Int(0)),
                    z(p2, ppct > 0, Value::Str("a".into())),
                    z(k1, pct > 0, Value::Int(1)),
                    z(k2, pct > 0, Value::Double(0.5)),
                    z(k3, pct > 0, Value::Date(D0)),
                    z(k4, pct > 0, Value::Str("a".into())),
                    z(x, pct > 0, Value::Int(2)),
                    z(y, pct > 0, Value::Double(1.25)),
                    z(s, pct > 0, Value::Str("u".into())),
                ]);
            }
            let c = |n: &str, ty| Column { name: n.to_string(), ty };
            Table {
                name: "w".into(),
                cols: vec![
                    c("id", ColType::Int),
                    c("p1", ColType::Int),
                    c("p2", ColType::Str),
                    c("k1", ColType::Int),
                    c("k2", ColType::Double),
                    c("k3", ColType::Date),
                    c("k4", ColType::Str),
                    c("x", ColType::Int),
                    c("y", ColType::Double),
                    c("s", ColType::Str),
                ],
                rows: out,
            }
        })
    })
    .boxed()
}

fn col(n: &str) -> Expr {
    Expr::qcol("w", n)
}

struct G {
    t: Tape,
    sqlite: bool,
    feats: BTreeSet<String>,
}

#[derive(Clone, Copy, PartialEq, Eq, Debug)]
enum RTy {
    Int,
    Dbl,
    Other,
}

impl G {
    fn feat(&mut self, f: &str) {
        self.feats.insert(f.to_string());
    }

    fn order_key(&mut self, name: &str) -> OrderKey {
        let desc = self.t.chance(40);
        let nulls_first = if self.t.chance(45) { Some(self.t.chance(50)) } else { None };
        OrderKey { e: col(name), desc, nulls_first }
    }

    fn bound_k(&mut self) -> i64 {
        [1, 0, 2, 3][self.t.pick(4)]
    }

    /// standard-valid (start, end) pair for ROWS / RANGE-offset frames
    fn bounds(&mut self, allow_offsets: bool) -> (Bound, Bound) {
        loop {
            let start = match self.t.pick(4) {
                0 => Bound::UnboundedPreceding,
                1 => Bound::CurrentRow,
                2 if allow_offsets => Bound::Preceding(self.bound_k()),
                3 if allow_offsets => Bound::Following(self.bound_k()),
                _ => Bound::UnboundedPreceding,
            };
            let end = match self.t.pick(4) {
                0 => Bound::CurrentRow,
                1 => Bound::UnboundedFollowing,
                2 if allow_offsets => Bound::Following(self.bound_k()),
                3 if allow_offsets => Bound::Preceding(self.bound_k()),
                _ => Bound::CurrentRow,
            };
            let rank = |b: &Bound| match b {
                Bound::UnboundedPreceding => 0,
                Bound::Preceding(_) => 1,
                Bound::CurrentRow => 2,
                Bound::Following(_) => 3,
                Bound::UnboundedFollowing => 4,
            };
            // the end bound must not be of a kind that precedes the start bound's kind
            if rank(&end) >= rank(&start) {
                return (start, end);
            }
            if self.t.exhausted() {
                return (Bound::UnboundedPreceding, Bound::CurrentRow);
            }
        }
    }

    /// One window call; returns (call, result type class)
    fn call(&mut self, shared: Option<&(Vec<Expr>, Vec<OrderKey>)>) -> (WindowCall, RTy) {
        let f = [
            WinF::RowNumber,
            WinF::Rank,
            WinF::DenseRank,
            WinF::Sum,
            WinF::Count,
            WinF::Lag,
            WinF::Lead,
            WinF::FirstValue,
            WinF::LastValue,
            WinF::NthValue,
            WinF::Min,
            WinF::Max,
            WinF::Avg,
            WinF::Ntile,
            WinF::PercentRank,
            WinF::CumeDist,
        ][self.t.pick(16)];
        self.feat(&format!("fn_{}", f.sql().to_lowercase()));

        // partition / order (possibly shared with the previous call)
        let (partition, mut order): (Vec<Expr>, Vec<OrderKey>) = match shared {
            Some((p, o)) => (p.clone(), o.clone()),
            None => {
                let np = self.t.pick(3);
                let mut partition = vec![];
                for n in ["p1", "p2"].iter().take(np) {
                    partition.push(col(n));
                }
                if np == 1 && self.t.chance(40) {
                    partition = vec![col("p2")];
                }
                let nk = self.t.pick(4);
                let mut order = vec![];
                let mut used: Vec<&str> = vec![];
                for _ in 0..nk {
                    let n = ["k1", "k2", "k3", "k4", "x"][self.t.pick(5)];
                    if used.contains(&n) {
                        continue;
                    }
                    used.push(n);
                    order.push(self.order_key(n));
                }
                (partition, order)
            }
        };
        self.feat(&format!("partition_by{}", partition.len()));

        // arguments
        let val_cols = [("x", RTy::Int), ("y", RTy::Dbl), ("s", RTy::Other), ("k1", RTy::Int), ("k3", RTy::Other)];
        let mut args: Vec<Expr> = vec![];
        let mut rty = RTy::Other;
        let mut arg_is_order_key = false;
        match f {
            WinF::RowNumber | WinF::Rank | WinF::DenseRank => rty = RTy::Int,
            WinF::PercentRank | WinF::CumeDist => rty = RTy::Dbl,
            WinF::Ntile => {
                args.push(Expr::int(1 + self.t.pick(5) as i64));
                rty = RTy::Int;
            }
            WinF::Count => {
                if !self.t.chance(50) {
                    let (n, _) = val_cols[self.t.pick(3)];
                    args.push(col(n));
                }
                rty = RTy::Int;
            }
            WinF::Sum | WinF::Avg => {
                let (n, ty) = val_cols[self.t.pick(2)];
                args.push(col(n));
                rty = if f == WinF::Avg { RTy::Dbl } else { ty };
            }
            WinF::Min | WinF::Max => {
                let (n, ty) = val_cols[self.t.pick(5)];
                args.push(col(n));
                rty = ty;
            }
            WinF::Lag | WinF::Lead => {
                let (n, ty) = val_cols[self.t.pick(3)];
                args.push(col(n));
                rty = ty;
                if self.t.chance(60) {
                    args.push(Expr::int(self.t.pick(4) as i64));
                    if self.t.chance(50) {
                        self.feat("lag_lead_default");
                        args.push(match ty {
                            RTy::Int => {
                                if self.t.chance(30) {
                                    col("k1")
                                } else {
                                    Expr::int(-7)
                                }
                            }
                            RTy::Dbl => Expr::Lit(Value::Double(9.5)),
                            RTy::Other => Expr::Lit(Value::Str("dflt".into())),
                        });
                    }
                }
            }
            WinF::FirstValue | WinF::LastValue | WinF::NthValue => {
                // a quarter: argument = the single order key, keeping real ties
                if order.len() == 1 && self.t.chance(50) {
                    if let Expr::Col { name, .. } = &order[0].e {
                        args.push(col(name));
                        arg_is_order_key = true;
                        self.feat("value_fn_arg_is_order_key");
                    }
                }
                if args.is_empty() {
                    let (n, ty) = val_cols[self.t.pick(3)];
                    args.push(col(n));
                    rty = ty;
                }
                if f == WinF::NthValue {
                    args.push(Expr::int(1 + self.t.pick(4) as i64));
                }
            }
        }

        // frame
        let mut frame: Option<Frame> = None;
        if f.uses_frame() {
            match self.t.pick(10) {
                0 | 1 | 2 => {}
                3 | 4 | 5 | 6 => {
                    let (s, e) = self.bounds(true);
                    frame = Some(Frame { rows: true, start: s, end: e });
                }
                7 | 8 => {
                    let (s, e) = self.bounds(false);
                    frame = Some(Frame { rows: false, start: s, end: e });
                }
                _ => {
                    // RANGE with numeric offsets: exactly one numeric / date key
                    let key = if self.sqlite { ["k1", "k2", "x"][self.t.pick(3)] } else { ["k1", "k2", "k3", "x"][self.t.pick(4)] };
                    let k = self.order_key(key);
                    order = vec![k];
                    if arg_is_order_key {
                        args[0] = col(key);
                    }
                    let (s, e) = self.bounds(true);
                    frame = Some(Frame { rows: false, start: s, end: e });
                    self.feat("range_offset");
                    if key == "k3" {
                        self.feat("range_offset_date");
                    }
                }
            }
        }
        let range_offset = matches!(&frame, Some(Frame { rows: false, start, end }) if matches!(start, Bound::Preceding(_) | Bound::Following(_)) || matches!(end, Bound::Preceding(_) | Bound::Following(_)));
        let rows_frame = matches!(&frame, Some(Frame { rows: true, .. }));
        // open finding window-range-offset-null-keys: a RANGE offset bound paired with the
        // UNBOUNDED bound on the side where the NULL keys sort loses the NULL-key rows —
        // mostly steer the NULL placement to the other side
        if let Some(fr) = &frame {
            if let Some(side) = risky_null_side(fr) {
                if order.len() == 1 && order[0].nulls_first.unwrap_or(false) == side && !self.t.chance(30) {
                    order[0].nulls_first = Some(!side);
                }
            }
        }
        match &frame {
            None => self.feat("frame_default"),
            Some(fr) => {
                self.feat(if fr.rows { "frame_rows" } else { "frame_range" });
                let b = |b: &Bound| match b {
                    Bound::UnboundedPreceding => "up",
                    Bound::Preceding(_) => "p",
                    Bound::CurrentRow => "c",
                    Bound::Following(_) => "f",
                    Bound::UnboundedFollowing => "uf",
                };
                let l = format!("bounds_{}_{}_{}", if fr.rows { "rows" } else { "range" }, b(&fr.start), b(&fr.end));
                self.feat(&l);
            }
        }

        // uniqueness of the answer: order-within-peers sensitive calls get the id tiebreak
        let order_sensitive = match f {
            WinF::RowNumber | WinF::Ntile | WinF::Lag | WinF::Lead => true,
            WinF::FirstValue | WinF::LastValue | WinF::NthValue => !arg_is_order_key || rows_frame,
            WinF::Count | WinF::Sum | WinF::Avg | WinF::Min | WinF::Max => rows_frame,
            _ => false,
        };
        if order_sensitive {
            if range_offset {
                // a RANGE offset frame needs exactly one key: make the call peer-based instead
                // (value function over the key itself / aggregate) — or drop the frame
                match f {
                    WinF::FirstValue | WinF::LastValue | WinF::NthValue => {
                        if let Expr::Col { name, .. } = &order[0].e {
                            args[0] = col(name);
                            rty = RTy::Other;
                            self.feat("value_fn_arg_is_order_key");
                        }
                    }
                    _ => unreachable!("only frame functions have frames"),
                }
            } else {
                if !order.iter().any(|k| k.e == col("id")) {
                    let desc = self.t.chance(30);
                    order.push(OrderKey { e: col("id"), desc, nulls_first: None });
                }
                self.feat("tiebreak_id");
            }
        } else {
            self.feat("real_ties_allowed");
        }
        self.feat(&format!("order_by{}", order.len().min(4)));
        (WindowCall { f, args, partition, order, frame }, rty)
    }
}

pub fn gen_case(table: Table, tape: Vec<u16>, cuts: Vec<usize>, sqlite: bool) -> SqlCase {
    let mut g = G { t: Tape::new(tape), sqlite, feats: BTreeSet::new() };
    let n_calls = 1 + g.t.pick(3);
    let mut items = vec![Item::Expr(col("id"), Some("id".into()))];
    let mut prev: Option<(Vec<Expr>, Vec<OrderKey>)> = None;
    let mut calls: Vec<WindowCall> = vec![];
    for i in 0..n_calls {
        let share = prev.is_some() && g.t.chance(40);
        if share {
            g.feat("shared_window_spec");
        }
        let (c, rty) = g.call(if share { prev.as_ref() } else { None });
        if !share {
            // (only the partition and the non-tiebreak order keys are shared)
            let ord: Vec<OrderKey> = c.order.iter().filter(|k| k.e != col("id")).cloned().collect();
            prev = Some((c.partition.clone(), ord));
        }
        calls.push(c.clone());
        let w = Expr::Win(Box::new(c));
        // sometimes nested in an expression
        let e = match (g.t.pick(10), rty) {
            (0, RTy::Int) => {
                g.feat("nested_arith");
                Expr::bin(w, BinOp::Add, Expr::int(1))
            }
            (1, RTy::Int) => {
                g.feat("nested_coalesce");
                Expr::Coalesce(vec![w, Expr::int(0)])
            }
            (2, RTy::Int) => {
                g.feat("nested_col_minus_win");
                Expr::bin(col("x"), BinOp::Sub, w)
            }
            (3, RTy::Int) => {
                g.feat("nested_case");
                Expr::Case {
                    operand: None,
                    whens: vec![(Expr::bin(w, BinOp::Eq, Expr::int(1)), Expr::Lit(Value::Str("one".into())))],
                    els: Some(Box::new(Expr::Lit(Value::Str("other".into())))),
                }
            }
            _ => w,
        };
        items.push(Item::Expr(e, Some(format!("w{}", i + 1))));
    }
    g.feat(&format!("calls{}", n_calls));
    let n = table.rows.len();
    let where_ = if g.t.chance(20) {
        g.feat("where");
        let m = g.t.pick(n + 2) as i64;
        Some(match g.t.pick(3) {
            0 => Expr::bin(col("id"), BinOp::Le, Expr::int(m)),
            1 => Expr::bin(col("id"), BinOp::Ne, Expr::int(m)),
            _ => Expr::bin(col("id"), BinOp::Gt, Expr::int(m)),
        })
    } else {
        None
    };
    let q = Query::select(Select::simple(items, vec![From::Table { name: "w".into(), alias: None }], where_.clone()));

    // ---- structural non-triviality facts (from the data, for the rule)
    let kept: Vec<&Vec<Value>> = table
        .rows
        .iter()
        .filter(|r| match &where_ {
            None => true,
            Some(Expr::Bin(_, op, m)) => {
                let (id, m) = match (&r[0], &**m) {
                    (Value::Int(i), Expr::Lit(Value::Int(m))) => (*i, *m),
                    _ => return true,
                };
                match op {
                    BinOp::Le => id <= m,
                    BinOp::Ne => id != m,
                    _ => id > m,
                }
            }
            _ => true,
        })
        .collect();
    let idx = |e: &Expr| -> usize {
        match e {
            Expr::Col { name, .. } => table.cols.iter().position(|c| &c.name == name).unwrap_or(0),
            _ => 0,
        }
    };
    let mut nt_peers = false;
    let mut nt_null_key = false;
    let mut nt_empty_frame = false;
    for c in &calls {
        let pidx: Vec<usize> = c.partition.iter().map(idx).collect();
        let oidx: Vec<usize> = c.order.iter().map(|k| idx(&k.e)).collect();
        let mut parts: Vec<(Vec<Value>, Vec<Vec<Value>>)> = vec![];
        for r in &kept {
            let pk: Vec<Value> = pidx.iter().map(|i| r[*i].clone()).collect();
            let ok: Vec<Value> = oidx.iter().map(|i| r[*i].clone()).collect();
            if ok.iter().any(|v| v.is_null()) {
                nt_null_key = true;
            }
            match parts.iter_mut().find(|(k, _)| *k == pk) {
                Some((_, v)) => v.push(ok),
                None => parts.push((pk, vec![ok])),
            }
        }
        for (_, keys) in &parts {
            let mut groups: Vec<(&Vec<Value>, usize)> = vec![];
            for k in keys {
                match groups.iter_mut().find(|(g, _)| *g == k) {
                    Some((_, n)) => *n += 1,
                    None => groups.push((k, 1)),
                }
            }
            if !oidx.is_empty() && groups.len() >= 2 && groups.iter().any(|(_, n)| *n >= 2) {
                nt_peers = true;
            }
        }
        if let Some(Frame { rows: true, start, end }) = &c.frame {
            let empty_possible = matches!(start, Bound::Following(k) if *k >= 1) || matches!(end, Bound::Preceding(k) if *k >= 1);
            if empty_possible && !kept.is_empty() {
                nt_empty_frame = true;
            }
        }
    }
    if nt_peers {
        g.feat("nt_peer_groups");
    }
    if nt_null_key {
        g.feat("nt_null_order_key");
    }
    if nt_empty_frame {
        g.feat("nt_empty_frame");
    }
    let cuts_t: Vec<usize> = cuts.iter().map(|c| c % (n + 1)).collect();
    SqlCase { tables: vec![table], query: q, cuts: vec![cuts_t], features: g.feats.into_iter().collect() }
}

fn strategy(tier: Tier) -> BoxedStrategy<SqlCase> {
    let max_rows = tier.pick(14, 40);
    (table_strategy(max_rows), proptest::collection::vec(any::<u16>(), 0..120), proptest::collection::vec(0usize..41, 0..3))
        .prop_map(|(t, tape, cuts)| gen_case(t, tape, cuts, false))
        .boxed()
}

/// SQLite cross-check profile (`check --export windows …`): no RANGE offsets over DATE keys
pub fn export_strategy() -> BoxedStrategy<SqlCase> {
    (table_strategy(10), proptest::collection::vec(any::<u16>(), 0..120), proptest::collection::vec(0usize..41, 0..3))
        .prop_map(|(t, tape, cuts)| gen_case(t, tape, cuts, true))
        .boxed()
}

fn nontrivial(c: &SqlCase, o: &SqlOutcome) -> bool {
    (has(c, "nt_peer_groups") || has(c, "nt_null_order_key") || has(c, "nt_empty_frame")) && o.engine_rows.is_some()
}

/// For a RANGE frame with an offset bound: the NULL placement (`true` = NULLS
/// FIRST) under which the engine drops the NULL-key rows from the frame —
/// `k PRECEDING/FOLLOWING … UNBOUNDED FOLLOWING` with NULLS LAST, or
/// `UNBOUNDED PRECEDING … k PRECEDING/FOLLOWING` with NULLS FIRST.
fn risky_null_side(fr: &Frame) -> Option<bool> {
    if fr.rows {
        return None;
    }
    let off = |b: &Bound| matches!(b, Bound::Preceding(_) | Bound::Following(_));
    if off(&fr.start) && fr.end == Bound::UnboundedFollowing {
        Some(false)
    } else if off(&fr.end) && fr.start == Bound::UnboundedPreceding {
        Some(true)
    } else {
        None
    }
}

fn classify(c: &SqlCase, _ev: &BTreeSet<&'static str>, _msg: &str) -> Option<&'static str> {
    // some window call has the risky frame / NULL placement AND its order key is NULL in some row
    let t = &c.tables[0];
    let mut hit = false;
    crate::kf_sql::walk_query_exprs(&c.query, &mut |e| {
        if let Expr::Win(w) = e {
            if let (Some(fr), [k]) = (&w.frame, &w.order[..]) {
                if risky_null_side(fr) == Some(k.nulls_first.unwrap_or(false)) {
                    if let Expr::Col { name, .. } = &k.e {
                        if let Some(ci) = t.col_index(name) {
                            if t.rows.iter().any(|r| r[ci].is_null()) {
                                hit = true;
                            }
                        }
                    }
                }
            }
        }
    });
    if hit {
        Some("window-range-offset-null-keys")
    } else {
        None
    }
}

pub fn property() -> Property {
    Property {
        id: "C26",
        level: "exploration",
        assumptions: &[
            "the reference window evaluator (refsql) implements the SQL definitions; it was cross-checked against SQLite 3.40 on the generator's SQLite-comparable sub-dialect (everything except RANGE offsets over DATE keys)",
            "functions whose value depends on the order inside a peer group are given a unique tiebreak key, so the SQL answer is unique",
            "AVG / PERCENT_RANK / CUME_DIST are compared with relative tolerance 1e-9; data are multiples of 0.25 so sums are exact",
            "an engine error is an allowed outcome (unsupported syntax is refused by name)",
        ],
        checks: vec![Box::new(SqlCheck {
            name: "window_answers",
            rule: "some window call has a partition with >= 2 peer groups one of which has >= 2 rows, or a ROWS frame that is empty for some row, or a NULL order key; and the engine answered",
            profile: |_| crate::sqlgen::Profile::minimal(),
            tables: default_tables,
            quick_cases: 1500,
            thorough_cases: 60_000,
            tape_len: 120,
            depth: 1,
            nontrivial,
            classify,
            strategy: Some(strategy),
            profile_env: "",
        })],
    }
}
