//! C36: known-answer vectors for digests (computed with Python hashlib; the
//! 'hello' rows are also pinned by tests/function_validation_tests.rs).

pub const KAT_INPUTS: &[&str] = &["", "a", "abc", "hello", "message digest", "The quick brown fox jumps over the lazy dog", "héllo wörld", "日本語", "  a b  "];

pub const MD5_KAT: &[(&str, &str)] = &[
    ("", "d41d8cd98f00b204e9800998ecf8427e"),
    ("a", "0cc175b9c0f1b6a831c399e269772661"),
    ("abc", "900150983cd24fb0d6963f7d28e17f72"),
    ("hello", "5d41402abc4b2a76b9719d911017c592"),
    ("message digest", "f96b697d7cb7938d525a2f31aaf161d0"),
    ("The quick brown fox jumps over the lazy dog", "9e107d9d372bb6826bd81d3542a419d6"),
    ("héllo wörld", "ed0c22cc110ede12327851863c078138"),
    ("日本語", "00110af8b4393ef3f72c50be5b332bec"),
    ("  a b  ", "13c3df6cb4fe8af63e1fce82c98e9d7b"),
];
pub const SHA1_KAT: &[(&str, &str)] = &[
    ("", "da39a3ee5e6b4b0d3255bfef95601890afd80709"),
    ("a", "86f7e437faa5a7fce15d1ddcb9eaeaea377667b8"),
    ("abc", "a9993e364706816aba3e25717850c26c9cd0d89d"),
    ("hello", "aaf4c61ddcc5e8a2dabede0f3b482cd9aea9434d"),
    ("message digest", "c12252ceda8be8994d5fa0290a47231c1d16aae3"),
    ("The quick brown fox jumps over the lazy dog", "2fd4e1c67a2d28fced849ee1bb76e7391b93eb12"),
    ("héllo wörld", "24e9f5c07847ff8a2a9fa77456655792f5bc7f9f"),
    ("日本語", "c12140a0ffb4e56481b4fe0a7a25040c2eafa9ca"),
    ("  a b  ", "069b811eb3fc113b34c8bdb7a235b85f25c6fd5d"),
];
pub const SHA256_KAT: &[(&str, &str)] = &[
    ("", "e3b0c44298fc1c149afbf4c8996fb92427ae41e4649b934ca495991b7852b855"),
    ("a", "ca978112ca1bbdcafac231b39a23dc4da786eff8147c4e72b9807785afee48bb"),
    ("abc", "ba7816bf8f01cfea414140de5dae2223b00361a396177a9cb410ff61f20015ad"),
    ("hello", "2cf24dba5fb0a30e26e83b2ac5b9e29e1b161e5c1fa7425e73043362938b9824"),
    ("message digest", "f7846f55cf23e14eebeab5b4e1550cad5b509e3348fbc4efa3a1413d393cb650"),
    ("The quick brown fox jumps over the lazy dog", "d7a8fbb307d7809469ca9abcb0082e4f8d5651e46d3cdb762d02d0bf37c9e592"),
    ("héllo wörld", "a1003f7d04a4115711d0b48a2eaf1359ce565d2d2a6fd65098dfcffadeeef59f"),
    ("日本語", "77710aedc74ecfa33685e33a6c7df5cc83004da1bdcef7fb280f5c2b2e97e0a5"),
    ("  a b  ", "e60e3d78e0763b0b062e01b980abd8fd6da71c60d95a6311055e9408f550e48d"),
];
pub const SHA512_KAT: &[(&str, &str)] = &[
    ("", "cf83e1357eefb8bdf1542850d66d8007d620e4050b5715dc83f4a921d36ce9ce47d0d13c5d85f2b0ff8318d2877eec2f63b931bd47417a81a538327af927da3e"),
    ("a", "1f40fc92da241694750979ee6cf582f2d5d7d28e18335de05abc54d0560e0f5302860c652bf08d560252aa5e74210546f369fbbbce8c12cfc7957b2652fe9a75"),
    ("abc", "ddaf35a193617abacc417349ae20413112e6fa4e89a97ea20a9eeee64b55d39a2192992a274fc1a836ba3c23a3feebbd454d4423643ce80e2a9ac94fa54ca49f"),
    ("hello", "9b71d224bd62f3785d96d46ad3ea3d73319bfbc2890caadae2dff72519673ca72323c3d99ba5c11d7c7acc6e14b8c5da0c4663475c2e5c3adef46f73bcdec043"),
    ("message digest", "107dbf389d9e9f71a3a95f6c055b9251bc5268c2be16d6c13492ea45b0199f3309e16455ab1e96118e8a905d5597b72038ddb372a89826046de66687bb420e7c"),
    ("The quick brown fox jumps over the lazy dog", "07e547d9586f6a73f73fbac0435ed76951218fb7d0c8d788a309d785436bbb642e93a252a954f23912547d1e8a3b5ed6e1bfd7097821233fa0538f3db854fee6"),
    ("héllo wörld", "aacc881944f9ae7084649c91609b436444d66f289fca3bc4214e465e99f256efa8a8dc447e41660087c1081e4718419a94eee3d6b536b46bb764cdd7f747fe38"),
    ("日本語", "3df44aa21ecaedcf5b27b2d9ac97347ef57344534798de884593bed4ff920c79213d491eb5b61c07780cc485be830a1a2f6ef1347e02216d0cb560afd3f392f5"),
    ("  a b  ", "2cf9347e1ef9859b922d0ae43406c062246832375037b99b9c86abfadefef45014fe61858c91061b9d454e6f67e124cc9f162830c406705a949f64b4e6fadfdd"),
];
