//! C32 — not implemented yet.
use super::Property;

pub fn property() -> Property {
    Property { id: "C32", level: "exploration", assumptions: &[], checks: vec![] }
}
