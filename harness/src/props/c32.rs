//! C32 — Join reordering never introduces a cross product.
//!
//! Generator: 2–7 distinct tables (table-unique column names, small domains,
//! skewed sizes) and a CONNECTED equality graph over them:
//! a random spanning tree (chains and stars fall out of the parent choice) plus
//! extra edges (cycles, cliques), single- or two-column (composite) edges,
//! extra non-equality predicates between two relations or on one relation.
//! A fifth of the cases keep all columns BIGINT and every equality `col = col`;
//! in the others (sparse: few wrapped equalities next to plain ones; dense: most
//! of them) the columns are BIGINT / INTEGER / DOUBLE and each side of an
//! equality may be wrapped in the value-preserving forms the optimizer's column
//! extraction has to see through: CAST to the common key type (INTEGER key =
//! CAST(.. AS BIGINT), both sides CAST to DOUBLE, a redundant CAST, a narrowing
//! CAST(.. AS INTEGER)), arithmetic with a neutral constant (`x + 0`, `0 + x`,
//! `x - 0`, `x * 1`, `1 * x`) on top of it, and unary minus on both sides.
//! The two sides of an equality always have the same type by construction (the
//! engine does not coerce mixed-width join keys), composite edges draw the
//! wrappers of each column pair independently (wrapped next to plain).
//! The join graph is the one the CASE defines (its `edges`), never anything
//! extracted from the engine's expressions: a wrapped equality is an edge
//! between the relations of its two columns exactly like a plain one.
//! The statement is written with the relations in a scrambled order as comma
//! joins + WHERE, as an explicit INNER/CROSS JOIN chain (ON = the predicates
//! whose relations are already in the chain, the rest in WHERE), or a mix.
//! Tables are registered as memory (no statistics) and as Parquet (statistics).
//!
//! Oracle — validity predicate on `ctx.optimized_plan(sql)`:
//!  V1 no Cross join, no Inner join with empty `on` and no filter;
//!  V2 every base relation occurs exactly once;
//!  V3 the column equivalence classes induced by the plan's equality predicates
//!     (join `on` pairs, PackedJoinKeys' packed pairs counted as their two
//!     equalities, `col = col` conjuncts of filters) equal those of the written
//!     predicates (union-find) — joining through an implied equality is fine;
//!  V4 every written non-equality predicate is still a conjunct at a node whose
//!     subtree scans the relations it names;
//!  V5 every join's `on` pair has one side from each input.
//! Plus: the optimized answer equals the unoptimized one (multiset).
use super::Property;
use crate::data::*;
use crate::engine::*;
use crate::runner::*;
use proptest::prelude::*;
use proptest::strategy::BoxedStrategy;
use query_engine::planner as qp;
use query_engine::planner::LogicalPlan;
use query_engine::ExecutionContext;
use serde::{Deserialize, Serialize};
use std::collections::{BTreeMap, BTreeSet};

#[path = "c03_util.rs"]
mod util;
use util::{bind, expr_walk, for_each_node, node_exprs, plan_text, stats_of};

#[derive(Clone, Debug, Serialize, Deserialize)]
pub struct NonEq {
    pub a: (usize, usize),
    /// 0 `<`, 1 `<=`, 2 `>`, 3 `<>`
    pub op: u8,
    pub b: Option<(usize, usize)>,
    pub lit: i64,
}

#[derive(Clone, Debug, Serialize, Deserialize)]
pub struct JoinCase {
    pub tables: Vec<Table>,
    /// written order of the relations (a permutation of the table indices)
    pub order: Vec<usize>,
    /// equality edges (rel, col, rel, col)
    pub edges: Vec<(usize, usize, usize, usize)>,
    pub noneq: Vec<NonEq>,
    /// per position k >= 1 of `order`: attach with an explicit JOIN (true) or a comma (false)
    pub explicit: Vec<bool>,
    pub select: Vec<(usize, usize)>,
    pub layouts: Vec<ParquetLayout>,
    /// per edge (same index as `edges`): the wrappers of the left and of the right key,
    /// applied inside-out (see `W_*`); absent/short = plain columns
    #[serde(default)]
    pub wraps: Vec<(Vec<u8>, Vec<u8>)>,
}

/// `CAST(x AS BIGINT)`
pub const W_CAST_BIGINT: u8 = 1;
/// `CAST(x AS DOUBLE)`
pub const W_CAST_DOUBLE: u8 = 2;
/// `(x + 0)`
pub const W_PLUS0: u8 = 3;
/// `(x * 1)`
pub const W_TIMES1: u8 = 4;
/// `(x - 0)`
pub const W_MINUS0: u8 = 5;
/// `(-x)`
pub const W_NEG: u8 = 6;
/// `(0 + x)`
pub const W_0PLUS: u8 = 7;
/// `(1 * x)`
pub const W_1TIMES: u8 = 8;
/// `CAST(x AS INTEGER)`
pub const W_CAST_INT32: u8 = 9;

fn is_cast_op(op: u8) -> bool {
    matches!(op, W_CAST_BIGINT | W_CAST_DOUBLE | W_CAST_INT32)
}
fn is_arith_op(op: u8) -> bool {
    matches!(op, W_PLUS0 | W_TIMES1 | W_MINUS0 | W_0PLUS | W_1TIMES)
}

fn wrap_sql(base: String, ops: &[u8]) -> String {
    let mut s = base;
    for op in ops {
        s = match *op {
            W_CAST_BIGINT => format!("CAST({} AS BIGINT)", s),
            W_CAST_DOUBLE => format!("CAST({} AS DOUBLE)", s),
            W_CAST_INT32 => format!("CAST({} AS INTEGER)", s),
            W_PLUS0 => format!("({} + 0)", s),
            W_TIMES1 => format!("({} * 1)", s),
            W_MINUS0 => format!("({} - 0)", s),
            W_NEG => format!("(-{})", s),
            W_0PLUS => format!("(0 + {})", s),
            W_1TIMES => format!("(1 * {})", s),
            _ => s,
        };
    }
    s
}

fn edge_wraps(c: &JoinCase, i: usize) -> (&[u8], &[u8]) {
    match c.wraps.get(i) {
        Some((a, b)) => (a.as_slice(), b.as_slice()),
        None => (&[], &[]),
    }
}

/// is the graph over `n` relations connected when only the edges selected by `keep` are used?
/// (the harness's own graph, built from the case's edge list)
fn connected_with(c: &JoinCase, keep: &dyn Fn(usize) -> bool) -> bool {
    let n = c.tables.len();
    if n == 0 {
        return true;
    }
    let mut comp: Vec<usize> = (0..n).collect();
    fn root(comp: &mut Vec<usize>, x: usize) -> usize {
        let mut r = x;
        while comp[r] != r {
            r = comp[r];
        }
        comp[x] = r;
        r
    }
    for (i, (ra, _, rb, _)) in c.edges.iter().enumerate() {
        if keep(i) {
            let (x, y) = (root(&mut comp, *ra), root(&mut comp, *rb));
            if x != y {
                comp[x] = y;
            }
        }
    }
    let r0 = root(&mut comp, 0);
    (1..n).all(|i| root(&mut comp, i) == r0)
}

/// some wrapper selected by `pick` sits on an edge side, and the graph falls apart
/// when every edge carrying such a wrapper is ignored
fn bridge_of(c: &JoinCase, pick: &dyn Fn(u8) -> bool) -> bool {
    let has = |i: usize| {
        let (a, b) = edge_wraps(c, i);
        a.iter().chain(b.iter()).any(|op| pick(*op))
    };
    (0..c.edges.len()).any(|i| has(i)) && !connected_with(c, &|i| !has(i))
}

fn col_name(c: &JoinCase, rc: (usize, usize)) -> String {
    format!("{}.{}", c.tables[rc.0].name, c.tables[rc.0].cols[rc.1].name)
}

fn op_sql(op: u8) -> &'static str {
    ["<", "<=", ">", "<>"][op as usize % 4]
}

pub fn render(c: &JoinCase) -> String {
    // predicates as (relations involved, text)
    let mut preds: Vec<(BTreeSet<usize>, String)> = vec![];
    for (i, (ra, ca, rb, cb)) in c.edges.iter().enumerate() {
        let (wa, wb) = edge_wraps(c, i);
        preds.push(([*ra, *rb].into_iter().collect(), format!("({} = {})", wrap_sql(col_name(c, (*ra, *ca)), wa), wrap_sql(col_name(c, (*rb, *cb)), wb))));
    }
    for p in &c.noneq {
        match p.b {
            Some(b) => preds.push(([p.a.0, b.0].into_iter().collect(), format!("({} {} {})", col_name(c, p.a), op_sql(p.op), col_name(c, b)))),
            None => preds.push(([p.a.0].into_iter().collect(), format!("({} {} {})", col_name(c, p.a), op_sql(p.op), p.lit))),
        }
    }
    let mut used = vec![false; preds.len()];
    let mut from = String::new();
    let mut tree: BTreeSet<usize> = BTreeSet::new();
    for (k, r) in c.order.iter().enumerate() {
        let name = &c.tables[*r].name;
        if k == 0 {
            from.push_str(name);
            tree.insert(*r);
            continue;
        }
        if c.explicit.get(k - 1).copied().unwrap_or(false) {
            tree.insert(*r);
            let mut on = vec![];
            for (i, (rels, text)) in preds.iter().enumerate() {
                if !used[i] && rels.contains(r) && rels.len() == 2 && rels.iter().all(|x| tree.contains(x)) {
                    used[i] = true;
                    on.push(text.clone());
                }
            }
            if on.is_empty() {
                from.push_str(&format!(" CROSS JOIN {}", name));
            } else {
                from.push_str(&format!(" INNER JOIN {} ON {}", name, on.join(" AND ")));
            }
        } else {
            from.push_str(&format!(", {}", name));
            tree = [*r].into_iter().collect();
        }
    }
    let rest: Vec<String> = preds.iter().enumerate().filter(|(i, _)| !used[*i]).map(|(_, (_, t))| t.clone()).collect();
    let items: Vec<String> = c.select.iter().enumerate().map(|(i, rc)| format!("{} AS c{}", col_name(c, *rc), i + 1)).collect();
    let mut sql = format!("SELECT {} FROM {}", items.join(", "), from);
    if !rest.is_empty() {
        sql.push_str(&format!(" WHERE {}", rest.join(" AND ")));
    }
    sql
}

/// the written order needs a cross product: some relation has no equality edge to an earlier one
fn written_order_needs_cross(c: &JoinCase) -> bool {
    (1..c.order.len()).any(|k| {
        let r = c.order[k];
        !c.edges.iter().any(|(a, _, b, _)| (*a == r && c.order[..k].contains(b)) || (*b == r && c.order[..k].contains(a)))
    })
}

// ---------------------------------------------------------------------------
// validity predicate
// ---------------------------------------------------------------------------

struct Uf {
    parent: BTreeMap<String, String>,
}
impl Uf {
    fn new() -> Self {
        Uf { parent: BTreeMap::new() }
    }
    fn find(&mut self, x: &str) -> String {
        let p = self.parent.get(x).cloned().unwrap_or_else(|| x.to_string());
        if p == x {
            self.parent.insert(x.to_string(), p.clone());
            return p;
        }
        let r = self.find(&p);
        self.parent.insert(x.to_string(), r.clone());
        r
    }
    fn union(&mut self, a: &str, b: &str) {
        let (ra, rb) = (self.find(a), self.find(b));
        if ra != rb {
            self.parent.insert(ra, rb);
        }
    }
    /// the non-singleton classes
    fn classes(&mut self) -> BTreeSet<BTreeSet<String>> {
        let keys: Vec<String> = self.parent.keys().cloned().collect();
        let mut m: BTreeMap<String, BTreeSet<String>> = BTreeMap::new();
        for k in keys {
            let r = self.find(&k);
            m.entry(r).or_default().insert(k);
        }
        m.into_values().filter(|s| s.len() > 1).collect()
    }
}

fn strip(e: &qp::Expr) -> &qp::Expr {
    match e {
        qp::Expr::Cast { expr, .. } | qp::Expr::Alias { expr, .. } => strip(expr),
        o => o,
    }
}

/// bare (unqualified, lower-case) column name: column names are table-unique here
fn cname(e: &qp::Expr) -> Option<String> {
    match strip(e) {
        qp::Expr::Column(c) => Some(c.name.to_lowercase()),
        _ => None,
    }
}

fn lit_f64(e: &qp::Expr) -> Option<f64> {
    match strip(e) {
        qp::Expr::Literal(v) => format!("{}", v).trim().parse::<f64>().ok(),
        _ => None,
    }
}

/// The column a (possibly wrapped) equality side stands for, and whether it is negated.
/// Sees through exactly the value-preserving wrappers the generator writes — CAST / alias,
/// `x + 0`, `0 + x`, `x - 0`, `x * 1`, `1 * x`, unary minus — so an optimizer that keeps
/// the wrapper, moves it or folds the neutral constant away is accepted alike; any other
/// expression is not a key.
fn peel(e: &qp::Expr) -> Option<(String, bool)> {
    match e {
        qp::Expr::Cast { expr, .. } | qp::Expr::Alias { expr, .. } => peel(expr),
        qp::Expr::Column(c) => Some((c.name.to_lowercase(), false)),
        qp::Expr::UnaryExpr { op: qp::UnaryOp::Negate, expr } => peel(expr).map(|(c, n)| (c, !n)),
        qp::Expr::BinaryExpr { left, op, right } => {
            let (l, r) = (lit_f64(left), lit_f64(right));
            match op {
                qp::BinaryOp::Add if r == Some(0.0) => peel(left),
                qp::BinaryOp::Add if l == Some(0.0) => peel(right),
                qp::BinaryOp::Subtract if r == Some(0.0) => peel(left),
                qp::BinaryOp::Multiply if r == Some(1.0) => peel(left),
                qp::BinaryOp::Multiply if l == Some(1.0) => peel(right),
                _ => None,
            }
        }
        _ => None,
    }
}

/// `l = r` as an equality of two columns (both sides negated or neither)
fn eq_cols(l: &qp::Expr, r: &qp::Expr) -> Option<(String, String)> {
    let ((a, na), (b, nb)) = (peel(l)?, peel(r)?);
    if na == nb {
        Some((a, b))
    } else {
        None
    }
}

/// `CAST(a) * K + CAST(b)` → (a, b) (each with its negation flag)
fn packed(e: &qp::Expr) -> Option<((String, bool), (String, bool))> {
    if let qp::Expr::BinaryExpr { left, op: qp::BinaryOp::Add, right } = strip(e) {
        if let qp::Expr::BinaryExpr { left: a, op: qp::BinaryOp::Multiply, right: k } = strip(left) {
            if matches!(strip(k), qp::Expr::Literal(_)) {
                return Some((peel(a)?, peel(right)?));
            }
        }
    }
    None
}

fn conjuncts<'e>(e: &'e qp::Expr, out: &mut Vec<&'e qp::Expr>) {
    match e {
        qp::Expr::BinaryExpr { left, op: qp::BinaryOp::And, right } => {
            conjuncts(left, out);
            conjuncts(right, out);
        }
        o => out.push(o),
    }
}

fn scanned_tables(p: &LogicalPlan) -> Vec<String> {
    let mut v = vec![];
    for_each_node(p, &mut |n| {
        if let LogicalPlan::Scan(s) = n {
            v.push(s.table_name.to_lowercase());
        }
    });
    v
}

fn lit_i64(e: &qp::Expr) -> Option<i64> {
    match strip(e) {
        qp::Expr::Literal(v) => {
            let s = format!("{}", v);
            s.trim().parse::<i64>().ok()
        }
        _ => None,
    }
}

/// normalised comparison: (left column, op, right column or literal); `a > b` is stored as `b < a`
fn norm_cmp(e: &qp::Expr) -> Option<(String, &'static str, String)> {
    if let qp::Expr::BinaryExpr { left, op, right } = e {
        let (l, r) = (cname(left).or_else(|| lit_i64(left).map(|i| format!("#{}", i)))?, cname(right).or_else(|| lit_i64(right).map(|i| format!("#{}", i)))?);
        return match op {
            qp::BinaryOp::Lt => Some((l, "<", r)),
            qp::BinaryOp::LtEq => Some((l, "<=", r)),
            qp::BinaryOp::Gt => Some((r, "<", l)),
            qp::BinaryOp::GtEq => Some((r, "<=", l)),
            qp::BinaryOp::NotEq => {
                if l <= r {
                    Some((l, "<>", r))
                } else {
                    Some((r, "<>", l))
                }
            }
            _ => None,
        };
    }
    None
}

pub fn validate(c: &JoinCase, plan: &LogicalPlan) -> Result<(), String> {
    // V1
    let mut v1: Option<String> = None;
    for_each_node(plan, &mut |n| {
        if let LogicalPlan::Join(j) = n {
            if j.join_type == qp::JoinType::Cross {
                v1 = Some("V1: the optimized plan contains a CROSS join".into());
            } else if j.join_type == qp::JoinType::Inner && j.on.is_empty() && j.filter.is_none() {
                v1 = Some("V1: the optimized plan contains an INNER join without any condition".into());
            }
        }
    });
    if let Some(m) = v1 {
        return Err(m);
    }
    // V2
    let mut got = scanned_tables(plan);
    got.sort();
    let mut want: Vec<String> = c.order.iter().map(|r| c.tables[*r].name.to_lowercase()).collect();
    want.sort();
    if got != want {
        return Err(format!("V2: base relations of the optimized plan {:?} != written relations {:?}", got, want));
    }
    // V3
    let bare = |rc: (usize, usize)| c.tables[rc.0].cols[rc.1].name.to_lowercase();
    let mut orig = Uf::new();
    for (ra, ca, rb, cb) in &c.edges {
        orig.union(&bare((*ra, *ca)), &bare((*rb, *cb)));
    }
    let mut opt = Uf::new();
    let mut v5: Option<String> = None;
    // (conjunct text-normalised, tables scanned below the node)
    let mut cmps: Vec<((String, &'static str, String), Vec<String>)> = vec![];
    for_each_node(plan, &mut |n| {
        if let LogicalPlan::Join(j) = n {
            let (ls, rs) = (j.left.schema(), j.right.schema());
            let side = |e: &qp::Expr, s: &qp::PlanSchema| -> bool {
                let mut all = true;
                let mut any = false;
                expr_walk(e, &mut |x| {
                    if let qp::Expr::Column(col) = x {
                        any = true;
                        if !s.fields().iter().any(|f| f.name.eq_ignore_ascii_case(&col.name)) {
                            all = false;
                        }
                    }
                });
                all && any
            };
            for (l, r) in &j.on {
                if !((side(l, &ls) && side(r, &rs)) || (side(l, &rs) && side(r, &ls))) {
                    v5 = Some(format!("V5: join condition {} = {} does not take one side from each input", l, r));
                }
                if let Some((a, b)) = eq_cols(l, r) {
                    opt.union(&a, &b);
                } else if let (Some((a1, a2)), Some((b1, b2))) = (packed(l), packed(r)) {
                    if a1.1 == b1.1 && a2.1 == b2.1 {
                        opt.union(&a1.0, &b1.0);
                        opt.union(&a2.0, &b2.0);
                    }
                }
            }
        }
        let below = scanned_tables(n);
        for e in node_exprs(n) {
            let is_on_side = matches!(n, LogicalPlan::Join(j) if j.on.iter().any(|(l, r)| std::ptr::eq(l, e) || std::ptr::eq(r, e)));
            if is_on_side {
                continue;
            }
            let mut cs = vec![];
            conjuncts(e, &mut cs);
            for cj in cs {
                if let qp::Expr::BinaryExpr { left, op: qp::BinaryOp::Eq, right } = cj {
                    if let Some((a, b)) = eq_cols(left, right) {
                        opt.union(&a, &b);
                        continue;
                    }
                }
                if let Some(k) = norm_cmp(cj) {
                    cmps.push((k, below.clone()));
                }
            }
        }
    });
    if let Some(m) = v5 {
        return Err(m);
    }
    let (oc, pc) = (orig.classes(), opt.classes());
    if oc != pc {
        return Err(format!("V3: equality classes of the optimized plan {:?} != those of the written predicates {:?}", pc, oc));
    }
    // V4
    for p in &c.noneq {
        let a = bare(p.a);
        let (b, b_table) = match p.b {
            Some(b) => (bare(b), Some(c.tables[b.0].name.to_lowercase())),
            None => (format!("#{}", p.lit), None),
        };
        let want = match p.op % 4 {
            0 => (a.clone(), "<", b.clone()),
            1 => (a.clone(), "<=", b.clone()),
            2 => (b.clone(), "<", a.clone()),
            _ => {
                if a <= b {
                    (a.clone(), "<>", b.clone())
                } else {
                    (b.clone(), "<>", a.clone())
                }
            }
        };
        let a_table = c.tables[p.a.0].name.to_lowercase();
        let ok = cmps.iter().any(|(k, below)| *k == want && below.contains(&a_table) && b_table.as_ref().map(|t| below.contains(t)).unwrap_or(true));
        if !ok {
            return Err(format!("V4: written predicate {} {} {} is not a conjunct of the optimized plan (at or above the scans it names)", want.0, want.1, want.2));
        }
    }
    Ok(())
}

// ---------------------------------------------------------------------------
// generator
// ---------------------------------------------------------------------------

fn max_rows_for(n: usize, thorough: bool) -> usize {
    let base = match n {
        0..=3 => 30,
        4 => 10,
        5 => 6,
        6 => 4,
        _ => 3,
    };
    if thorough && n <= 4 {
        base * 2
    } else {
        base
    }
}

/// type of a wrapped key: the last CAST decides, the other wrappers keep the type
fn wrapped_type(base: ColType, ops: &[u8]) -> ColType {
    let mut t = base;
    for op in ops {
        t = match *op {
            W_CAST_BIGINT => ColType::Int,
            W_CAST_DOUBLE => ColType::Double,
            W_CAST_INT32 => ColType::Int32,
            _ => t,
        };
    }
    t
}

/// Wrappers for the two sides of `ta_col = tb_col`, chosen so that both sides end with the
/// same type: a CAST where a side's type is not the common key type (or, rarely, a
/// redundant one), then at most one arithmetic wrapper with a neutral constant (only on
/// BIGINT / DOUBLE values: literal arithmetic on an INTEGER value has no type the two
/// sides could be relied on to share), then unary minus on both sides or on neither.
/// Selector 0 everywhere = the plain column (what shrinking converges to).
fn build_wraps(ta: ColType, tb: ColType, sel: (u8, u8, u8, u8), sparse: bool) -> (Vec<u8>, Vec<u8>) {
    // sparse: two equalities in three carry only the CAST their column types force
    let (tsel, sa, sb, ex) = if sparse && sel.3 % 3 != 1 { (0, 0, 0, 0) } else { sel };
    let target = match (ta, tb) {
        (ColType::Double, _) | (_, ColType::Double) => ColType::Double,
        (ColType::Int32, ColType::Int32) => match tsel % 4 {
            0 | 1 => ColType::Int32,
            2 => ColType::Int,
            _ => ColType::Double,
        },
        (ColType::Int, ColType::Int) => {
            if tsel % 4 == 3 {
                ColType::Double
            } else {
                ColType::Int
            }
        }
        // INTEGER key against BIGINT key: widen (mostly), go through DOUBLE, or narrow
        _ => match tsel % 6 {
            0..=3 => ColType::Int,
            4 => ColType::Double,
            _ => ColType::Int32,
        },
    };
    let cast_to = match target {
        ColType::Int => W_CAST_BIGINT,
        ColType::Double => W_CAST_DOUBLE,
        _ => W_CAST_INT32,
    };
    let side = |t: ColType, s: u8| -> Vec<u8> {
        let mut ops = vec![];
        if t != target || s % 8 == 7 {
            ops.push(cast_to);
        }
        if target != ColType::Int32 {
            match s % 8 {
                1 => ops.push(W_PLUS0),
                2 => ops.push(W_TIMES1),
                3 => ops.push(W_MINUS0),
                4 => ops.push(W_0PLUS),
                5 => ops.push(W_1TIMES),
                _ => {}
            }
        }
        ops
    };
    let (mut a, mut b) = (side(ta, sa), side(tb, sb));
    if target != ColType::Int32 && ex % 6 == 5 {
        a.push(W_NEG);
        b.push(W_NEG);
    }
    (a, b)
}

fn join_case(tier: Tier) -> BoxedStrategy<JoinCase> {
    let thorough = tier == Tier::Thorough;
    (2usize..=7)
        .prop_flat_map(move |n| {
            let mr = max_rows_for(n, thorough);
            (
                // tables: (rows, skew selector), cells
                proptest::collection::vec((0..=mr, proptest::collection::vec(proptest::collection::vec(0i64..4, 3), mr.max(1)), 2usize..=3), n),
                // spanning tree parents + extra edges + column picks
                proptest::collection::vec(any::<u16>(), n),
                proptest::collection::vec((any::<u16>(), any::<u16>(), any::<u16>(), any::<u16>()), 0..=n),
                proptest::collection::vec((any::<u16>(), any::<u16>(), any::<u16>()), 2 * n + 8),
                // non-equality predicates
                proptest::collection::vec((any::<u16>(), any::<u16>(), 0u8..4, any::<u16>(), any::<u16>(), any::<bool>(), 0i64..4), 0..3),
                // order, style
                proptest::collection::vec(any::<u16>(), n),
                (0u8..3, proptest::collection::vec(any::<bool>(), n)),
                proptest::collection::vec(parquet_layout_strategy(mr), n),
                (0u8..4, any::<bool>()),
                // key forms: 0 = all BIGINT and `col = col` only; 1, 2 = sparse (mostly BIGINT columns, few
                // wrapped equalities next to plain ones); 3, 4 = dense (typed columns, most equalities wrapped)
                (0u8..5, proptest::collection::vec(proptest::collection::vec(0u8..5, 3), n)),
                proptest::collection::vec((any::<u8>(), any::<u8>(), any::<u8>(), any::<u8>()), 3 * n + 2),
            )
        })
        .prop_map(|(tspec, parents, extra, colpicks, noneq_spec, order_sel, (style, mask), layouts, (shape, composite), (forms, tysel), wrapsel)| {
            let n = tspec.len();
            let letters = ["a", "b", "c"];
            let col_ty = |i: usize, k: usize| -> ColType {
                if forms == 0 {
                    return ColType::Int;
                }
                match (forms, tysel[i][k]) {
                    (1, 0..=3) | (2, 0..=2) | (_, 0..=1) => ColType::Int,
                    (1, _) => ColType::Int32,
                    (_, 4) => ColType::Double,
                    _ => ColType::Int32,
                }
            };
            let tables: Vec<Table> = tspec
                .iter()
                .enumerate()
                .map(|(i, (rows, cells, ncols))| {
                    let name = format!("j{}", i);
                    Table {
                        cols: (0..*ncols).map(|k| Column { name: format!("{}{}", name, letters[k]), ty: col_ty(i, k) }).collect(),
                        rows: (0..*rows)
                            .map(|r| {
                                (0..*ncols)
                                    .map(|k| match col_ty(i, k) {
                                        ColType::Double => Value::Double(cells[r][k] as f64),
                                        _ => Value::Int(cells[r][k]),
                                    })
                                    .collect()
                            })
                            .collect(),
                        name,
                    }
                })
                .collect();
            let ncols = |r: usize| tables[r].cols.len();
            let mut cp = colpicks.into_iter();
            let mut pick_col = |r: usize, sel: u16| pick_idx(sel, ncols(r));
            // spanning tree: shape 0 chain, 1 star, else random parent
            let mut edges: Vec<(usize, usize, usize, usize)> = vec![];
            for i in 1..n {
                let parent = match shape {
                    0 => i - 1,
                    1 => 0,
                    _ => pick_idx(parents[i], i),
                };
                let (s1, s2, s3) = cp.next().unwrap_or((0, 0, 0));
                let (ca, cb) = (pick_col(parent, s1), pick_col(i, s2));
                edges.push((parent, ca, i, cb));
                if composite && s3 % 3 == 0 {
                    // composite edge: a second column pair between the same relations
                    let (ca2, cb2) = ((ca + 1) % ncols(parent), (cb + 1) % ncols(i));
                    edges.push((parent, ca2, i, cb2));
                }
            }
            // extra edges: cycles / cliques
            for (a, b, s1, s2) in extra {
                let (ra, rb) = (pick_idx(a, n), pick_idx(b, n));
                if ra != rb && shape >= 2 {
                    edges.push((ra, pick_col(ra, s1), rb, pick_col(rb, s2)));
                }
            }
            edges.dedup();
            // key forms of every column pair (independently: composite edges mix wrapped and plain)
            let ty = |rc: (usize, usize)| tables[rc.0].cols[rc.1].ty;
            let wraps: Vec<(Vec<u8>, Vec<u8>)> = edges
                .iter()
                .enumerate()
                .map(|(i, (ra, ca, rb, cb))| {
                    if forms == 0 {
                        (vec![], vec![])
                    } else {
                        build_wraps(ty((*ra, *ca)), ty((*rb, *cb)), wrapsel.get(i).copied().unwrap_or((0, 0, 0, 0)), forms <= 2)
                    }
                })
                .collect();
            // a non-equality predicate compares two columns of one type, or an integer column with
            // an integer literal (its subject is the plan shape, not comparison coercion): take the
            // next column of the relation that fits, drop the predicate when there is none
            let fit = |r: usize, start: usize, ok: &dyn Fn(ColType) -> bool| -> Option<usize> { (0..ncols(r)).map(|d| (start + d) % ncols(r)).find(|k| ok(tables[r].cols[*k].ty)) };
            let noneq: Vec<NonEq> = noneq_spec
                .into_iter()
                .filter_map(|(a, b, op, s1, s2, binary, lit)| {
                    let (ra, rb) = (pick_idx(a, n), pick_idx(b, n));
                    let ca = pick_idx(s1, ncols(ra));
                    // (a literal filter on one relation mostly triggers the known
                    // projected-relation finding: keep it for a quarter of the predicates)
                    if (binary || lit != 0) && ra != rb {
                        let ta = tables[ra].cols[ca].ty;
                        let cb = fit(rb, pick_idx(s2, ncols(rb)), &|t| t == ta)?;
                        Some(NonEq { a: (ra, ca), op, b: Some((rb, cb)), lit })
                    } else {
                        let ca = fit(ra, ca, &|t| t.is_int())?;
                        Some(NonEq { a: (ra, ca), op, b: None, lit })
                    }
                })
                .collect();
            // scrambled order: sort indices by selector
            let mut order: Vec<usize> = (0..n).collect();
            order.sort_by_key(|i| (order_sel[*i], *i));
            let explicit: Vec<bool> = (1..n)
                .map(|k| match style {
                    0 => false,
                    1 => true,
                    _ => mask[k],
                })
                .collect();
            let (s1, s2, _) = cp.next().unwrap_or((0, 0, 0));
            let r1 = pick_idx(s1, n);
            let r2 = pick_idx(s2, n);
            let select = vec![(r1, 0), (r2, ncols(r2) - 1)];
            JoinCase { tables, order, edges, noneq, explicit, select, layouts, wraps }
        })
        .boxed()
}

// ---------------------------------------------------------------------------
// check
// ---------------------------------------------------------------------------

/// Signatures of C32's open findings
fn classify(_c: &JoinCase, _stats: bool, msg: &str, plan: Option<&LogicalPlan>) -> Option<&'static str> {
    // ProjectionPushdown wraps a filtered scan in a Project; in the next fixpoint iteration
    // JoinReorder names that relation "project", no longer resolves the qualified columns of
    // its join conditions, and drops the condition or joins it last through a cross product
    let p = plan?;
    let structural = msg.starts_with("V1") || msg.starts_with("V3") || msg.starts_with("the optimized answer differs");
    if structural && join_input_is_projected_scan(p) {
        return Some("join-reorder-projected-relation");
    }
    None
}

fn join_input_is_projected_scan(p: &LogicalPlan) -> bool {
    let mut hit = false;
    for_each_node(p, &mut |n| {
        if let LogicalPlan::Join(j) = n {
            for side in [&j.left, &j.right] {
                if let LogicalPlan::Project(pr) = side.as_ref() {
                    if matches!(pr.input.as_ref(), LogicalPlan::Scan(_) | LogicalPlan::Filter(_)) {
                        hit = true;
                    }
                }
            }
        }
    });
    hit
}

pub struct ReorderKeepsGraph;

impl Check for ReorderKeepsGraph {
    type Case = JoinCase;
    fn name(&self) -> &'static str {
        "reorder_keeps_join_graph"
    }
    fn rule(&self) -> &'static str {
        ">=4 relations and the written order of the relations needs a cross product (some relation has no equality edge to any earlier one)"
    }
    fn cases(&self, tier: Tier) -> u32 {
        tier.pick(1200, 30_000)
    }
    fn strategy(&self, tier: Tier) -> BoxedStrategy<JoinCase> {
        join_case(tier)
    }
    fn test(&self, c: &JoinCase, obs: &mut Obs) -> Verdict {
        let sql = render(c);
        let n = c.order.len();
        obs.label(format!("relations:{}", n));
        obs.label(format!("edges_minus_tree:{}", (c.edges.len() + 1).saturating_sub(n).min(4)));
        if c.explicit.iter().all(|x| *x) {
            obs.label("style:explicit");
        } else if c.explicit.iter().any(|x| *x) {
            obs.label("style:mixed");
        } else {
            obs.label("style:comma");
        }
        let needs_cross = written_order_needs_cross(c);
        obs.nontrivial(n >= 4 && needs_cross);
        if needs_cross {
            obs.label("written_order_needs_cross");
        }
        // key forms (all derived from the case: the graph is the statement's, not the engine's)
        let all_ops = || (0..c.edges.len()).flat_map(|i| {
            let (a, b) = edge_wraps(c, i);
            a.iter().chain(b.iter()).copied().collect::<Vec<u8>>()
        });
        if all_ops().next().is_none() {
            obs.label("keys:all_plain");
        } else {
            for (name, pick) in [("cast", &is_cast_op as &dyn Fn(u8) -> bool), ("arith", &is_arith_op), ("neg", &|op| op == W_NEG), ("any_wrapper", &|_| true)] {
                if all_ops().any(|op| pick(op)) {
                    obs.label(format!("keys:{}", name));
                    // the graph is connected only through edges with such a wrapper
                    if bridge_of(c, pick) {
                        // (counted per kind: a seeded loss of one extraction arm disconnects exactly these graphs)
                        obs.label(format!("keys:{}_is_bridge", name));
                        if needs_cross {
                            obs.label(format!("keys:{}_is_bridge+written_order_needs_cross", name));
                        }
                    }
                }
            }
            let mut per_pair: BTreeMap<(usize, usize), (bool, bool)> = BTreeMap::new();
            for (i, (ra, _, rb, _)) in c.edges.iter().enumerate() {
                let (a, b) = edge_wraps(c, i);
                let e = per_pair.entry((*ra.min(rb), *ra.max(rb))).or_insert((false, false));
                if a.is_empty() && b.is_empty() {
                    e.0 = true;
                } else {
                    e.1 = true;
                }
            }
            if per_pair.values().any(|(plain, wrapped)| *plain && *wrapped) {
                obs.label("keys:composite_mixes_wrapped_and_plain");
            }
            let tys: BTreeSet<String> = c.edges.iter().flat_map(|(ra, ca, rb, cb)| [format!("{:?}", c.tables[*ra].cols[*ca].ty), format!("{:?}", c.tables[*rb].cols[*cb].ty)]).collect();
            obs.label(format!("keytypes:{}", tys.into_iter().collect::<Vec<_>>().join("+")));
        }
        obs.sample(serde_json::json!({ "sql": sql }));
        let mut mem = ExecutionContext::new();
        for t in &c.tables {
            register_mem(&mut mem, t, &[]);
        }
        let dir = TempDir::new("c32");
        let mut pq = ExecutionContext::new();
        for (i, t) in c.tables.iter().enumerate() {
            let mut l = c.layouts.get(i).cloned().unwrap_or_else(ParquetLayout::single);
            if l.stats == 0 {
                l.stats = 1;
            }
            if let Err(e) = register_parquet(&mut pq, t, dir.path(), &l) {
                return Verdict::Discard(format!("parquet_registration:{}", crate::sqlcheck::short_err(&e)));
            }
        }
        for (ctx, with_stats) in [(&pq, true), (&mem, false)] {
            let tag = if with_stats { "stats" } else { "nostats" };
            let fail = |msg: String, plan: Option<&LogicalPlan>| {
                let full = format!(
                    "[{}] {}\n sql: {}\n optimized plan:\n{}\n tables: {}",
                    tag,
                    msg,
                    sql,
                    plan.map(|p| p.to_string()).unwrap_or_default(),
                    crate::sqlcheck::fmt_tables(&c.tables)
                );
                match classify(c, with_stats, &msg, plan) {
                    Some(id) => Verdict::Known { id: id.to_string(), msg: full },
                    None => Verdict::Fail(full),
                }
            };
            if with_stats && stats_of(ctx).is_empty() {
                obs.label("no_statistics_available");
            }
            let plan = match std::panic::catch_unwind(std::panic::AssertUnwindSafe(|| ctx.optimized_plan(&sql))) {
                Ok(Ok(p)) => p,
                Ok(Err(e)) => {
                    obs.label(format!("{}:optimize_error:{}", tag, crate::sqlcheck::short_err(&e.to_string())));
                    continue;
                }
                Err(p) => {
                    obs.label(format!("{}:optimize_panic:{}", tag, crate::sqlcheck::short_err(&panic_text(p))));
                    continue;
                }
            };
            if plan_text(&plan).contains("Multiply") {
                obs.label("packed_join_keys_fired");
            }
            if let Err(m) = validate(c, &plan) {
                // narrow: the first rule alone / shortest prefix whose plan already violates the predicate
                let mut first = String::from("only the complete pipeline");
                if let Ok(b) = bind(ctx, &sql) {
                    let st = stats_of(ctx);
                    for (name, rules) in util::configurations() {
                        if let Ok(p) = util::optimize_with(rules, &st, &b) {
                            // (a rule list without predicate pushdown legitimately keeps the written cross joins)
                            // (a rule list without JoinReorder legitimately keeps the written cross joins)
                            let pushes = name == "alone:JoinReorder" || name.split(':').nth(1).and_then(|k| k.parse::<usize>().ok()).map(|k| k >= 7).unwrap_or(false);
                            if pushes && validate(c, &p).is_err() && !plan_text(&p).eq(&plan_text(&b)) {
                                first = format!("{}\n plan after it:\n{}", name, p);
                                break;
                            }
                        }
                    }
                }
                return fail(format!("{}\n first violating rule configuration: {}", m, first), Some(&plan));
            }
            // answers
            let bound = match bind(ctx, &sql) {
                Ok(b) => b,
                Err(_) => continue,
            };
            let product: usize = c.tables.iter().map(|t| t.rows.len().max(1)).product();
            if product > 40_000 {
                obs.label("baseline_skipped_cross_product_too_large");
                continue;
            }
            match (execute_logical(ctx, &bound), run_sql(ctx, &sql)) {
                (Ok(a), Ok(b)) => {
                    if !multiset_eq(&a, &b, 0.0) {
                        let (mut x, mut y) = (a.clone(), b.clone());
                        canon_sort(&mut x);
                        canon_sort(&mut y);
                        return fail(format!("the optimized answer differs from the unoptimized one\n unoptimized ({} rows):\n{} optimized ({} rows):\n{}", a.len(), fmt_rows(&x, 30), b.len(), fmt_rows(&y, 30)), Some(&plan));
                    }
                    obs.label(format!("{}:same_answer", tag));
                }
                (Ok(_), Err(e)) => obs.label(format!("{}:only_optimized_errors:{}", tag, crate::sqlcheck::short_err(&e))),
                (Err(e), _) => obs.label(format!("{}:unoptimized_error:{}", tag, crate::sqlcheck::short_err(&e))),
            }
        }
        Verdict::Pass
    }
}

pub fn property() -> Property {
    Property {
        id: "C32",
        level: "exploration",
        assumptions: &[
            "column names are table-unique in the generated schemas, so equality classes are compared on bare column names",
            "a reorder that joins through an implied equality (same equivalence class) is accepted; a PackedJoinKeys pair counts as its two column equalities",
            "the wrappers written around join keys (CAST to the common key type, + 0, 0 +, - 0, * 1, 1 *, unary minus on both sides) preserve the value on the generated data (0..3), so a wrapped equality is the same join-graph edge and the same column equality as the plain one; the graph comes from the case's edge list, and the plan side peels exactly these forms with the harness's own walker",
            "both sides of a written equality have the same type by construction; a non-equality predicate compares two columns of one type or an integer column with an integer literal",
            "answer equality is checked when the cross product of the table sizes is at most 40 000 rows (the unoptimized plan of a comma join materialises it)",
        ],
        checks: vec![Box::new(ReorderKeepsGraph)],
    }
}
