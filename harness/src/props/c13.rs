//! C13 — Shard scans reassemble the table exactly.
//!
//! Code under test: `ShardedParquetTable` (through `ParquetTable::shard_by_splits`, the call the
//! coordinator makes) and `coordinator::shard_context`.
//!
//! Generator: a real Parquet table (1..6 files, tiny row groups, statistics on/off/page,
//! dictionary on/off) with a unique non-null `id`, a non-null `k`, a nullable int `a` and a
//! nullable string `s`. Splits come either from `distributed_splits` (the engine's own
//! enumeration) or one per row group from the harness's own footer read; every split may be
//! re-cut by hand into sub-row-group ranges. Splits are given to 1..8 nodes arbitrarily (or by
//! `assign_lpt`). Random projection; optional pushed filter.
//!
//! Oracle (reference = the generated rows, evaluated by the harness's own 3-valued predicate):
//!  * every shard provider reports `parquet_files() == None`;
//!  * direct `scan(proj)`: the union over nodes equals the table (multiset of projected rows);
//!  * direct `scan_with_filter(proj, f)`: the union contains every matching row, and no row
//!    more often than the table does (superset-then-refilter contract);
//!  * `shard_context` + `SELECT proj FROM t [WHERE f]`: union == exactly the matching rows;
//!    `SELECT COUNT(*), SUM(id)`: the per-shard partials add up to the table's.
use super::Property;
use crate::data::{batches_to_rows, canon_sort, fmt_rows, multiset_eq, pick_idx, row_cmp, ColType, Column, ParquetLayout, Rows, Table, TempDir, Value};
use crate::engine::run_sql;
use crate::runner::*;
use proptest::prelude::*;
use query_engine::distributed::coordinator::shard_context;
use query_engine::distributed::splits::{assign_lpt, Assignment, Split, SplitSet};
use query_engine::planner::{BinaryOp, Column as PCol, Expr, ScalarValue, UnaryOp};
use query_engine::ExecutionContext;
use serde::{Deserialize, Serialize};
use std::cmp::Ordering;
use std::path::{Path, PathBuf};

// ---------------------------------------------------------------------------
// table
// ---------------------------------------------------------------------------

fn mix(seed: u32, i: usize, col: u64) -> u64 {
    let mut z = (seed as u64) ^ ((i as u64) << 20) ^ (col << 56) ^ 0x9E3779B97F4A7C15;
    z = (z ^ (z >> 30)).wrapping_mul(0xBF58476D1CE4E5B9);
    z = (z ^ (z >> 27)).wrapping_mul(0x94D049BB133111EB);
    z ^ (z >> 31)
}

pub fn make_table(rows: usize, seed: u32) -> Table {
    const STRS: [&str; 5] = ["", "x", "y", "xy", "long string value"];
    let data = (0..rows)
        .map(|i| {
            let a = mix(seed, i, 1);
            let s = mix(seed, i, 2);
            vec![
                Value::Int(i as i64),
                Value::Int((mix(seed, i, 3) % 5) as i64),
                if a % 4 == 0 { Value::Null } else { Value::Int(((a >> 8) % 6) as i64) },
                if s % 5 == 0 { Value::Null } else { Value::Str(STRS[((s >> 8) % 5) as usize].to_string()) },
            ]
        })
        .collect();
    Table {
        name: "t".into(),
        cols: vec![
            Column { name: "id".into(), ty: ColType::Int },
            Column { name: "k".into(), ty: ColType::Int },
            Column { name: "a".into(), ty: ColType::Int },
            Column { name: "s".into(), ty: ColType::Str },
        ],
        rows: data,
    }
}

pub fn read_row_groups(path: &Path) -> Vec<i64> {
    use parquet::file::reader::{FileReader, SerializedFileReader};
    let r = SerializedFileReader::new(std::fs::File::open(path).unwrap()).unwrap();
    r.metadata().row_groups().iter().map(|g| g.num_rows()).collect()
}

// ---------------------------------------------------------------------------
// predicates
// ---------------------------------------------------------------------------

#[derive(Clone, Copy, Debug, Serialize, Deserialize, PartialEq)]
pub enum Op {
    Lt,
    LtEq,
    Gt,
    GtEq,
    Eq,
    NotEq,
}
impl Op {
    fn sql(self) -> &'static str {
        match self {
            Op::Lt => "<",
            Op::LtEq => "<=",
            Op::Gt => ">",
            Op::GtEq => ">=",
            Op::Eq => "=",
            Op::NotEq => "<>",
        }
    }
    fn bin(self) -> BinaryOp {
        match self {
            Op::Lt => BinaryOp::Lt,
            Op::LtEq => BinaryOp::LtEq,
            Op::Gt => BinaryOp::Gt,
            Op::GtEq => BinaryOp::GtEq,
            Op::Eq => BinaryOp::Eq,
            Op::NotEq => BinaryOp::NotEq,
        }
    }
    fn holds(self, o: Ordering) -> bool {
        match self {
            Op::Lt => o == Ordering::Less,
            Op::LtEq => o != Ordering::Greater,
            Op::Gt => o == Ordering::Greater,
            Op::GtEq => o != Ordering::Less,
            Op::Eq => o == Ordering::Equal,
            Op::NotEq => o != Ordering::Equal,
        }
    }
}

#[derive(Clone, Debug, Serialize, Deserialize, PartialEq)]
pub enum Pred {
    /// comparison of an int column (0 id, 1 k, 2 a) with a literal
    Cmp(usize, Op, i64),
    IdBetween(i64, i64),
    IsNull(usize),
    IsNotNull(usize),
    SEq(String),
    And(Box<Pred>, Box<Pred>),
    Or(Box<Pred>, Box<Pred>),
}

const COLS: [&str; 4] = ["id", "k", "a", "s"];

impl Pred {
    pub fn sql(&self) -> String {
        match self {
            Pred::Cmp(c, op, v) => format!("{} {} {}", COLS[*c], op.sql(), v),
            Pred::IdBetween(lo, hi) => format!("id BETWEEN {} AND {}", lo, hi),
            Pred::IsNull(c) => format!("{} IS NULL", COLS[*c]),
            Pred::IsNotNull(c) => format!("{} IS NOT NULL", COLS[*c]),
            Pred::SEq(s) => format!("s = '{}'", s),
            Pred::And(a, b) => format!("({} AND {})", a.sql(), b.sql()),
            Pred::Or(a, b) => format!("({} OR {})", a.sql(), b.sql()),
        }
    }
    pub fn expr(&self) -> Expr {
        let col = |c: usize| Expr::Column(PCol::new(COLS[c]));
        let int = |v: i64| Expr::Literal(ScalarValue::Int64(v));
        match self {
            Pred::Cmp(c, op, v) => Expr::BinaryExpr { left: Box::new(col(*c)), op: op.bin(), right: Box::new(int(*v)) },
            Pred::IdBetween(lo, hi) => Expr::Between { expr: Box::new(col(0)), low: Box::new(int(*lo)), high: Box::new(int(*hi)), negated: false },
            Pred::IsNull(c) => Expr::UnaryExpr { op: UnaryOp::IsNull, expr: Box::new(col(*c)) },
            Pred::IsNotNull(c) => Expr::UnaryExpr { op: UnaryOp::IsNotNull, expr: Box::new(col(*c)) },
            Pred::SEq(s) => Expr::BinaryExpr { left: Box::new(col(3)), op: BinaryOp::Eq, right: Box::new(Expr::Literal(ScalarValue::Utf8(s.clone()))) },
            Pred::And(a, b) => Expr::BinaryExpr { left: Box::new(a.expr()), op: BinaryOp::And, right: Box::new(b.expr()) },
            Pred::Or(a, b) => Expr::BinaryExpr { left: Box::new(a.expr()), op: BinaryOp::Or, right: Box::new(b.expr()) },
        }
    }
    /// SQL three-valued evaluation: Some(true/false) or None (unknown)
    pub fn eval(&self, row: &[Value]) -> Option<bool> {
        match self {
            Pred::Cmp(c, op, v) => match &row[*c] {
                Value::Int(x) => Some(op.holds(x.cmp(v))),
                _ => None,
            },
            Pred::IdBetween(lo, hi) => match &row[0] {
                Value::Int(x) => Some(lo <= x && x <= hi),
                _ => None,
            },
            Pred::IsNull(c) => Some(row[*c].is_null()),
            Pred::IsNotNull(c) => Some(!row[*c].is_null()),
            Pred::SEq(s) => match &row[3] {
                Value::Str(x) => Some(x == s),
                _ => None,
            },
            Pred::And(a, b) => match (a.eval(row), b.eval(row)) {
                (Some(false), _) | (_, Some(false)) => Some(false),
                (Some(true), Some(true)) => Some(true),
                _ => None,
            },
            Pred::Or(a, b) => match (a.eval(row), b.eval(row)) {
                (Some(true), _) | (_, Some(true)) => Some(true),
                (Some(false), Some(false)) => Some(false),
                _ => None,
            },
        }
    }
}

fn op_strategy() -> impl Strategy<Value = Op> {
    prop_oneof![Just(Op::Lt), Just(Op::LtEq), Just(Op::Gt), Just(Op::GtEq), Just(Op::Eq), Just(Op::NotEq)]
}

/// leaves over the non-null columns id, k
fn leaf_nonnull() -> BoxedStrategy<Pred> {
    prop_oneof![
        4 => (op_strategy(), -1i64..130).prop_map(|(op, v)| Pred::Cmp(0, op, v)),
        2 => (op_strategy(), -1i64..6).prop_map(|(op, v)| Pred::Cmp(1, op, v)),
        2 => (-1i64..130, 0i64..40).prop_map(|(lo, d)| Pred::IdBetween(lo, lo + d)),
    ]
    .boxed()
}
fn leaf_any() -> BoxedStrategy<Pred> {
    prop_oneof![
        5 => leaf_nonnull(),
        2 => (op_strategy(), -1i64..7).prop_map(|(op, v)| Pred::Cmp(2, op, v)),
        1 => (2usize..4).prop_map(Pred::IsNull),
        1 => (2usize..4).prop_map(Pred::IsNotNull),
        1 => prop_oneof![Just("x"), Just(""), Just("xy"), Just("absent")].prop_map(|s| Pred::SEq(s.to_string())),
    ]
    .boxed()
}
/// AND may mix nullable leaves (unknown and false both drop the row); OR stays on non-null
/// columns so that the engine's two-valued OR (a finding of another property) is not in play.
fn pred_strategy() -> BoxedStrategy<Pred> {
    prop_oneof![
        4 => leaf_any(),
        2 => (leaf_any(), leaf_any()).prop_map(|(a, b)| Pred::And(Box::new(a), Box::new(b))),
        2 => (leaf_nonnull(), leaf_nonnull()).prop_map(|(a, b)| Pred::Or(Box::new(a), Box::new(b))),
        1 => (leaf_nonnull(), leaf_nonnull(), leaf_any()).prop_map(|(a, b, c)| Pred::And(Box::new(Pred::Or(Box::new(a), Box::new(b))), Box::new(c))),
    ]
    .boxed()
}

// ---------------------------------------------------------------------------
// case
// ---------------------------------------------------------------------------

#[derive(Clone, Debug, Serialize, Deserialize)]
pub struct ShardCase {
    pub rows: usize,
    pub seed: u32,
    pub layout: ParquetLayout,
    /// Some(n): start from the engine's enumeration for n nodes; None: one split per row group
    pub enumerate_for: Option<usize>,
    /// per base split (cyclic): (how many extra cuts selector, position selectors)
    pub recut: Vec<(u16, u16, u16, u16)>,
    pub nodes: usize,
    /// None: assign_lpt; Some(owners): owner selector per split (cyclic)
    pub owners: Option<Vec<u16>>,
    pub projection: Option<Vec<usize>>,
    pub filter: Option<Pred>,
}

fn case_strategy(tier: Tier) -> BoxedStrategy<ShardCase> {
    let max_rows = tier.pick(120usize, 400usize);
    (
        (
            prop_oneof![1 => Just(0usize), 1 => 1usize..8, 8 => 8usize..=max_rows],
            any::<u32>(),
            proptest::collection::vec(0usize..=max_rows, 0..=5),
            prop_oneof![Just(1usize), Just(2), Just(3), Just(5), Just(8), Just(13), Just(40), Just(1000)],
            prop_oneof![3 => Just(1u8), 1 => Just(0u8), 2 => Just(2u8)],
            any::<bool>(),
        ),
        prop_oneof![1 => (1usize..=8).prop_map(Some), 1 => Just(None)],
        proptest::collection::vec((any::<u16>(), any::<u16>(), any::<u16>(), any::<u16>()), 1..12),
        1usize..=8,
        prop_oneof![1 => Just(None), 4 => proptest::collection::vec(any::<u16>(), 1..24).prop_map(Some)],
        prop_oneof![
            1 => Just(None),
            3 => proptest::sample::subsequence(vec![0usize, 1, 2, 3], 1..=4).prop_map(Some),
        ],
        prop_oneof![1 => Just(None), 3 => pred_strategy().prop_map(Some)],
    )
        .prop_map(|((rows, seed, file_cuts, row_group_size, stats, dictionary), enumerate_for, recut, nodes, owners, projection, filter)| ShardCase {
            rows,
            seed,
            layout: ParquetLayout { file_cuts, row_group_size, stats, dictionary },
            enumerate_for,
            recut,
            nodes,
            owners,
            projection,
            filter,
        })
        .boxed()
}

// ---------------------------------------------------------------------------
// helpers
// ---------------------------------------------------------------------------

fn project(rows: &Rows, proj: &Option<Vec<usize>>) -> Rows {
    match proj {
        None => rows.clone(),
        Some(p) => rows.iter().map(|r| p.iter().map(|&i| r[i].clone()).collect()).collect(),
    }
}

/// counts of each distinct row in a sorted copy
fn counts(rows: &Rows) -> Vec<(Vec<Value>, usize)> {
    let mut s = rows.clone();
    canon_sort(&mut s);
    let mut out: Vec<(Vec<Value>, usize)> = vec![];
    for r in s {
        match out.last_mut() {
            Some((k, n)) if row_cmp(k, &r) == Ordering::Equal => *n += 1,
            _ => out.push((r, 1)),
        }
    }
    out
}
fn count_of(c: &[(Vec<Value>, usize)], r: &[Value]) -> usize {
    c.binary_search_by(|(k, _)| row_cmp(k, r)).map(|i| c[i].1).unwrap_or(0)
}

fn file_name(p: &Path) -> String {
    p.file_name().unwrap().to_string_lossy().into_owned()
}

/// Re-cut one split into 1..=4 contiguous non-empty pieces.
fn recut_split(s: &Split, sel: (u16, u16, u16, u16)) -> Vec<Split> {
    let n = s.num_rows;
    if n < 2 {
        return vec![s.clone()];
    }
    let want = pick_idx(sel.0, 4); // 0..=3 extra cuts
    let mut pts: Vec<i64> = [sel.1, sel.2, sel.3].iter().take(want).map(|p| 1 + pick_idx(*p, (n - 1) as usize) as i64).collect();
    pts.sort_unstable();
    pts.dedup();
    let mut out = vec![];
    let mut lo = 0i64;
    for p in pts.into_iter().chain(std::iter::once(n)) {
        out.push(Split {
            table: s.table.clone(),
            path: s.path.clone(),
            file: s.file.clone(),
            row_group: s.row_group,
            row_offset: s.row_offset + lo,
            num_rows: p - lo,
            bytes: ((p - lo) * 10) as u64,
        });
        lo = p;
    }
    out
}

pub struct ShardScan;
impl Check for ShardScan {
    type Case = ShardCase;
    fn name(&self) -> &'static str {
        "shard_union"
    }
    fn rule(&self) -> &'static str {
        ">=2 nodes own row ranges of one and the same row group (so sub-row-group selections from different shards must tile it)"
    }
    fn cases(&self, tier: Tier) -> u32 {
        tier.pick(1500, 30_000)
    }
    fn strategy(&self, tier: Tier) -> BoxedStrategy<ShardCase> {
        case_strategy(tier)
    }
    fn test(&self, c: &ShardCase, obs: &mut Obs) -> Verdict {
        if c.nodes == 0 || c.nodes > 64 {
            return Verdict::Discard("nodes outside 1..64".into());
        }
        if let Some(p) = &c.projection {
            if p.is_empty() || p.iter().any(|i| *i >= 4) || p.windows(2).any(|w| w[0] >= w[1]) {
                return Verdict::Discard("projection must be an increasing non-empty list of column indices".into());
            }
        }
        let table = make_table(c.rows, c.seed);
        let tmp = TempDir::new("c13");
        let dir = tmp.path().join("t");
        let files: Vec<PathBuf> = crate::data::write_parquet(&table, &dir, &c.layout);
        let mut base = ExecutionContext::new();
        if let Err(e) = base.register_parquet("t", &dir) {
            return Verdict::Fail(format!("register_parquet failed: {}", e));
        }
        let provider = base.table_provider("t").expect("registered");

        // ---- base splits
        let mut base_splits: Vec<Split> = vec![];
        match c.enumerate_for {
            Some(n) => match provider.distributed_splits("t", n) {
                Some(Ok(set)) => {
                    obs.label("splits:engine_enumeration");
                    base_splits = set.splits;
                }
                Some(Err(e)) => return Verdict::Fail(format!("distributed_splits failed: {}", e)),
                None => return Verdict::Fail("ParquetTable returned no distributed_splits".into()),
            },
            None => {
                obs.label("splits:one_per_row_group");
                let mut fs = files.clone();
                fs.sort();
                for f in &fs {
                    for (rg, n) in read_row_groups(f).into_iter().enumerate() {
                        if n > 0 {
                            base_splits.push(Split {
                                table: "t".into(),
                                path: f.clone(),
                                file: file_name(f),
                                row_group: rg,
                                row_offset: 0,
                                num_rows: n,
                                bytes: (n * 10) as u64,
                            });
                        }
                    }
                }
            }
        }
        let mut splits: Vec<Split> = vec![];
        for (i, s) in base_splits.iter().enumerate() {
            splits.extend(recut_split(s, c.recut[i % c.recut.len().max(1)]));
        }
        if splits.len() > base_splits.len() {
            obs.label("hand_recut");
        }
        let set = SplitSet {
            table: "t".into(),
            total_bytes: splits.iter().map(|s| s.bytes).sum(),
            total_rows: splits.iter().map(|s| s.num_rows).sum(),
            target_split_bytes: 1,
            splits,
        };

        // ---- assignment
        let assignment: Assignment = match &c.owners {
            None => {
                obs.label("assign:lpt");
                assign_lpt(&set, c.nodes)
            }
            Some(sel) => {
                obs.label("assign:arbitrary");
                let mut per_node = vec![Vec::new(); c.nodes];
                for i in 0..set.splits.len() {
                    per_node[pick_idx(sel[i % sel.len()], c.nodes)].push(i);
                }
                Assignment {
                    nodes: c.nodes,
                    node_bytes: per_node.iter().map(|v: &Vec<usize>| v.iter().map(|&i| set.splits[i].bytes).sum()).collect(),
                    node_rows: per_node.iter().map(|v| v.iter().map(|&i| set.splits[i].num_rows).sum()).collect(),
                    node_splits: per_node.iter().map(|v| v.len()).collect(),
                    per_node,
                    total_bytes: set.total_bytes,
                }
            }
        };
        // non-triviality: some row group is shared by >=2 nodes
        let mut shared = false;
        {
            let mut owner_of_rg: std::collections::BTreeMap<(&Path, usize), usize> = Default::default();
            for (node, owned) in assignment.per_node.iter().enumerate() {
                for &i in owned {
                    let s = &set.splits[i];
                    match owner_of_rg.get(&(s.path.as_path(), s.row_group)) {
                        Some(o) if *o != node => shared = true,
                        None => {
                            owner_of_rg.insert((s.path.as_path(), s.row_group), node);
                        }
                        _ => {}
                    }
                }
            }
        }
        obs.nontrivial(shared);
        if assignment.per_node.iter().any(|v| v.is_empty()) {
            obs.label("has_empty_shard");
        }
        obs.label(format!("files:{}", files.len()));
        obs.label(if c.filter.is_some() { "filter:yes" } else { "filter:no" });
        obs.label(if c.projection.is_some() { "projection:yes" } else { "projection:no" });
        obs.sample(serde_json::json!({
            "rows": c.rows, "files": files.len(), "row_group_size": c.layout.row_group_size, "splits": set.splits.len(),
            "nodes": c.nodes, "projection": c.projection, "filter": c.filter.as_ref().map(|f| f.sql()),
        }));

        // ---- reference
        let all_proj = project(&table.rows, &c.projection);
        let matching: Rows = match &c.filter {
            None => table.rows.clone(),
            Some(f) => table.rows.iter().filter(|r| f.eval(r) == Some(true)).cloned().collect(),
        };
        let matching_proj = project(&matching, &c.projection);
        if c.filter.is_some() {
            obs.label(if matching.is_empty() {
                "filter_selects:none"
            } else if matching.len() == table.rows.len() {
                "filter_selects:all"
            } else {
                "filter_selects:some"
            });
        }
        let ctx_desc = || {
            format!(
                "rows={} files={} rg_size={} nodes={} per_node={:?} splits={:?}",
                c.rows,
                files.len(),
                c.layout.row_group_size,
                c.nodes,
                assignment.per_node,
                set.splits.iter().map(|s| format!("{}[{}]@{}+{}", s.file, s.row_group, s.row_offset, s.num_rows)).collect::<Vec<_>>()
            )
        };

        // ---- direct scans of every shard provider
        let proj_slice: Option<&[usize]> = c.projection.as_deref();
        let fexpr = c.filter.as_ref().map(|f| f.expr());
        let mut union_plain: Rows = vec![];
        let mut union_filtered: Rows = vec![];
        let mut shards = vec![];
        for node in 0..c.nodes {
            let owned: Vec<Split> = assignment.per_node[node].iter().map(|&i| set.splits[i].clone()).collect();
            let shard = match provider.shard_by_splits(&owned) {
                Some(Ok(p)) => p,
                Some(Err(e)) => return Verdict::Fail(format!("shard_by_splits failed: {} ({})", e, ctx_desc())),
                None => return Verdict::Fail("ParquetTable cannot shard by splits".into()),
            };
            if let Some(f) = shard.parquet_files() {
                return Verdict::Fail(format!(
                    "shard of node {} exposes whole files through parquet_files(): {:?} — whole-file fast paths would read every row on every node",
                    node, f
                ));
            }
            match shard.scan(proj_slice) {
                Ok(b) => union_plain.extend(batches_to_rows(&b)),
                Err(e) => return Verdict::Fail(format!("shard scan of node {} failed: {} ({})", node, e, ctx_desc())),
            }
            if let Some(fe) = &fexpr {
                match shard.scan_with_filter(proj_slice, Some(fe)) {
                    Ok(b) => union_filtered.extend(batches_to_rows(&b)),
                    Err(e) => {
                        // same filter on the whole table: if that fails too the filter is outside the engine's domain
                        return match provider.scan_with_filter(proj_slice, Some(fe)) {
                            Err(_) => Verdict::Discard("engine rejects this pushed filter on the unsharded table too".into()),
                            Ok(_) => Verdict::Fail(format!(
                                "filtered shard scan of node {} failed but the same scan of the whole table works: {} (filter {}; {})",
                                node,
                                e,
                                c.filter.as_ref().unwrap().sql(),
                                ctx_desc()
                            )),
                        };
                    }
                }
            }
            shards.push(shard);
        }
        if !multiset_eq(&union_plain, &all_proj, 0.0) {
            let (mut got, mut want) = (union_plain.clone(), all_proj.clone());
            canon_sort(&mut got);
            canon_sort(&mut want);
            return Verdict::Fail(format!(
                "union of shard scans != table: {} rows returned, table has {}.\n got: {}\nwant: {}\n{}",
                got.len(),
                want.len(),
                fmt_rows(&got, 40),
                fmt_rows(&want, 40),
                ctx_desc()
            ));
        }
        if let Some(f) = &c.filter {
            let got = counts(&union_filtered);
            let have = counts(&all_proj);
            let need = counts(&matching_proj);
            for (r, n) in &got {
                let h = count_of(&have, r);
                if *n > h {
                    return Verdict::Fail(format!(
                        "filtered shard scans return row {:?} {} times, the table holds it {} times (filter {}; {})",
                        r,
                        n,
                        h,
                        f.sql(),
                        ctx_desc()
                    ));
                }
            }
            for (r, n) in &need {
                let g = count_of(&got, r);
                if g < *n {
                    return Verdict::Fail(format!(
                        "filtered shard scans lose rows: {:?} satisfies {} {} times but is returned {} times ({})",
                        r,
                        f.sql(),
                        n,
                        g,
                        ctx_desc()
                    ));
                }
            }
        }

        // ---- through shard_context + SQL
        let cols_sql = match &c.projection {
            None => "*".to_string(),
            Some(p) => p.iter().map(|&i| COLS[i]).collect::<Vec<_>>().join(", "),
        };
        let where_sql = c.filter.as_ref().map(|f| format!(" WHERE {}", f.sql())).unwrap_or_default();
        let q_rows = format!("SELECT {} FROM t{}", cols_sql, where_sql);
        let q_agg = format!("SELECT COUNT(*), SUM(id) FROM t{}", where_sql);
        let mut union_sql: Rows = vec![];
        let (mut cnt, mut sum) = (0i64, 0i64);
        for node in 0..c.nodes {
            let (ctx, stats) = match shard_context(&base, "t", &set, &assignment, node) {
                Ok(x) => x,
                Err(e) => return Verdict::Fail(format!("shard_context({}) failed: {} ({})", node, e, ctx_desc())),
            };
            let want_rows: i64 = assignment.per_node[node].iter().map(|&i| set.splits[i].num_rows).sum();
            if stats.rows != want_rows || stats.splits != assignment.per_node[node].len() {
                return Verdict::Fail(format!(
                    "shard_context({}) reports {} rows / {} splits, the assignment gives it {} rows / {} splits",
                    node,
                    stats.rows,
                    stats.splits,
                    want_rows,
                    assignment.per_node[node].len()
                ));
            }
            for (q, is_agg) in [(&q_rows, false), (&q_agg, true)] {
                match run_sql(&ctx, q) {
                    Ok(rows) => {
                        if is_agg {
                            if rows.len() != 1 || rows[0].len() != 2 {
                                return Verdict::Fail(format!("`{}` on shard {} returned {}", q, node, fmt_rows(&rows, 5)));
                            }
                            match (&rows[0][0], &rows[0][1]) {
                                (Value::Int(n), Value::Int(s)) => {
                                    cnt += n;
                                    sum += s;
                                }
                                (Value::Int(n), Value::Null) => cnt += n,
                                other => return Verdict::Fail(format!("`{}` on shard {} returned {:?}", q, node, other)),
                            }
                        } else {
                            union_sql.extend(rows);
                        }
                    }
                    Err(e) => {
                        return match run_sql(&base, q) {
                            Err(_) => Verdict::Discard("engine rejects this query on the unsharded table too".into()),
                            Ok(_) => Verdict::Fail(format!("`{}` fails on shard {} but works on the whole table: {} ({})", q, node, e, ctx_desc())),
                        };
                    }
                }
            }
        }
        if !multiset_eq(&union_sql, &matching_proj, 0.0) {
            let (mut got, mut want) = (union_sql.clone(), matching_proj.clone());
            canon_sort(&mut got);
            canon_sort(&mut want);
            return Verdict::Fail(format!(
                "union over shard contexts of `{}` != reference: {} rows vs {}.\n got: {}\nwant: {}\n{}",
                q_rows,
                got.len(),
                want.len(),
                fmt_rows(&got, 40),
                fmt_rows(&want, 40),
                ctx_desc()
            ));
        }
        let want_cnt = matching.len() as i64;
        let want_sum: i64 = matching.iter().map(|r| if let Value::Int(x) = r[0] { x } else { 0 }).sum();
        if cnt != want_cnt || sum != want_sum {
            return Verdict::Fail(format!(
                "`{}`: per-shard partials add up to COUNT={} SUM(id)={}, the table gives COUNT={} SUM(id)={} ({})",
                q_agg,
                cnt,
                sum,
                want_cnt,
                want_sum,
                ctx_desc()
            ));
        }
        drop(shards);
        Verdict::Pass
    }
}

pub fn property() -> Property {
    Property {
        id: "C13",
        level: "exploration",
        assumptions: &[
            "splits tile the table (engine enumeration or one per row group, re-cut into non-empty contiguous ranges); the assignment gives every split to exactly one node",
            "pushed filters: comparisons/BETWEEN/IS [NOT] NULL/string equality, AND over any leaves, OR only over non-null columns (the engine's two-valued OR over NULLs belongs to another property)",
            "projections are increasing column-index lists, as the planner produces them",
            "a query the engine also rejects on the unsharded table is discarded, any other error in a shard is a failure",
        ],
        checks: vec![Box::new(ShardScan)],
    }
}
