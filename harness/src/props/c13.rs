//! C13 — not implemented yet.
use super::Property;

pub fn property() -> Property {
    Property { id: "C13", level: "exploration", assumptions: &[], checks: vec![] }
}
