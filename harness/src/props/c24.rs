//! C24 — not implemented yet.
use super::Property;

pub fn property() -> Property {
    Property { id: "C24", level: "exploration", assumptions: &[], checks: vec![] }
}
