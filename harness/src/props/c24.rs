//! C24 — Set operations have SQL multiset semantics.
//!
//! Generator (own, focused): 2–3 tables `r, s, u` with the SAME 1–3 column
//! types (BIGINT / INTEGER / DOUBLE / VARCHAR / DATE / BOOLEAN), whose rows are
//! drawn *with repetition* from one small pool of 1–4 rows (NULL density per
//! column 0/30/60 %) plus a few free rows — so identical rows (also rows that
//! contain NULLs) occur on both sides of an operator with different
//! multiplicities by construction. Statements: 2–4 SELECT leaves (optionally
//! DISTINCT, optionally filtered, columns permuted within a type, the odd
//! literal / typed NULL) combined by UNION / INTERSECT / EXCEPT × {DISTINCT, ALL}
//! into an arbitrary binary tree, rendered fully parenthesised; optionally the
//! whole set expression sits in a derived table under a column-subset
//! projection / filter / COUNT(*) (column pruning and predicate push-down
//! through set operators must not change the answer).
//! A second check renders 3–4 leaves as an UNPARENTHESISED chain and gives the
//! reference the tree the standard prescribes (INTERSECT binds tighter than
//! UNION / EXCEPT, which associate to the left).
//!
//! Oracle: `refsql` multiset algebra, NULLs not distinct (cross-checked against
//! SQLite). An engine error is an allowed outcome.
//!
//! Known findings are classified by *data-dependent* signatures computed from
//! the reference's view of every operator node (see `facts`).
use super::Property;
use crate::data::*;
use crate::refsql::{rows_not_distinct, Db};
use crate::runner::*;
use crate::sqlast::*;
use crate::sqlgen::*;
use proptest::prelude::*;

#[path = "c24_util.rs"]
mod util;
use util::*;

// ---------------------------------------------------------------------------
// data
// ---------------------------------------------------------------------------

fn tiny_value(ty: ColType, null_pct: u32) -> BoxedStrategy<Value> {
    let nn: BoxedStrategy<Value> = match ty {
        ColType::Int | ColType::Int32 => (0i64..3).prop_map(Value::Int).boxed(),
        ColType::Double => prop_oneof![Just(0.0f64), Just(0.25), Just(-1.5)].prop_map(Value::Double).boxed(),
        ColType::Str => prop_oneof![Just(""), Just("a"), Just("b")].prop_map(|s| Value::Str(s.to_string())).boxed(),
        ColType::Date => (0i32..2).prop_map(|d| Value::Date(10957 + d * 15)).boxed(),
        ColType::Bool => any::<bool>().prop_map(Value::Bool).boxed(),
    };
    if null_pct == 0 {
        nn
    } else {
        prop_oneof![null_pct => Just(Value::Null), (100 - null_pct) => nn].boxed()
    }
}

// BOOLEAN is rare: the engine rejects it as a de-duplication key (an error, which is allowed)
const TYPES: [ColType; 11] = [ColType::Int, ColType::Int, ColType::Int32, ColType::Str, ColType::Date, ColType::Bool, ColType::Double, ColType::Int, ColType::Str, ColType::Int32, ColType::Date];

/// 2–3 tables with identical column types; rows drawn with repetition from a
/// shared pool, plus free rows.
fn tables(max_rows: usize) -> BoxedStrategy<Vec<Table>> {
    // 45 % of the cases carry no NULL at all (the search continues behind the
    // open NULL-row finding of INTERSECT / EXCEPT)
    (proptest::collection::vec((proptest::sample::select(TYPES.to_vec()), proptest::sample::select(vec![0u32, 30, 60])), 1..=3), 0u32..100)
        .prop_map(|(spec, k)| if k < 45 { spec.into_iter().map(|(t, _)| (t, 0u32)).collect::<Vec<_>>() } else { spec })
        .prop_flat_map(move |spec| {
            let row: Vec<BoxedStrategy<Value>> = spec.iter().map(|(t, p)| tiny_value(*t, *p)).collect();
            let pool = proptest::collection::vec(row.clone(), 1..=4);
            // per table: selectors into the pool and a few free rows
            let per_table = (proptest::collection::vec(any::<u16>(), 0..=max_rows), proptest::collection::vec(row, 0..=2));
            (Just(spec), pool, proptest::collection::vec(per_table, 2..=3))
        })
        .prop_map(|(spec, pool, per)| {
            let names = ["r", "s", "u"];
            per.into_iter()
                .enumerate()
                .map(|(i, (sels, free))| {
                    let mut rows: Rows = sels.iter().map(|s| pool[pick_idx(*s, pool.len())].clone()).collect();
                    // free rows are interleaved deterministically
                    for (k, fr) in free.into_iter().enumerate() {
                        let at = if rows.is_empty() { 0 } else { (k * 3 + 1).min(rows.len()) };
                        rows.insert(at, fr);
                    }
                    Table {
                        name: names[i].to_string(),
                        cols: spec.iter().enumerate().map(|(j, (t, _))| Column { name: ["a", "b", "c"][j].to_string(), ty: *t }).collect(),
                        rows,
                    }
                })
                .collect()
        })
        .boxed()
}

// ---------------------------------------------------------------------------
// statements
// ---------------------------------------------------------------------------

fn lit(t: &mut Tape, ty: ColType) -> Expr {
    Expr::Lit(match ty {
        ColType::Int | ColType::Int32 => Value::Int(t.pick(3) as i64),
        ColType::Double => Value::Double([0.0, 0.25, -1.5][t.pick(3)]),
        ColType::Str => Value::Str(["a", "", "b"][t.pick(3)].to_string()),
        ColType::Date => Value::Date(10957 + t.pick(2) as i32 * 15),
        ColType::Bool => Value::Bool(t.pick(2) == 1),
    })
}

fn op_feature(op: SetOp, all: bool) -> &'static str {
    match (op, all) {
        (SetOp::Union, false) => "union",
        (SetOp::Union, true) => "union_all",
        (SetOp::Intersect, false) => "intersect",
        (SetOp::Intersect, true) => "intersect_all",
        (SetOp::Except, false) => "except",
        (SetOp::Except, true) => "except_all",
    }
}

struct G<'a> {
    t: Tape,
    tables: &'a [Table],
    feats: Vec<&'static str>,
    /// 0 = same alias per position, 1 = no aliases, 2 = fresh aliases per leaf
    alias_style: usize,
    leaf_no: usize,
}

impl<'a> G<'a> {
    fn feat(&mut self, f: &'static str) {
        if !self.feats.contains(&f) {
            self.feats.push(f);
        }
    }

    fn leaf(&mut self) -> SetExpr {
        self.leaf_no += 1;
        let ti = self.t.pick(self.tables.len());
        let tb = &self.tables[ti];
        let alias = format!("t{}", self.leaf_no);
        let mut items = vec![];
        for (j, col) in tb.cols.iter().enumerate() {
            let k = self.t.pick(25);
            let e = if k >= 24 {
                self.feat("leaf_typed_null");
                Expr::Cast(Box::new(Expr::Lit(Value::Null)), col.ty)
            } else if k >= 22 {
                self.feat("leaf_literal");
                lit(&mut self.t, col.ty)
            } else if k >= 19 {
                // another column of the same type (or the same one)
                let same: Vec<usize> = (0..tb.cols.len()).filter(|&x| tb.cols[x].ty == col.ty).collect();
                let x = same[self.t.pick(same.len())];
                if x != j {
                    self.feat("leaf_permuted");
                }
                Expr::qcol(&alias, &tb.cols[x].name)
            } else {
                Expr::qcol(&alias, &col.name)
            };
            let a = match self.alias_style {
                0 => Some(format!("x{}", j + 1)),
                1 => None,
                _ => Some(if self.leaf_no == 1 { format!("x{}", j + 1) } else { format!("y{}_{}", self.leaf_no, j + 1) }),
            };
            items.push(Item::Expr(e, a));
        }
        let where_ = if self.t.chance(25) {
            self.feat("leaf_where");
            let j = self.t.pick(tb.cols.len());
            let c = Expr::qcol(&alias, &tb.cols[j].name);
            Some(match self.t.pick(4) {
                0 => Expr::IsNull { e: Box::new(c), neg: true },
                1 => Expr::IsNull { e: Box::new(c), neg: false },
                2 if tb.cols[j].ty != ColType::Bool => Expr::bin(c, BinOp::Ne, lit(&mut self.t, tb.cols[j].ty)),
                _ => Expr::eq(c, lit(&mut self.t, tb.cols[j].ty)),
            })
        } else {
            None
        };
        let distinct = self.t.chance(12);
        if distinct {
            self.feat("leaf_distinct");
        }
        SetExpr::Select(Box::new(Select {
            distinct,
            items,
            from: vec![From::Table { name: tb.name.clone(), alias: Some(alias) }],
            where_,
            group: Group::None,
            having: None,
        }))
    }

    fn pick_op(&mut self) -> (SetOp, bool) {
        let op = [SetOp::Intersect, SetOp::Except, SetOp::Union][self.t.pick(3)];
        let all = self.t.chance(50);
        self.feat(op_feature(op, all));
        (op, all)
    }

    /// arbitrary binary tree over `n` leaves
    fn tree(&mut self, n: usize, depth: usize) -> SetExpr {
        if n == 1 {
            return self.leaf();
        }
        let left_n = 1 + self.t.pick(n - 1);
        let (op, all) = self.pick_op();
        if depth > 0 {
            self.feat("nested_setop");
        }
        if left_n > 1 {
            self.feat("setop_as_left_input");
        }
        if n - left_n > 1 {
            self.feat("setop_as_right_input");
        }
        let l = self.tree(left_n, depth + 1);
        let r = self.tree(n - left_n, depth + 1);
        SetExpr::Op { op, all, l: Box::new(l), r: Box::new(r) }
    }
}

/// The tree the standard assigns to `leaves[0] ops[0] leaves[1] ops[1] …`:
/// INTERSECT binds tighter; UNION and EXCEPT associate to the left.
fn precedence_tree(leaves: Vec<SetExpr>, ops: &[(SetOp, bool)]) -> SetExpr {
    // first fold runs of INTERSECT
    let mut terms: Vec<SetExpr> = vec![];
    let mut low_ops: Vec<(SetOp, bool)> = vec![];
    let mut it = leaves.into_iter();
    let mut cur = it.next().unwrap();
    for (k, leaf) in it.enumerate() {
        let (op, all) = ops[k];
        if op == SetOp::Intersect {
            cur = SetExpr::Op { op, all, l: Box::new(cur), r: Box::new(leaf) };
        } else {
            terms.push(cur);
            low_ops.push((op, all));
            cur = leaf;
        }
    }
    terms.push(cur);
    let mut it = terms.into_iter();
    let mut acc = it.next().unwrap();
    for (k, term) in it.enumerate() {
        let (op, all) = low_ops[k];
        acc = SetExpr::Op { op, all, l: Box::new(acc), r: Box::new(term) };
    }
    acc
}

/// In-order (leaves, operators) of a set-expression tree.
fn flatten(s: &SetExpr, leaves: &mut Vec<SetExpr>, ops: &mut Vec<(SetOp, bool)>) {
    match s {
        SetExpr::Op { op, all, l, r } => {
            flatten(l, leaves, ops);
            ops.push((*op, *all));
            flatten(r, leaves, ops);
        }
        other => leaves.push(other.clone()),
    }
}

/// Unparenthesised rendering; None when the stored tree is not the one the
/// precedence rules give to that text.
fn flat_sql(q: &Query) -> Option<String> {
    let (mut leaves, mut ops) = (vec![], vec![]);
    flatten(&q.body, &mut leaves, &mut ops);
    if precedence_tree(leaves.clone(), &ops) != q.body || !q.with.is_empty() || !q.order_by.is_empty() {
        return None;
    }
    let mut s = leaves[0].sql();
    for (k, (op, all)) in ops.iter().enumerate() {
        s.push_str(match op {
            SetOp::Union => " UNION ",
            SetOp::Intersect => " INTERSECT ",
            SetOp::Except => " EXCEPT ",
        });
        if *all {
            s.push_str("ALL ");
        }
        s.push_str(&leaves[k + 1].sql());
    }
    Some(s)
}

fn build_tree_case(tables: Vec<Table>, tape: Vec<u16>, cuts: Vec<Vec<usize>>, max_leaves: usize) -> SqlCase {
    let mut g = G { t: Tape::new(tape), tables: &tables, feats: vec![], alias_style: 0, leaf_no: 0 };
    let wrap = match g.t.pick(10) {
        0..=5 => 0,
        6 => 1,
        7 => 2,
        8 => 3,
        _ => 4,
    };
    g.alias_style = if wrap != 0 { 0 } else { g.t.pick(3) };
    g.feat(["alias_same", "alias_none", "alias_fresh"][g.alias_style]);
    let n = 2 + g.t.pick(max_leaves - 1);
    g.feat(["", "", "leaves2", "leaves3", "leaves4", "leaves5"][n.min(5)]);
    let body = g.tree(n, 0);
    let k = tables[0].cols.len();
    let inner = Query::of(body);
    let derived = |q: Query| From::Derived { q: Box::new(q), alias: "d".into(), cols: None };
    let query = match wrap {
        0 => inner,
        1 => {
            // column subset (pruning through the set operator would be wrong)
            g.feat("wrap_project_subset");
            let keep = g.t.pick(k);
            Query::select(Select::simple(vec![Item::Expr(Expr::qcol("d", &format!("x{}", keep + 1)), Some("o1".into()))], vec![derived(inner)], None))
        }
        2 => {
            g.feat("wrap_filter");
            let j = g.t.pick(k);
            let c = Expr::qcol("d", &format!("x{}", j + 1));
            let ty = tables[0].cols[j].ty;
            let w = match g.t.pick(3) {
                0 => Expr::IsNull { e: Box::new(c), neg: false },
                1 => Expr::IsNull { e: Box::new(c), neg: true },
                _ => Expr::eq(c, lit(&mut g.t, ty)),
            };
            Query::select(Select::simple(vec![Item::Star], vec![derived(inner)], Some(w)))
        }
        3 => {
            g.feat("wrap_count");
            Query::select(Select::simple(vec![Item::Expr(Expr::count_star(), Some("n".into()))], vec![derived(inner)], None))
        }
        _ => {
            g.feat("wrap_distinct");
            let keep = g.t.pick(k);
            let mut s = Select::simple(vec![Item::Expr(Expr::qcol("d", &format!("x{}", keep + 1)), Some("o1".into()))], vec![derived(inner)], None);
            s.distinct = true;
            Query::select(s)
        }
    };
    let features = g.feats.iter().map(|s| s.to_string()).collect();
    SqlCase { cuts: cuts.into_iter().take(tables.len()).collect(), tables, query, features }
}

fn build_flat_case(tables: Vec<Table>, tape: Vec<u16>, cuts: Vec<Vec<usize>>, max_leaves: usize) -> SqlCase {
    let mut g = G { t: Tape::new(tape), tables: &tables, feats: vec!["flat_chain"], alias_style: 0, leaf_no: 0 };
    g.alias_style = g.t.pick(3);
    let n = 3 + g.t.pick(max_leaves - 2);
    let leaves: Vec<SetExpr> = (0..n).map(|_| g.leaf()).collect();
    let mut ops = vec![];
    for k in 0..n - 1 {
        // make a later INTERSECT likely: that is where precedence shows
        let op = if k > 0 && g.t.chance(45) { SetOp::Intersect } else { [SetOp::Union, SetOp::Except, SetOp::Intersect][g.t.pick(3)] };
        let all = g.t.chance(50);
        g.feat(op_feature(op, all));
        ops.push((op, all));
    }
    if ops.iter().skip(1).any(|(o, _)| *o == SetOp::Intersect) && ops.iter().any(|(o, _)| *o != SetOp::Intersect) {
        g.feat("precedence_matters_syntactically");
    }
    let body = precedence_tree(leaves, &ops);
    let features = g.feats.iter().map(|s| s.to_string()).collect();
    SqlCase { cuts: cuts.into_iter().take(tables.len()).collect(), tables, query: Query::of(body), features }
}

fn strategy(tier: Tier, flat: bool) -> BoxedStrategy<SqlCase> {
    let max_rows = tier.pick(7usize, 24);
    let max_leaves = tier.pick(3usize, 5);
    (
        tables(max_rows),
        proptest::collection::vec(any::<u16>(), 0..90),
        proptest::collection::vec(proptest::collection::vec(0..=max_rows, 0..3), 3),
    )
        .prop_map(move |(tables, tape, cuts)| if flat { build_flat_case(tables, tape, cuts, max_leaves.max(4)) } else { build_tree_case(tables, tape, cuts, max_leaves) })
        .boxed()
}

// ---------------------------------------------------------------------------
// facts about the operator nodes, as the reference sees them
// ---------------------------------------------------------------------------

#[derive(Default, Debug, Clone)]
pub struct Facts {
    /// some operator has a common row that contains a NULL or is repeated on a side
    pub nontrivial: bool,
    /// INTERSECT / EXCEPT (any quantifier) node: a NULL-containing row of the left
    /// input is not distinct from a row of the right input
    pub null_row_matched: bool,
    /// INTERSECT ALL / EXCEPT ALL node: some row occurs l times left, r times
    /// right with l > r >= 1
    pub all_left_exceeds_right: bool,
    /// UNION (distinct) node whose combined input repeats a NULL-containing row
    pub union_null_dup: bool,
    pub precedence_matters: bool,
}

fn count(rows: &Rows, r: &[Value]) -> usize {
    rows.iter().filter(|x| rows_not_distinct(x, r)).count()
}

fn visit_ops(c: &SqlCase, s: &SetExpr, f: &mut Facts) {
    if let SetExpr::Op { op, all, l, r } = s {
        visit_ops(c, l, f);
        visit_ops(c, r, f);
        let run = |x: &SetExpr| Db::new(&c.tables).run(&Query::of(x.clone())).map(|a| a.rows);
        if let (Ok(a), Ok(b)) = (run(l), run(r)) {
            for row in &a {
                let (ca, cb) = (count(&a, row), count(&b, row));
                let has_null = row.iter().any(|v| v.is_null());
                if cb >= 1 && (has_null || (ca >= 2 && cb >= 2)) {
                    f.nontrivial = true;
                }
                if *op != SetOp::Union && has_null && cb >= 1 {
                    f.null_row_matched = true;
                }
                if *op != SetOp::Union && *all && cb >= 1 && ca > cb {
                    f.all_left_exceeds_right = true;
                }
                if *op == SetOp::Union && !*all && has_null && ca + cb >= 2 {
                    f.union_null_dup = true;
                }
            }
            for row in &b {
                if *op == SetOp::Union && !*all && row.iter().any(|v| v.is_null()) && count(&b, row) >= 2 {
                    f.union_null_dup = true;
                }
            }
        }
    }
}

fn find_setexprs<'a>(q: &'a Query, out: &mut Vec<&'a SetExpr>) {
    fn in_from<'a>(fr: &'a From, out: &mut Vec<&'a SetExpr>) {
        match fr {
            From::Derived { q, .. } => find_setexprs(q, out),
            From::Join { l, r, .. } => {
                in_from(l, out);
                in_from(r, out);
            }
            From::Table { .. } => {}
        }
    }
    match &q.body {
        SetExpr::Select(s) => {
            for fr in &s.from {
                in_from(fr, out);
            }
        }
        other => out.push(other),
    }
}

pub fn facts(c: &SqlCase) -> Facts {
    let mut f = Facts::default();
    let mut roots = vec![];
    find_setexprs(&c.query, &mut roots);
    for r in roots {
        visit_ops(c, r, &mut f);
        // does the left-to-right, equal-precedence reading give another answer?
        let (mut leaves, mut ops) = (vec![], vec![]);
        flatten(r, &mut leaves, &mut ops);
        if leaves.len() >= 3 {
            let mut it = leaves.into_iter();
            let mut acc = it.next().unwrap();
            for (k, leaf) in it.enumerate() {
                acc = SetExpr::Op { op: ops[k].0, all: ops[k].1, l: Box::new(acc), r: Box::new(leaf) };
            }
            let a = Db::new(&c.tables).run(&Query::of(acc)).map(|a| a.rows);
            let b = Db::new(&c.tables).run(&Query::of(r.clone())).map(|a| a.rows);
            if let (Ok(a), Ok(b)) = (a, b) {
                if !multiset_eq(&a, &b, 0.0) {
                    f.precedence_matters = true;
                }
            }
        }
    }
    f
}

// ---------------------------------------------------------------------------
// known-finding signatures (narrower than kf_sql's statement-shape ones)
// ---------------------------------------------------------------------------

/// Some SELECT that feeds a set operation (or is DISTINCT) outputs two columns
/// under the same name.
fn duplicate_output_name(c: &SqlCase) -> bool {
    fn names(s: &Select) -> Vec<String> {
        s.items
            .iter()
            .filter_map(|i| match i {
                Item::Expr(_, Some(a)) => Some(a.to_lowercase()),
                Item::Expr(Expr::Col { name, .. }, None) => Some(name.to_lowercase()),
                // an unaliased expression is named after its text; the engine prints
                // the DOUBLE literal 0.0 and the BIGINT literal 0 alike ("0")
                Item::Expr(Expr::Lit(Value::Double(d)), None) if d.fract() == 0.0 => Some(format!("{}", *d as i64)),
                Item::Expr(e, None) => Some(e.sql().to_lowercase()),
                _ => None,
            })
            .collect()
    }
    fn leaf_dup(s: &SetExpr) -> bool {
        match s {
            SetExpr::Select(sel) => {
                let n = names(sel);
                (0..n.len()).any(|i| n[i + 1..].contains(&n[i]))
            }
            SetExpr::Op { l, r, .. } => leaf_dup(l) || leaf_dup(r),
            _ => false,
        }
    }
    let mut roots = vec![];
    find_setexprs(&c.query, &mut roots);
    roots.iter().any(|r| leaf_dup(r))
}

fn classify(c: &SqlCase, ev: &Ev, msg: &str) -> Option<&'static str> {
    if duplicate_output_name(c) {
        return Some("setop-duplicate-output-name");
    }
    let f = facts(c);
    if f.null_row_matched {
        return Some("setop-null-row");
    }
    if f.all_left_exceeds_right {
        return Some("setop-all-multiplicity");
    }
    // everything else this generator can reach through the shared signatures,
    // except the two coarse set-operation ones refined above
    let _ = msg;
    crate::kf_sql::SIGS.iter().filter(|s| s.id != "setop-null-row" && s.id != "setop-all-multiplicity").find(|s| (s.pred)(c, ev)).map(|s| s.id)
}

// ---------------------------------------------------------------------------
// checks
// ---------------------------------------------------------------------------

struct SetOpCheck {
    name: &'static str,
    flat: bool,
    quick: u32,
    thorough: u32,
}

impl Check for SetOpCheck {
    type Case = SqlCase;
    fn name(&self) -> &'static str {
        self.name
    }
    fn rule(&self) -> &'static str {
        if self.flat {
            "the engine answered, and reading the unparenthesised chain left-to-right with equal precedence gives a different reference answer than the standard tree (INTERSECT first), or some operator has a common row that contains a NULL or is repeated on both sides"
        } else {
            "the engine answered and, for some operator node, a row occurs on both sides that contains a NULL or has multiplicity >= 2 on both sides"
        }
    }
    fn cases(&self, tier: Tier) -> u32 {
        tier.pick(self.quick, self.thorough)
    }
    fn max_shrink_iters(&self) -> u32 {
        1500
    }
    fn strategy(&self, tier: Tier) -> BoxedStrategy<SqlCase> {
        strategy(tier, self.flat)
    }
    fn test(&self, c: &SqlCase, obs: &mut Obs) -> Verdict {
        let sql = if self.flat {
            match flat_sql(&c.query) {
                Some(s) => s,
                None => return Verdict::Discard("stored tree is not the precedence tree of its flat text".into()),
            }
        } else {
            c.query.sql()
        };
        let out = judge_text(c, &sql, obs, 0.0, &classify);
        for e in &out.events {
            obs.label(format!("ev:{}", e));
        }
        let f = facts(c);
        if f.null_row_matched {
            obs.label("fact:null_row_matched");
        }
        if f.all_left_exceeds_right {
            obs.label("fact:all_left_exceeds_right");
        }
        if f.union_null_dup {
            obs.label("fact:union_null_dup");
        }
        if f.precedence_matters {
            obs.label("fact:precedence_matters");
        }
        obs.nontrivial(out.got.is_some() && (f.nontrivial || (self.flat && f.precedence_matters)));
        out.verdict
    }
}

pub fn property() -> Property {
    Property {
        id: "C24",
        level: "exploration",
        assumptions: &[
            "the reference evaluator refsql implements the standard's multiset algebra for UNION/INTERSECT/EXCEPT [ALL] with NULLs not distinct (cross-checked against SQLite)",
            "an unparenthesised chain is read with INTERSECT binding tighter than UNION/EXCEPT, which associate to the left (SQL standard; the engine's parser, sqlparser, documents the same)",
            "an engine error is an allowed outcome (the property only forbids wrong result multisets)",
        ],
        checks: vec![
            Box::new(SetOpCheck { name: "setop_tree", flat: false, quick: 4000, thorough: 120_000 }),
            Box::new(SetOpCheck { name: "setop_flat_chain", flat: true, quick: 1500, thorough: 45_000 }),
        ],
    }
}
