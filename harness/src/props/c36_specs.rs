//! C36: the function table. One `Spec` per (function, signature): SQL
//! template, argument kinds, the documented expectation, strictness.
//!
//! Sources of "documented": tests/function_validation_tests.rs (fixed
//! input/output pairs and their comments: 1-based SUBSTRING/STRPOS, ROUND half
//! away from zero, MOD sign of the dividend, LPAD/RPAD truncation and cyclic
//! pad, lower-case hex, '%20' URL encoding, DATE_DIFF/DATE_ADD/DATE_TRUNC
//! examples, digests of 'hello'), and .claude/plans/trino-function-
//! implementation.md (signatures/result types, "Trino-compatible"). Regions
//! that no such document settles return `Exp::Undoc` (path agreement only).
use super::gen::K;
use super::kat;
use super::r::*;
use crate::data::Value;
use std::sync::Arc;

#[derive(Clone, Copy, Debug, PartialEq, Eq)]
pub enum Fam {
    Math,
    Str,
    BitDateCond,
    Laws,
    Paths,
}

pub type RefFn = Arc<dyn Fn(&[Value]) -> Exp + Send + Sync>;

pub struct Spec {
    pub name: &'static str,
    pub fam: Fam,
    pub tpl: String,
    pub kinds: Vec<K>,
    pub refn: RefFn,
    /// strict[k]: a NULL k-th argument makes the result NULL
    pub strict: Vec<bool>,
    pub tol: f64,
    /// arguments the engine is known to read at row 0 of a batch only
    pub row0: Vec<usize>,
    /// law: on every row this other template must give the same value
    pub same_as: Option<String>,
    /// NULL percentage per argument
    pub nulls: Vec<u32>,
}

impl Spec {
    pub fn nonstrict(mut self) -> Self {
        for s in self.strict.iter_mut() {
            *s = false;
        }
        self
    }
    pub fn strict_only(mut self, ks: &[usize]) -> Self {
        for (k, s) in self.strict.iter_mut().enumerate() {
            *s = ks.contains(&k);
        }
        self
    }
    pub fn tol(mut self, t: f64) -> Self {
        self.tol = t;
        self
    }
    pub fn row0(mut self, ks: &[usize]) -> Self {
        self.row0 = ks.to_vec();
        self
    }
    pub fn same_as(mut self, t: &str) -> Self {
        self.same_as = Some(t.to_string());
        self
    }
    pub fn nulls(mut self, k: usize, pct: u32) -> Self {
        self.nulls[k] = pct;
        self
    }
}

fn sp(name: &'static str, fam: Fam, tpl: &str, kinds: &[K], refn: impl Fn(&[Value]) -> Exp + Send + Sync + 'static) -> Spec {
    Spec {
        name,
        fam,
        tpl: tpl.to_string(),
        kinds: kinds.to_vec(),
        refn: Arc::new(refn),
        strict: vec![true; kinds.len()],
        tol: 1e-12,
        row0: vec![],
        same_as: None,
        nulls: vec![7; kinds.len()],
    }
}

fn undoc(_: &[Value]) -> Exp {
    Exp::Undoc
}

fn substr_ref(st: &str, start: i64, len: Option<i64>) -> Exp {
    if start < 1 || len.map(|l| l < 0).unwrap_or(false) {
        return Exp::Undoc; // tests only pin start >= 1, len >= 0
    }
    let cs = chars(st);
    let from = ((start - 1) as usize).min(cs.len());
    let to = match len {
        Some(l) => (from + l as usize).min(cs.len()),
        None => cs.len(),
    };
    vs(cs[from..to].iter().collect::<String>())
}

fn pad_ref(st: &str, n: i64, pad: &str, left: bool) -> Exp {
    if n < 0 || pad.is_empty() {
        return Exp::Undoc;
    }
    let cs = chars(st);
    let n = n as usize;
    if cs.len() >= n {
        return vs(cs[..n].iter().collect::<String>());
    }
    let p = chars(pad);
    let fill: String = (0..n - cs.len()).map(|q| p[q % p.len()]).collect();
    if left {
        vs(format!("{}{}", fill, st))
    } else {
        vs(format!("{}{}", st, fill))
    }
}

fn digest_ref(table: &'static [(&'static str, &'static str)], hexlen: usize) -> impl Fn(&[Value]) -> Exp + Send + Sync {
    move |v: &[Value]| {
        let inp = s(&v[0]);
        if let Some((_, h)) = table.iter().find(|(k, _)| *k == inp) {
            return vs(*h);
        }
        Exp::P(Box::new(move |got: &Value| match got {
            Value::Str(h) if h.len() == hexlen && h.chars().all(|c| c.is_ascii_digit() || ('a'..='f').contains(&c)) => Ok(()),
            o => Err(format!("digest must be {} lower-case hex digits, got {:?}", hexlen, o)),
        }))
    }
}

fn max_non_null(v: &[Value], greatest: bool) -> Exp {
    // documented on non-NULL arguments only (tests); NULL arguments: strict
    let mut best = v[0].clone();
    for x in &v[1..] {
        let ord = x.canon_cmp(&best);
        if (greatest && ord == std::cmp::Ordering::Greater) || (!greatest && ord == std::cmp::Ordering::Less) {
            best = x.clone();
        }
    }
    Exp::V(best)
}

pub fn build() -> Vec<Spec> {
    use Fam::*;
    use K::*;
    let mut t: Vec<Spec> = vec![];

    // ------------------------------------------------------------------ math
    t.push(sp("ABS/int", Math, "ABS({0})", &[IntAny], |v| vi(i(&v[0]).abs())));
    t.push(sp("ABS/double", Math, "ABS({0})", &[Dbl], |v| {
        let x = f(&v[0]);
        vd(if x < 0.0 { -x } else { x })
    }));
    t.push(sp("CEIL/double", Math, "CEIL({0})", &[Dbl], |v| vd(ceil(f(&v[0])))));
    t.push(sp("CEILING/double", Math, "CEILING({0})", &[DblMid], |v| vd(ceil(f(&v[0])))));
    t.push(sp("FLOOR/double", Math, "FLOOR({0})", &[Dbl], |v| vd(floor(f(&v[0])))));
    t.push(sp("CEIL/int", Math, "CEIL({0})", &[IntAny], |v| vi(i(&v[0]))));
    t.push(sp("FLOOR/int", Math, "FLOOR({0})", &[IntAny], |v| vi(i(&v[0]))));
    t.push(sp("ROUND/double", Math, "ROUND({0})", &[DblMid], |v| vd(round_half_away(f(&v[0])))));
    t.push(sp("ROUND/int", Math, "ROUND({0})", &[IntAny], |v| vi(i(&v[0]))));
    t.push(
        sp("ROUND/double,places", Math, "ROUND({0}, {1})", &[DblDec, Places], |v| round_places_pred(f(&v[0]), i(&v[1])))
            .row0(&[1])
            .nulls(1, 2),
    );
    t.push(sp("TRUNCATE/double", Math, "TRUNCATE({0})", &[DblMid], |v| vd(trunc(f(&v[0])))));
    t.push(sp("TRUNCATE/int", Math, "TRUNCATE({0})", &[IntSmall], |v| vi(i(&v[0]))));
    t.push(sp("SIGN/int", Math, "SIGN({0})", &[IntAny], |v| vi(i(&v[0]).signum())));
    t.push(sp("SIGN/double", Math, "SIGN({0})", &[DblMid], |v| {
        let x = f(&v[0]);
        vi(if x > 0.0 { 1 } else if x < 0.0 { -1 } else { 0 })
    }));
    t.push(sp("MOD/int", Math, "MOD({0}, {1})", &[IntAny, IntNZ], |v| {
        let (a, b) = (i(&v[0]), i(&v[1]));
        // sign of the dividend (tests: MOD(-10,3)=-1, MOD(10,-3)=1)
        vi(a.wrapping_rem(b))
    }));
    t.push(sp("MOD/double", Math, "MOD({0}, {1})", &[DblMid, DblNZ], |v| Exp::A(f(&v[0]) % f(&v[1]))));
    t.push(sp("POWER/double", Math, "POWER({0}, {1})", &[DblMid, DblExp], |v| Exp::A(f(&v[0]).powf(f(&v[1])))));
    t.push(sp("POWER/int", Math, "POWER({0}, {1})", &[IntSmall, IntSmall], |v| Exp::A((i(&v[0]) as f64).powf(i(&v[1]) as f64))));
    t.push(sp("POW/double", Math, "POW({0}, {1})", &[DblPos, DblExp], |v| Exp::A(f(&v[0]).powf(f(&v[1])))));
    macro_rules! unary {
        ($name:expr, $tpl:expr, $k:expr, $f:expr) => {
            t.push(sp($name, Math, $tpl, &[$k], |v| Exp::A($f(f(&v[0])))));
        };
    }
    unary!("SQRT", "SQRT({0})", Dbl, |x: f64| x.sqrt());
    unary!("SQRT/int", "SQRT({0})", IntSmall, |x: f64| x.sqrt());
    unary!("CBRT", "CBRT({0})", Dbl, |x: f64| x.cbrt());
    unary!("EXP", "EXP({0})", DblMid, |x: f64| x.exp());
    unary!("LN", "LN({0})", Dbl, |x: f64| x.ln());
    unary!("LOG2", "LOG2({0})", Dbl, |x: f64| x.log2());
    unary!("LOG10", "LOG10({0})", Dbl, |x: f64| x.log10());
    unary!("SIN", "SIN({0})", DblMid, |x: f64| x.sin());
    unary!("COS", "COS({0})", DblMid, |x: f64| x.cos());
    unary!("TAN", "TAN({0})", DblMid, |x: f64| x.tan());
    unary!("ASIN", "ASIN({0})", DblUnit, |x: f64| x.asin());
    unary!("ACOS", "ACOS({0})", DblUnit, |x: f64| x.acos());
    unary!("ATAN", "ATAN({0})", Dbl, |x: f64| x.atan());
    unary!("SINH", "SINH({0})", DblMid, |x: f64| x.sinh());
    unary!("COSH", "COSH({0})", DblMid, |x: f64| x.cosh());
    unary!("TANH", "TANH({0})", DblMid, |x: f64| x.tanh());
    unary!("DEGREES", "DEGREES({0})", Dbl, |x: f64| x * (180.0 / std::f64::consts::PI));
    unary!("RADIANS", "RADIANS({0})", Dbl, |x: f64| x * (std::f64::consts::PI / 180.0));
    t.push(sp("ATAN2", Math, "ATAN2({0}, {1})", &[DblMid, DblMid], |v| Exp::A(f(&v[0]).atan2(f(&v[1])))));
    t.push(sp("LOG/base,x", Math, "LOG({0}, {1})", &[DblPos, DblPos], |v| Exp::A(f(&v[1]).ln() / f(&v[0]).ln())).tol(1e-9));
    t.push(sp("PI", Math, "PI()", &[], |_| vd(std::f64::consts::PI)));
    t.push(sp("E", Math, "E()", &[], |_| vd(std::f64::consts::E)));
    t.push(sp("IS_NAN", Math, "IS_NAN({0})", &[DblSpecial], |v| vb(f(&v[0]).is_nan())));
    t.push(sp("IS_FINITE", Math, "IS_FINITE({0})", &[DblSpecial], |v| vb(f(&v[0]).is_finite())));
    t.push(sp("IS_INFINITE", Math, "IS_INFINITE({0})", &[DblSpecial], |v| vb(f(&v[0]).is_infinite())));

    // --------------------------------------------------------------- strings
    t.push(sp("LENGTH", Str, "LENGTH({0})", &[Text], |v| vi(char_len(s(&v[0])))));
    t.push(sp("CHAR_LENGTH", Str, "CHAR_LENGTH({0})", &[Text], |v| vi(char_len(s(&v[0])))));
    t.push(sp("UPPER", Str, "UPPER({0})", &[TextCase], |v| if simple_case(s(&v[0])) { vs(upper(s(&v[0]))) } else { Exp::Undoc }));
    t.push(sp("LOWER", Str, "LOWER({0})", &[TextCase], |v| if simple_case(s(&v[0])) { vs(lower(s(&v[0]))) } else { Exp::Undoc }));
    t.push(sp("TRIM", Str, "TRIM({0})", &[TextWs], |v| vs(s(&v[0]).trim_matches(' '))));
    t.push(sp("LTRIM", Str, "LTRIM({0})", &[TextWs], |v| vs(s(&v[0]).trim_start_matches(' '))));
    t.push(sp("RTRIM", Str, "RTRIM({0})", &[TextWs], |v| vs(s(&v[0]).trim_end_matches(' '))));
    t.push(sp("SUBSTR/2", Str, "SUBSTR({0}, {1})", &[Text, Start], |v| substr_ref(s(&v[0]), i(&v[1]), None)).nulls(1, 2));
    t.push(
        sp("SUBSTRING/3", Str, "SUBSTRING({0}, {1}, {2})", &[Text, Start, Len], |v| substr_ref(s(&v[0]), i(&v[1]), Some(i(&v[2]))))
            .nulls(1, 2)
            .nulls(2, 2),
    );
    t.push(
        sp("SUBSTRING/from-for", Str, "SUBSTRING({0} FROM {1} FOR {2})", &[Text, Start, Len], |v| {
            substr_ref(s(&v[0]), i(&v[1]), Some(i(&v[2])))
        })
        .nulls(1, 2)
        .nulls(2, 2),
    );
    t.push(sp("LEFT", Str, "LEFT({0}, {1})", &[Text, Len], |v| {
        let n = i(&v[1]);
        if n < 0 {
            return Exp::Undoc;
        }
        vs(s(&v[0]).chars().take(n as usize).collect::<String>())
    })
    .nulls(1, 2));
    t.push(sp("RIGHT", Str, "RIGHT({0}, {1})", &[Text, Len], |v| {
        let n = i(&v[1]);
        if n < 0 {
            return Exp::Undoc;
        }
        let cs = chars(s(&v[0]));
        let st = cs.len().saturating_sub(n as usize);
        vs(cs[st..].iter().collect::<String>())
    })
    .nulls(1, 2));
    t.push(sp("LPAD", Str, "LPAD({0}, {1}, {2})", &[Text, Len, Pad], |v| pad_ref(s(&v[0]), i(&v[1]), s(&v[2]), true)).row0(&[2]).nulls(1, 2).nulls(2, 2));
    t.push(sp("RPAD", Str, "RPAD({0}, {1}, {2})", &[Text, Len, Pad], |v| pad_ref(s(&v[0]), i(&v[1]), s(&v[2]), false)).row0(&[2]).nulls(1, 2).nulls(2, 2));
    t.push(sp("REPLACE", Str, "REPLACE({0}, {1}, {2})", &[Text, Sub(0), TextShort], |v| {
        if s(&v[1]).is_empty() {
            return Exp::Undoc;
        }
        vs(replace_lit(s(&v[0]), s(&v[1]), s(&v[2])))
    }));
    t.push(sp("REVERSE", Str, "REVERSE({0})", &[Text], |v| vs(s(&v[0]).chars().rev().collect::<String>())));
    t.push(sp("REPEAT", Str, "REPEAT({0}, {1})", &[TextShort, Count], |v| vs(s(&v[0]).repeat(i(&v[1]) as usize))).nulls(1, 2));
    t.push(sp("STRPOS", Str, "STRPOS({0}, {1})", &[Text, Sub(0)], |v| vi(char_pos(s(&v[0]), s(&v[1])))));
    t.push(sp("POSITION", Str, "POSITION({1} IN {0})", &[Text, Sub(0)], |v| vi(char_pos(s(&v[0]), s(&v[1])))));
    t.push(sp("SPLIT_PART", Str, "SPLIT_PART({0}, {1}, {2})", &[TextDelim, Delim, Idx], |v| {
        let idx = i(&v[2]);
        let parts = split_lit(s(&v[0]), s(&v[1]));
        if idx < 1 || idx as usize > parts.len() {
            return Exp::Undoc; // out of range: not pinned by a test
        }
        vs(parts[idx as usize - 1].clone())
    })
    .nulls(2, 2));
    t.push(sp("STARTS_WITH", Str, "STARTS_WITH({0}, {1})", &[Text, Sub(0)], |v| {
        let (a, b) = (chars(s(&v[0])), chars(s(&v[1])));
        vb(a.len() >= b.len() && a[..b.len()] == b[..])
    }));
    t.push(sp("ENDS_WITH", Str, "ENDS_WITH({0}, {1})", &[Text, Sub(0)], |v| {
        let (a, b) = (chars(s(&v[0])), chars(s(&v[1])));
        vb(a.len() >= b.len() && a[a.len() - b.len()..] == b[..])
    }));
    // CONCAT with NULL arguments: engine skips them, SQL `||` gives NULL; no
    // document settles it -> only non-NULL tuples are referenced
    let concat_ref = |v: &[Value]| {
        if v.iter().any(|x| x.is_null()) {
            return Exp::Undoc;
        }
        vs(v.iter().map(|x| s(x).to_string()).collect::<String>())
    };
    t.push(sp("CONCAT/2", Str, "CONCAT({0}, {1})", &[Text, TextShort], concat_ref).nonstrict());
    t.push(sp("CONCAT/3", Str, "CONCAT({0}, {1}, {2})", &[TextShort, Text, TextShort], concat_ref).nonstrict());
    let ws_ref = |v: &[Value]| {
        // documented in the plan's Trino signature: NULL separator -> NULL,
        // NULL values skipped; tests pin CONCAT_WS('-','a','b','c')
        let parts: Vec<String> = v[1..].iter().filter(|x| !x.is_null()).map(|x| s(x).to_string()).collect();
        vs(parts.join(s(&v[0])))
    };
    t.push(sp("CONCAT_WS/3", Str, "CONCAT_WS({0}, {1}, {2})", &[Delim, Text, TextShort], ws_ref).strict_only(&[0]));
    t.push(sp("CONCAT_WS/4", Str, "CONCAT_WS({0}, {1}, {2}, {3})", &[Delim, TextShort, TextShort, Text], ws_ref).strict_only(&[0]));
    t.push(sp("ASCII", Str, "ASCII({0})", &[Text], |v| match s(&v[0]).chars().next() {
        Some(c) => vi(c as i64),
        None => Exp::Undoc,
    }));
    t.push(sp("CHR", Str, "CHR({0})", &[Cp], |v| match u32::try_from(i(&v[0])).ok().and_then(char::from_u32) {
        Some(c) => vs(c.to_string()),
        None => Exp::Undoc,
    }));
    t.push(sp("CODEPOINT", Str, "CODEPOINT({0})", &[Ch], |v| {
        let cs = chars(s(&v[0]));
        if cs.len() == 1 {
            vi(cs[0] as i64)
        } else {
            Exp::Undoc
        }
    }));
    t.push(sp("TRANSLATE", Str, "TRANSLATE({0}, {1}, {2})", &[Text, CharsOf(0), TextShort], |v| {
        let from = chars(s(&v[1]));
        let to = chars(s(&v[2]));
        let mut out = String::new();
        for c in s(&v[0]).chars() {
            match from.iter().position(|x| *x == c) {
                None => out.push(c),
                Some(p) => match to.get(p) {
                    Some(r) => out.push(*r),
                    // matched char beyond `to`: kept by the engine, dropped by
                    // Trino; tests only pin equal-length from/to
                    None => return Exp::Undoc,
                },
            }
        }
        vs(out)
    }));
    t.push(sp("LEVENSHTEIN_DISTANCE", Str, "LEVENSHTEIN_DISTANCE({0}, {1})", &[TextShort, SameLen(0)], |v| vi(levenshtein(s(&v[0]), s(&v[1])))));
    t.push(sp("LEVENSHTEIN_DISTANCE/any", Str, "LEVENSHTEIN_DISTANCE({0}, {1})", &[Text, Text], |v| vi(levenshtein(s(&v[0]), s(&v[1])))));
    t.push(sp("HAMMING_DISTANCE", Str, "HAMMING_DISTANCE({0}, {1})", &[Text, SameLen(0)], |v| {
        let (a, b) = (chars(s(&v[0])), chars(s(&v[1])));
        if a.len() != b.len() {
            return Exp::Undoc; // engine: NULL, Trino: error
        }
        vi(a.iter().zip(b.iter()).filter(|(x, y)| x != y).count() as i64)
    }));

    // ---------------------------------------------------------------- bitwise
    t.push(sp("BITWISE_AND", BitDateCond, "BITWISE_AND({0}, {1})", &[IntAny, IntAny], |v| vi(i(&v[0]) & i(&v[1]))));
    t.push(sp("BITWISE_OR", BitDateCond, "BITWISE_OR({0}, {1})", &[IntAny, IntAny], |v| vi(i(&v[0]) | i(&v[1]))));
    t.push(sp("BITWISE_XOR", BitDateCond, "BITWISE_XOR({0}, {1})", &[IntAny, IntAny], |v| vi(i(&v[0]) ^ i(&v[1]))));
    t.push(sp("BITWISE_NOT", BitDateCond, "BITWISE_NOT({0})", &[IntAny], |v| vi(!i(&v[0]))));
    t.push(sp("BIT_COUNT", BitDateCond, "BIT_COUNT({0})", &[IntAny], |v| {
        let mut x = i(&v[0]) as u64;
        let mut n = 0;
        while x != 0 {
            n += (x & 1) as i64;
            x >>= 1;
        }
        vi(n)
    }));
    t.push(sp("BITWISE_LEFT_SHIFT", BitDateCond, "BITWISE_LEFT_SHIFT({0}, {1})", &[IntAny, Shift], |v| {
        vi(((i(&v[0]) as u64) << (i(&v[1]) as u32)) as i64)
    }));
    t.push(sp("BITWISE_RIGHT_SHIFT", BitDateCond, "BITWISE_RIGHT_SHIFT({0}, {1})", &[IntAny, Shift], |v| {
        vi(((i(&v[0]) as u64) >> (i(&v[1]) as u32)) as i64)
    }));
    t.push(sp(
        "BITWISE_RIGHT_SHIFT_ARITHMETIC",
        BitDateCond,
        "BITWISE_RIGHT_SHIFT_ARITHMETIC({0}, {1})",
        &[IntAny, Shift],
        |v| vi(i(&v[0]) >> (i(&v[1]) as u32)),
    ));

    // ------------------------------------------------------------------ dates
    t.push(sp("YEAR", BitDateCond, "YEAR({0})", &[Date], |v| vi(civil_from_days(d(&v[0]) as i64).0)));
    t.push(sp("MONTH", BitDateCond, "MONTH({0})", &[Date], |v| vi(civil_from_days(d(&v[0]) as i64).1)));
    t.push(sp("DAY", BitDateCond, "DAY({0})", &[Date], |v| vi(civil_from_days(d(&v[0]) as i64).2)));
    t.push(sp("QUARTER", BitDateCond, "QUARTER({0})", &[Date], |v| vi((civil_from_days(d(&v[0]) as i64).1 - 1) / 3 + 1)));
    t.push(sp("EXTRACT/year", BitDateCond, "EXTRACT(YEAR FROM {0})", &[Date], |v| vi(civil_from_days(d(&v[0]) as i64).0)));
    t.push(sp("EXTRACT/month", BitDateCond, "EXTRACT(MONTH FROM {0})", &[Date], |v| vi(civil_from_days(d(&v[0]) as i64).1)));
    t.push(sp("EXTRACT/day", BitDateCond, "EXTRACT(DAY FROM {0})", &[Date], |v| vi(civil_from_days(d(&v[0]) as i64).2)));
    t.push(sp("DATE_PART/year", BitDateCond, "DATE_PART('year', {0})", &[Date], |v| vi(civil_from_days(d(&v[0]) as i64).0)));
    t.push(sp("DATE_PART/month", BitDateCond, "DATE_PART('month', {0})", &[Date], |v| vi(civil_from_days(d(&v[0]) as i64).1)));
    t.push(sp("DATE_PART/day", BitDateCond, "DATE_PART('day', {0})", &[Date], |v| vi(civil_from_days(d(&v[0]) as i64).2)));
    t.push(sp("DATE_PART/quarter", BitDateCond, "DATE_PART('quarter', {0})", &[Date], |v| vi((civil_from_days(d(&v[0]) as i64).1 - 1) / 3 + 1)));
    // ISO week: plan lists WEEK/YEAR_OF_WEEK with Trino's signature ("week_of_year", "ISO week year")
    t.push(sp("WEEK", BitDateCond, "WEEK({0})", &[Date], |v| vi(iso_week(d(&v[0]) as i64).1)));
    t.push(sp("YEAR_OF_WEEK", BitDateCond, "YEAR_OF_WEEK({0})", &[Date], |v| vi(iso_week(d(&v[0]) as i64).0)));
    t.push(sp("DAY_OF_YEAR", BitDateCond, "DAY_OF_YEAR({0})", &[Date], |v| vi(day_of_year(d(&v[0]) as i64))));
    // numbering convention (ISO Monday=1 vs Sunday=1) is pinned by no test:
    // demand only range 1..=7 and the 7-day cycle relative to 1970-01-01
    t.push(sp("DAY_OF_WEEK", BitDateCond, "DAY_OF_WEEK({0}) - DAY_OF_WEEK(DATE '1970-01-01')", &[Date], |v| {
        let days = d(&v[0]) as i64;
        Exp::P(Box::new(move |got: &Value| match got {
            Value::Int(g) if (-6..=6).contains(g) && (g - days).rem_euclid(7) == 0 => Ok(()),
            o => Err(format!("weekday offset from 1970-01-01 must be = {} (mod 7) within -6..=6, got {:?}", days.rem_euclid(7), o)),
        }))
    }));
    t.push(sp("DAY_OF_WEEK/range", BitDateCond, "DAY_OF_WEEK({0})", &[Date], |_| {
        Exp::P(Box::new(|got: &Value| match got {
            Value::Int(g) if (1..=7).contains(g) => Ok(()),
            o => Err(format!("DAY_OF_WEEK must be in 1..=7, got {:?}", o)),
        }))
    }));
    t.push(sp("LAST_DAY_OF_MONTH", BitDateCond, "LAST_DAY_OF_MONTH({0})", &[Date], |v| {
        let (y, m, _) = civil_from_days(d(&v[0]) as i64);
        vdate(days_from_civil(y, m, days_in_month(y, m)) as i32)
    }));
    for unit in ["day", "week", "month", "quarter", "year"] {
        let name: &'static str = Box::leak(format!("DATE_TRUNC/{}", unit).into_boxed_str());
        t.push(sp(name, BitDateCond, &format!("DATE_TRUNC('{}', {{0}})", unit), &[Date], move |v| {
            let days = d(&v[0]) as i64;
            let (y, m, _) = civil_from_days(days);
            vdate(match unit {
                "day" => days,
                "week" => days - (iso_weekday(days) - 1), // tests/comment: start of ISO week (Monday)
                "month" => days_from_civil(y, m, 1),
                "quarter" => days_from_civil(y, (m - 1) / 3 * 3 + 1, 1),
                _ => days_from_civil(y, 1, 1),
            } as i32)
        }));
    }
    for unit in ["day", "week", "month", "year"] {
        let name: &'static str = Box::leak(format!("DATE_ADD/{}", unit).into_boxed_str());
        t.push(
            sp(name, BitDateCond, &format!("DATE_ADD('{}', {{0}}, {{1}})", unit), &[IntSmall, Date], move |v| {
                let (n, days) = (i(&v[0]), d(&v[1]) as i64);
                vdate(match unit {
                    "day" => days + n,
                    "week" => days + 7 * n,
                    "month" => add_months(days, n),
                    _ => add_months(days, 12 * n),
                } as i32)
            })
            .nulls(0, 2),
        );
        let name: &'static str = Box::leak(format!("DATE_DIFF/{}", unit).into_boxed_str());
        t.push(sp(name, BitDateCond, &format!("DATE_DIFF('{}', {{0}}, {{1}})", unit), &[Date, Date], move |v| {
            let (a, b) = (d(&v[0]) as i64, d(&v[1]) as i64);
            match unit {
                "day" => vi(b - a),
                "week" => vi((b - a) / 7),
                "month" => {
                    // tests pin only whole-month examples: reference where the
                    // calendar-month and elapsed-month readings coincide
                    let (c, e) = (calendar_months_between(a, b), full_months_between(a, b));
                    if c == e {
                        vi(c)
                    } else {
                        Exp::Undoc
                    }
                }
                _ => {
                    let e = full_months_between(a, b);
                    let cy = civil_from_days(b).0 - civil_from_days(a).0;
                    let ey = if e >= 0 { e / 12 } else { -((-e) / 12) };
                    if cy == ey {
                        vi(cy)
                    } else {
                        Exp::Undoc
                    }
                }
            }
        }));
    }

    // ------------------------------------------------------------ conditional
    let coalesce = |v: &[Value]| Exp::V(v.iter().find(|x| !x.is_null()).cloned().unwrap_or(Value::Null));
    t.push(sp("COALESCE/int2", BitDateCond, "COALESCE({0}, {1})", &[IntSmall, IntSmall], coalesce).nonstrict().nulls(0, 40).nulls(1, 30));
    t.push(sp("COALESCE/int3", BitDateCond, "COALESCE({0}, {1}, {2})", &[IntAny, IntSmall, IntSmall], coalesce).nonstrict().nulls(0, 50).nulls(1, 50).nulls(2, 30));
    t.push(sp("COALESCE/str2", BitDateCond, "COALESCE({0}, {1})", &[Text, TextShort], coalesce).nonstrict().nulls(0, 40).nulls(1, 30));
    t.push(sp("COALESCE/double2", BitDateCond, "COALESCE({0}, {1})", &[DblMid, DblMid], coalesce).nonstrict().nulls(0, 40).nulls(1, 30));
    let nullif = |v: &[Value]| {
        // NULLIF(a,b): NULL when a = b, else a (a NULL -> NULL, b NULL -> a)
        if v[0].is_null() {
            return Exp::V(Value::Null);
        }
        if !v[1].is_null() && v[0].canon_cmp(&v[1]) == std::cmp::Ordering::Equal {
            return Exp::V(Value::Null);
        }
        Exp::V(v[0].clone())
    };
    t.push(sp("NULLIF/int", BitDateCond, "NULLIF({0}, {1})", &[IntSmall, IntSmall], nullif).nonstrict().nulls(0, 15).nulls(1, 15));
    t.push(sp("NULLIF/str", BitDateCond, "NULLIF({0}, {1})", &[TextShort, SameLen(0)], nullif).nonstrict().nulls(0, 15).nulls(1, 15));
    t.push(sp("NULLIF/double", BitDateCond, "NULLIF({0}, {1})", &[DblUnit, DblUnit], nullif).nonstrict().nulls(0, 15).nulls(1, 15));
    t.push(sp("GREATEST/int2", BitDateCond, "GREATEST({0}, {1})", &[IntAny, IntAny], |v| max_non_null(v, true)).nulls(0, 2).nulls(1, 2));
    t.push(sp("LEAST/int2", BitDateCond, "LEAST({0}, {1})", &[IntAny, IntAny], |v| max_non_null(v, false)).nulls(0, 2).nulls(1, 2));
    t.push(sp("GREATEST/int3", BitDateCond, "GREATEST({0}, {1}, {2})", &[IntSmall, IntSmall, IntSmall], |v| max_non_null(v, true)).nulls(0, 1).nulls(1, 1).nulls(2, 1));
    t.push(sp("LEAST/int3", BitDateCond, "LEAST({0}, {1}, {2})", &[IntSmall, IntSmall, IntSmall], |v| max_non_null(v, false)).nulls(0, 1).nulls(1, 1).nulls(2, 1));
    t.push(sp("GREATEST/double2", BitDateCond, "GREATEST({0}, {1})", &[DblMid, DblMid], |v| max_non_null(v, true)).nulls(0, 2).nulls(1, 2));
    t.push(sp("LEAST/double2", BitDateCond, "LEAST({0}, {1})", &[DblMid, DblMid], |v| max_non_null(v, false)).nulls(0, 2).nulls(1, 2));
    t.push(sp("GREATEST/str2", BitDateCond, "GREATEST({0}, {1})", &[TextShort, TextShort], |v| max_non_null(v, true)).nulls(0, 2).nulls(1, 2));
    t.push(sp("LEAST/str2", BitDateCond, "LEAST({0}, {1})", &[TextShort, TextShort], |v| max_non_null(v, false)).nulls(0, 2).nulls(1, 2));
    let iff = |v: &[Value]| Exp::V(if matches!(v[0], Value::Bool(true)) { v[1].clone() } else { v[2].clone() });
    t.push(sp("IF/int", BitDateCond, "IF({0}, {1}, {2})", &[Bool, IntSmall, IntSmall], iff).nonstrict().nulls(0, 15));
    t.push(sp("IF/str", BitDateCond, "IF({0}, {1}, {2})", &[Bool, Text, TextShort], iff).nonstrict().nulls(0, 15));
    t.push(sp("IF/double", BitDateCond, "IF({0}, {1}, {2})", &[Bool, DblMid, DblMid], iff).nonstrict().nulls(0, 15));
    t.push(sp("IF/cmp", BitDateCond, "IF({0} > {1}, {0}, {1})", &[IntSmall, IntSmall], |v| {
        if v[1].is_null() {
            return Exp::V(Value::Null);
        }
        if v[0].is_null() {
            return Exp::V(v[1].clone());
        }
        Exp::V(if i(&v[0]) > i(&v[1]) { v[0].clone() } else { v[1].clone() })
    })
    .nonstrict());

    // ------------------------------------------------- laws, encodings, digests
    t.push(sp("TO_HEX/int", Laws, "TO_HEX({0})", &[IntAny], |v| {
        let x = i(&v[0]);
        if x < 0 {
            return Exp::Undoc; // tests pin non-negative only
        }
        vs(format!("{:x}", x))
    }));
    t.push(sp("FROM_HEX.TO_HEX", Laws, "FROM_UTF8(FROM_HEX(TO_HEX(TO_UTF8({0}))))", &[Text], |v| vs(s(&v[0]))));
    t.push(sp("TO_HEX.TO_UTF8", Laws, "LOWER(TO_HEX(TO_UTF8({0})))", &[Text], |v| vs(hex(s(&v[0]).as_bytes()))));
    t.push(sp("TO_BASE64", Laws, "TO_BASE64({0})", &[Text], |v| vs(base64(s(&v[0]).as_bytes()))));
    t.push(sp("FROM_BASE64.TO_BASE64", Laws, "FROM_UTF8(FROM_BASE64(TO_BASE64({0})))", &[Text], |v| vs(s(&v[0]))));
    t.push(sp("FROM_UTF8.TO_UTF8", Laws, "FROM_UTF8(TO_UTF8({0}))", &[Text], |v| vs(s(&v[0]))));
    t.push(sp("URL_DECODE.URL_ENCODE", Laws, "URL_DECODE(URL_ENCODE({0}))", &[Text], |v| vs(s(&v[0]))));
    t.push(sp("URL_ENCODE", Laws, "URL_ENCODE({0})", &[Text], |v| {
        let src = s(&v[0]).to_string();
        Exp::P(Box::new(move |got: &Value| {
            let g = match got {
                Value::Str(g) => g,
                o => return Err(format!("expected a string, got {:?}", o)),
            };
            if !g.is_ascii() {
                return Err("encoded text must be ASCII".into());
            }
            // tests: ' ' -> '%20'; alphanumerics stay; decoding gives the input back
            if g.contains(' ') {
                return Err("space must be encoded".into());
            }
            match percent_decode(g) {
                Some(bytes) if bytes == src.as_bytes() => {}
                _ => return Err("percent-decoding the result does not give the input back".into()),
            }
            let alnum_in = src.chars().filter(|c| c.is_ascii_alphanumeric()).count();
            let alnum_out = g.chars().enumerate().filter(|(_, c)| c.is_ascii_alphanumeric()).count();
            if alnum_out < alnum_in {
                return Err("an ASCII alphanumeric was encoded".into());
            }
            Ok(())
        }))
    }));
    t.push(sp("UPPER idempotent", Laws, "UPPER(UPPER({0}))", &[Text], undoc).same_as("UPPER({0})"));
    t.push(sp("LOWER idempotent", Laws, "LOWER(LOWER({0}))", &[Text], undoc).same_as("LOWER({0})"));
    t.push(sp("TRIM idempotent", Laws, "TRIM(TRIM({0}))", &[TextWs], undoc).same_as("TRIM({0})"));
    t.push(sp("TRIM = LTRIM.RTRIM", Laws, "LTRIM(RTRIM({0}))", &[TextWs], undoc).same_as("TRIM({0})"));
    t.push(
        sp("LENGTH(CONCAT) additive", Laws, "LENGTH(CONCAT({0}, {1}))", &[Text, Text], undoc)
            .same_as("LENGTH({0}) + LENGTH({1})")
            .nulls(0, 0)
            .nulls(1, 0),
    );
    t.push(sp("REVERSE involution", Laws, "REVERSE(REVERSE({0}))", &[Text], |v| vs(s(&v[0]))));
    t.push(sp("BITWISE_NOT involution", Laws, "BITWISE_NOT(BITWISE_NOT({0}))", &[IntAny], |v| vi(i(&v[0]))));
    t.push(sp("MD5", Laws, "MD5({0})", &[Kat], digest_ref(kat::MD5_KAT, 32)));
    t.push(sp("SHA1", Laws, "SHA1({0})", &[Kat], digest_ref(kat::SHA1_KAT, 40)));
    t.push(sp("SHA256", Laws, "SHA256({0})", &[Kat], digest_ref(kat::SHA256_KAT, 64)));
    t.push(sp("SHA512", Laws, "SHA512({0})", &[Kat], digest_ref(kat::SHA512_KAT, 128)));
    // plan: crc32(binary) -> bigint; tests: CRC32('hello') = 907060870
    t.push(sp("CRC32", Laws, "CRC32({0})", &[Kat], |v| vi(crc32(s(&v[0]).as_bytes()) as i64)));
    t.push(sp("JSON_FORMAT.JSON_PARSE", Laws, "JSON_FORMAT(JSON_PARSE({0}))", &[Json], |v| {
        let src = s(&v[0]).to_string();
        match serde_json::from_str::<serde_json::Value>(&src) {
            Err(_) => Exp::Undoc, // invalid JSON: NULL in the engine, an error in Trino
            Ok(want) => Exp::P(Box::new(move |got: &Value| match got {
                Value::Str(g) => match serde_json::from_str::<serde_json::Value>(g) {
                    Ok(j) if j == want => Ok(()),
                    Ok(j) => Err(format!("formatted JSON parses to {} instead of {}", j, want)),
                    Err(e) => Err(format!("formatted JSON does not parse: {}", e)),
                },
                o => Err(format!("expected JSON text, got {:?}", o)),
            })),
        }
    }));
    // regular expressions on metacharacter-free patterns = literal search
    fn plain(p: &str) -> bool {
        !p.is_empty() && p.chars().all(|c| c.is_alphanumeric() || c == ' ' || c == ',' || c == '_' || c == '%' || c == '\'')
    }
    t.push(sp("REGEXP_LIKE/literal", Laws, "REGEXP_LIKE({0}, {1})", &[Text, SubNE(0)], |v| {
        if !plain(s(&v[1])) {
            return Exp::Undoc;
        }
        vb(char_pos(s(&v[0]), s(&v[1])) > 0)
    }));
    t.push(sp("REGEXP_COUNT/literal", Laws, "REGEXP_COUNT({0}, {1})", &[Text, SubNE(0)], |v| {
        if !plain(s(&v[1])) {
            return Exp::Undoc;
        }
        vi(count_lit(s(&v[0]), s(&v[1])))
    }));
    t.push(sp("REGEXP_REPLACE/literal", Laws, "REGEXP_REPLACE({0}, {1}, {2})", &[Text, SubNE(0), TextShort], |v| {
        if !plain(s(&v[1])) || s(&v[2]).contains('$') || s(&v[2]).contains('\\') {
            return Exp::Undoc;
        }
        vs(replace_lit(s(&v[0]), s(&v[1]), s(&v[2])))
    }));

    // ------------------------------ path agreement + NULL rule only (no reference)
    for (name, tpl, kinds) in [
        ("SOUNDEX", "SOUNDEX({0})", vec![TextCase]),
        ("LUHN_CHECK", "LUHN_CHECK({0})", vec![Digits]),
        ("NORMALIZE", "NORMALIZE({0})", vec![Text]),
        ("WORD_STEM", "WORD_STEM({0})", vec![TextCase]),
        ("URL_EXTRACT_HOST", "URL_EXTRACT_HOST({0})", vec![Url]),
        ("URL_EXTRACT_PATH", "URL_EXTRACT_PATH({0})", vec![Url]),
        ("URL_EXTRACT_PROTOCOL", "URL_EXTRACT_PROTOCOL({0})", vec![Url]),
        ("URL_EXTRACT_PORT", "URL_EXTRACT_PORT({0})", vec![Url]),
        ("URL_EXTRACT_QUERY", "URL_EXTRACT_QUERY({0})", vec![Url]),
        ("URL_EXTRACT_FRAGMENT", "URL_EXTRACT_FRAGMENT({0})", vec![Url]),
        ("TO_BASE32", "TO_BASE32({0})", vec![Text]),
        ("TO_BASE64URL", "TO_BASE64URL({0})", vec![Text]),
        ("XXHASH64", "XXHASH64({0})", vec![Text]),
        ("HMAC_SHA256", "HMAC_SHA256({0}, {1})", vec![Text, TextShort]),
        ("COT", "COT({0})", vec![DblMid]),
        ("LOG/1", "LOG({0})", vec![DblPos]),
        ("SPLIT", "SPLIT({0}, {1})", vec![TextDelim, Delim]),
        ("REGEXP_POSITION", "REGEXP_POSITION({0}, {1})", vec![Text, SubNE(0)]),
        ("REGEXP_SPLIT", "REGEXP_SPLIT({0}, {1})", vec![TextDelim, Delim]),
        ("FORMAT_NUMBER", "FORMAT_NUMBER({0}, 2)", vec![DblDec]),
        ("JSON_ARRAY_LENGTH", "JSON_ARRAY_LENGTH({0})", vec![Json]),
        ("IS_JSON_SCALAR", "IS_JSON_SCALAR({0})", vec![Json]),
        ("JSON_EXTRACT", "JSON_EXTRACT({0}, '$.a')", vec![Json]),
        ("JSON_EXTRACT_SCALAR", "JSON_EXTRACT_SCALAR({0}, '$.c')", vec![Json]),
        ("NORMAL_CDF", "NORMAL_CDF(0, 1, {0})", vec![DblUnit]),
    ] {
        t.push(sp(name, Paths, tpl, &kinds, undoc));
    }
    t.push(sp("FROM_BASE", Paths, "FROM_BASE({0}, {1})", &[Digits, Radix], undoc).row0(&[1]).nulls(1, 1));
    t.push(sp("TO_BASE", Paths, "TO_BASE({0}, {1})", &[IntAny, Radix], undoc).row0(&[1]).nulls(1, 1));
    t.push(sp("WIDTH_BUCKET", Paths, "WIDTH_BUCKET({0}, 0, 10, {1})", &[DblMid, Count], undoc).row0(&[1]).nulls(1, 1));
    t.push(sp("REGEXP_EXTRACT/3", Paths, "REGEXP_EXTRACT({0}, '([a-z]+)([^a-z]*)', {1})", &[Text, Count], undoc).row0(&[1]).nulls(1, 1));
    t
}
