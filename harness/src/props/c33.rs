//! C33 — not implemented yet.
use super::Property;

pub fn property() -> Property {
    Property { id: "C33", level: "exploration", assumptions: &[], checks: vec![] }
}
