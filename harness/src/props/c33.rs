//! C33 — Memory pool accounting is exact under concurrency.
//!
//! Code under test: `execution::memory::{MemoryPool, MemoryReservation}`.
//!
//! The engine (feature `verif-hooks`) calls `verif_hooks::yield_point(site)`
//! before every atomic step of the pool ("try_allocate.load",
//! "try_allocate.cas", "allocate.add", "resize.rmw", "release.sub").  This
//! module installs a per-thread callback that implements a **token-passing
//! schedule controller**: the logical threads are real OS threads, exactly one
//! holds the token and runs, and at every yield point the next entry of the
//! case's schedule decides who runs next.  A run is therefore a pure function
//! of (pool limit, programs, schedule); it replays and shrinks like any case.
//!
//! Oracle: a sequential reference (`model_used`, kept in u128) stepped at the
//! linearisation point of every operation.  Every operation's only effect on
//! the pool is its last atomic step and no other thread can run between that
//! step and the operation's return (there is no yield point in between), so
//! the reference is stepped when the operation returns:
//!   * a granted `try_allocate(n)` must have had `model_used + n <= max`;
//!   * after every operation `pool.used() == model_used` = Σ sizes of live
//!     reservations (threads parked in the middle of an operation have not
//!     performed its effect yet), hence `used` never wraps or underflows;
//!   * when every thread has finished and dropped everything, `used() == 0`.
//!
//! Checks
//!  * `all_schedules`  — case = (limit, 2 programs of ≤3 ops); EVERY schedule of
//!    that pair is enumerated (stateless depth-first search over the decision
//!    points the controller reports).  The exhaustive tier runs a whole family
//!    of program pairs.
//!  * `random_schedule` — 2–3 threads, ≤4 ops each, generated schedule.
//!  * `stress16` — 16 unhooked threads; invariants at quiescence only (and
//!    `used <= max` throughout when nothing can legally exceed the limit).
use super::Property;
use crate::runner::*;
use proptest::prelude::*;
use query_engine::execution::{MemoryPool, MemoryReservation};
use query_engine::verif_hooks::set_yield_callback;
use serde::{Deserialize, Serialize};
use std::sync::{Arc, Condvar, Mutex};
use std::time::Duration;

#[derive(Clone, Debug, Serialize, Deserialize, PartialEq, Eq, Hash)]
pub enum Op {
    /// conditional reservation
    Try(usize),
    /// forced reservation (may exceed the limit)
    Alloc(usize),
    /// resize the `slot`-selected live reservation of this thread to `n` bytes
    Resize { slot: u8, n: usize },
    /// drop the `slot`-selected live reservation of this thread
    Drop { slot: u8 },
}

fn pick8(sel: u8, len: usize) -> usize {
    ((sel as usize) * len) >> 8
}

// ---------------------------------------------------------------------------
// controller: bookkeeping shared by both back ends
// ---------------------------------------------------------------------------
#[derive(Clone, Copy, PartialEq, Debug)]
enum TryPhase {
    None,
    /// at "try_allocate.load": `used` not read yet
    Load,
    /// has read `used`, parked at / about to perform the CAS
    Cas,
}

struct Ctl {
    n: usize,
    finished: Vec<bool>,
    schedule: Vec<u8>,
    pos: usize,
    /// number of options at each decision point that had >= 2 options
    options: Vec<u8>,
    /// the (normalised) choice taken at each of those points
    choices: Vec<u8>,
    // reference model
    max: usize,
    model_used: u128,
    violation: Option<String>,
    infra: Option<String>,
    // non-triviality bookkeeping
    phase: Vec<TryPhase>,
    two_in_try: bool,
    resize_in_try: bool,
    effect_in_try: bool,
    cas_retries: u32,
    switches: u32,
    refused_though_fits: u32,
    grants: u32,
    refusals: u32,
    trace: Vec<String>,
}

impl Ctl {
    fn new(max: usize, n: usize, schedule: &[u8]) -> Ctl {
        Ctl {
            n,
            finished: vec![false; n],
            schedule: schedule.to_vec(),
            pos: 0,
            options: vec![],
            choices: vec![],
            max,
            model_used: 0,
            violation: None,
            infra: None,
            phase: vec![TryPhase::None; n],
            two_in_try: false,
            resize_in_try: false,
            effect_in_try: false,
            cas_retries: 0,
            switches: 0,
            refused_though_fits: 0,
            grants: 0,
            refusals: 0,
            trace: vec![],
        }
    }

    /// Decide who runs next. `me` = the deciding thread (usize::MAX for the
    /// start); `me_runnable` = whether `me` itself is an option.  Options: me
    /// first (if runnable), then the other unfinished threads in cyclic order
    /// after me.  A schedule entry is consumed only when there are >= 2
    /// options; an exhausted schedule reads as 0 ("keep going"), an entry
    /// beyond the number of options wraps — so every schedule is legal and a
    /// finished thread is never chosen.
    fn decide(&mut self, me: usize, me_runnable: bool) -> Option<usize> {
        let mut opts: Vec<usize> = vec![];
        if me_runnable {
            opts.push(me);
        }
        let start = if me == usize::MAX { 0 } else { me + 1 };
        for k in 0..self.n {
            let t = (start + k) % self.n;
            if t != me && !self.finished[t] {
                opts.push(t);
            }
        }
        match opts.len() {
            0 => None,
            1 => Some(opts[0]),
            len => {
                let raw = self.schedule.get(self.pos).copied().unwrap_or(0);
                self.pos += 1;
                let ch = (raw as usize) % len;
                self.options.push(len as u8);
                self.choices.push(ch as u8);
                Some(opts[ch])
            }
        }
    }

    /// thread `me` is about to perform the atomic step named `site`
    fn note_yield(&mut self, me: usize, site: &'static str) {
        match site {
            "try_allocate.load" => self.phase[me] = TryPhase::Load,
            "try_allocate.cas" => {
                if self.phase[me] == TryPhase::Cas {
                    self.cas_retries += 1;
                }
                self.phase[me] = TryPhase::Cas;
                if (0..self.n).any(|t| t != me && self.phase[t] == TryPhase::Cas) {
                    self.two_in_try = true;
                }
            }
            _ => {}
        }
        if self.trace.len() < 200 {
            self.trace.push(format!("t{}@{}", me, site));
        }
    }

    fn into_out(self, final_used: usize) -> RunOut {
        let mut violation = self.violation;
        if violation.is_none() && final_used != 0 {
            violation = Some(format!("all reservations dropped but pool.used() = {}", final_used));
        }
        RunOut {
            violation,
            options: self.options,
            choices: self.choices,
            two_in_try: self.two_in_try,
            resize_in_try: self.resize_in_try,
            effect_in_try: self.effect_in_try,
            cas_retries: self.cas_retries,
            switches: self.switches,
            refused_though_fits: self.refused_though_fits,
            grants: self.grants,
            refusals: self.refusals,
            infra: self.infra,
        }
    }
}

#[derive(Debug, Default, Clone, PartialEq)]
pub struct RunOut {
    pub violation: Option<String>,
    pub options: Vec<u8>,
    pub choices: Vec<u8>,
    pub two_in_try: bool,
    pub resize_in_try: bool,
    pub effect_in_try: bool,
    pub cas_retries: u32,
    pub switches: u32,
    pub refused_though_fits: u32,
    pub grants: u32,
    pub refusals: u32,
    pub infra: Option<String>,
}

/// how a logical thread reaches the controller state
trait Access {
    fn ctl<R>(&self, f: impl FnOnce(&mut Ctl) -> R) -> R;
}

/// apply the effect of a finished operation of thread `me` to the reference
/// and compare with the pool
fn step_model<A: Access>(a: &A, pool: &MemoryPool, me: usize, what: &str, delta: i128, grant: Option<usize>) {
    let used = pool.used();
    a.ctl(|g| {
        if let Some(n) = grant {
            if g.model_used + n as u128 > g.max as u128 && g.violation.is_none() {
                g.violation = Some(format!(
                    "t{} {}: granted although used_before({}) + {} > max({}) (trace: {})",
                    me,
                    what,
                    g.model_used,
                    n,
                    g.max,
                    g.trace.join(" ")
                ));
            }
        }
        let new = g.model_used as i128 + delta;
        assert!(new >= 0, "harness bug: reference went negative");
        g.model_used = new as u128;
        if delta != 0 {
            let others_in_try = (0..g.n).any(|t| t != me && g.phase[t] == TryPhase::Cas);
            if others_in_try {
                g.effect_in_try = true;
                if what.starts_with("resize") {
                    g.resize_in_try = true;
                }
            }
        }
        g.phase[me] = TryPhase::None;
        if used as u128 != g.model_used && g.violation.is_none() {
            g.violation = Some(format!(
                "after t{} {}: pool.used() = {} but the live reservations sum to {} (trace: {})",
                me,
                what,
                used,
                g.model_used,
                g.trace.join(" ")
            ));
        }
        if g.trace.len() < 200 {
            g.trace.push(format!("t{}:{}={}", me, what, used));
        }
    })
}

fn run_program<'p, A: Access>(a: &A, pool: &'p MemoryPool, me: usize, prog: &[Op]) {
    let mut live: Vec<MemoryReservation<'p>> = vec![];
    for op in prog {
        match *op {
            Op::Try(n) => match pool.try_allocate(n) {
                Some(res) => {
                    step_model(a, pool, me, &format!("try_allocate({})->Some", n), n as i128, Some(n));
                    live.push(res);
                    a.ctl(|g| g.grants += 1);
                }
                None => {
                    // not demanded by the property, only measured
                    a.ctl(|g| {
                        if g.model_used + n as u128 <= g.max as u128 {
                            g.refused_though_fits += 1;
                        }
                        g.refusals += 1;
                    });
                    step_model(a, pool, me, &format!("try_allocate({})->None", n), 0, None);
                }
            },
            Op::Alloc(n) => {
                let res = pool.allocate(n);
                step_model(a, pool, me, &format!("allocate({})", n), n as i128, None);
                live.push(res);
            }
            Op::Resize { slot, n } => {
                if live.is_empty() {
                    continue;
                }
                let i = pick8(slot, live.len());
                let old = live[i].size();
                live[i].resize(n);
                step_model(a, pool, me, &format!("resize({}->{})", old, n), n as i128 - old as i128, None);
                let now = live[i].size();
                if now != n {
                    a.ctl(|g| {
                        if g.violation.is_none() {
                            g.violation = Some(format!("t{} resize: size() = {} after resize to {}", me, now, n));
                        }
                    });
                }
            }
            Op::Drop { slot } => {
                if live.is_empty() {
                    continue;
                }
                let i = pick8(slot, live.len());
                let res = live.remove(i);
                let sz = res.size();
                drop(res);
                step_model(a, pool, me, &format!("drop({})", sz), -(sz as i128), None);
            }
        }
    }
    // end of program: drop what is left, oldest first
    while !live.is_empty() {
        let res = live.remove(0);
        let sz = res.size();
        drop(res);
        step_model(a, pool, me, &format!("drop({})", sz), -(sz as i128), None);
    }
}

fn panic_text(e: Box<dyn std::any::Any + Send>) -> String {
    e.downcast_ref::<&str>()
        .map(|s| s.to_string())
        .or_else(|| e.downcast_ref::<String>().cloned())
        .unwrap_or_else(|| "panic".into())
}

fn note_panic(g: &mut Ctl, me: usize, msg: String) {
    if msg.starts_with("harness bug") {
        g.infra = Some(msg);
    } else if g.violation.is_none() {
        g.violation = Some(format!("t{} panicked inside a pool operation: {}", me, msg));
    }
}

// ---------------------------------------------------------------------------
// back end 1: real OS threads, token passing over a mutex + condvar
// ---------------------------------------------------------------------------
struct Shared {
    /// (controller, thread holding the token; usize::MAX = nobody)
    m: Mutex<(Ctl, usize, bool)>,
    cv: Condvar,
}
const WAIT_LIMIT: Duration = Duration::from_secs(120);

impl Access for Arc<Shared> {
    fn ctl<R>(&self, f: impl FnOnce(&mut Ctl) -> R) -> R {
        let mut g = self.m.lock().unwrap_or_else(|e| e.into_inner());
        f(&mut g.0)
    }
}

impl Shared {
    fn wait_for_token(&self, mut g: std::sync::MutexGuard<'_, (Ctl, usize, bool)>, me: usize) {
        while g.1 != me {
            let (g2, to) = self.cv.wait_timeout(g, WAIT_LIMIT).unwrap_or_else(|e| e.into_inner());
            g = g2;
            if to.timed_out() && g.1 != me {
                // never hang the process: run on without the token and report
                // the run as an infrastructure failure
                g.2 = true;
                return;
            }
        }
    }
    fn yield_at(&self, me: usize, site: &'static str) {
        if std::thread::panicking() {
            return;
        }
        let mut g = self.m.lock().unwrap_or_else(|e| e.into_inner());
        if g.2 {
            return;
        }
        g.0.note_yield(me, site);
        let next = g.0.decide(me, true).expect("the yielding thread is runnable");
        if next != me {
            g.0.switches += 1;
            g.1 = next;
            self.cv.notify_all();
            self.wait_for_token(g, me);
        }
    }
    fn finish(&self, me: usize) {
        let mut g = self.m.lock().unwrap_or_else(|e| e.into_inner());
        g.0.finished[me] = true;
        g.0.phase[me] = TryPhase::None;
        g.1 = g.0.decide(me, false).unwrap_or(usize::MAX);
        self.cv.notify_all();
    }
}

/// One controlled run on real OS threads. Pure function of its arguments.
pub fn run_threads(max: usize, programs: &[Vec<Op>], schedule: &[u8]) -> RunOut {
    let n = programs.len();
    if n == 0 {
        return RunOut::default();
    }
    let pool = MemoryPool::new(max);
    let sh = Arc::new(Shared { m: Mutex::new((Ctl::new(max, n, schedule), usize::MAX, false)), cv: Condvar::new() });
    std::thread::scope(|s| {
        for (me, prog) in programs.iter().enumerate() {
            let sh = sh.clone();
            let pool = &pool;
            s.spawn(move || {
                let cb_sh = sh.clone();
                set_yield_callback(Some(Box::new(move |site| cb_sh.yield_at(me, site))));
                {
                    let g = sh.m.lock().unwrap_or_else(|e| e.into_inner());
                    sh.wait_for_token(g, me);
                }
                let r = std::panic::catch_unwind(std::panic::AssertUnwindSafe(|| run_program(&sh, pool, me, prog)));
                set_yield_callback(None);
                if let Err(e) = r {
                    let msg = panic_text(e);
                    sh.ctl(|g| note_panic(g, me, msg));
                }
                sh.finish(me);
            });
        }
        // hand the token to the first thread
        let mut g = sh.m.lock().unwrap_or_else(|e| e.into_inner());
        g.1 = g.0.decide(usize::MAX, false).unwrap();
        drop(g);
        sh.cv.notify_all();
    });
    let sh = Arc::try_unwrap(sh).ok().expect("all threads joined");
    let (mut ctl, _, timed_out) = sh.m.into_inner().unwrap_or_else(|e| e.into_inner());
    if timed_out {
        ctl.infra = Some("controller wait timed out (harness deadlock?)".into());
    }
    ctl.into_out(pool.used())
}

// ---------------------------------------------------------------------------
// back end 2: the same logical threads as user-level contexts on ONE OS thread
// (ucontext).  Identical decisions, identical bookkeeping; a context switch
// costs well under a microsecond and does not depend on how busy the machine
// is, which is what makes exhaustive enumeration affordable.  `agree` checks
// that both back ends produce identical runs.
// ---------------------------------------------------------------------------
#[cfg(all(target_os = "linux", target_env = "gnu"))]
mod coro {
    use super::*;
    use std::cell::{Cell, RefCell, UnsafeCell};

    const STACK: usize = 256 * 1024;

    pub struct CoRun<'a> {
        pub ctl: RefCell<Ctl>,
        pub pool: &'a MemoryPool,
        pub programs: &'a [Vec<Op>],
        pub main: UnsafeCell<libc::ucontext_t>,
        pub ctxs: Vec<UnsafeCell<libc::ucontext_t>>,
        pub current: Cell<usize>,
    }
    thread_local! {
        static CORUN: Cell<*const ()> = const { Cell::new(std::ptr::null()) };
        static STACKS: RefCell<Vec<Vec<u8>>> = const { RefCell::new(Vec::new()) };
    }
    struct CoAccess<'r, 'a>(&'r CoRun<'a>);
    impl<'r, 'a> Access for CoAccess<'r, 'a> {
        fn ctl<R>(&self, f: impl FnOnce(&mut Ctl) -> R) -> R {
            f(&mut self.0.ctl.borrow_mut())
        }
    }

    fn current_run<'x>() -> &'x CoRun<'x> {
        let p = CORUN.with(|c| c.get());
        assert!(!p.is_null(), "harness bug: no coroutine run installed");
        unsafe { &*(p as *const CoRun<'x>) }
    }

    /// the yield callback: note the step, go back to the scheduler
    fn co_yield(site: &'static str) {
        if std::thread::panicking() {
            return;
        }
        let run = current_run();
        let me = run.current.get();
        run.ctl.borrow_mut().note_yield(me, site);
        unsafe {
            libc::swapcontext(run.ctxs[me].get(), run.main.get());
        }
    }

    extern "C" fn co_entry() {
        let run = current_run();
        let me = run.current.get();
        let r = std::panic::catch_unwind(std::panic::AssertUnwindSafe(|| {
            run_program(&CoAccess(run), run.pool, me, &run.programs[me])
        }));
        {
            let mut g = run.ctl.borrow_mut();
            if let Err(e) = r {
                note_panic(&mut g, me, panic_text(e));
            }
            g.finished[me] = true;
            g.phase[me] = TryPhase::None;
        }
        unsafe {
            libc::swapcontext(run.ctxs[me].get(), run.main.get());
        }
        // never resumed
        std::process::abort();
    }

    pub fn run_coro(max: usize, programs: &[Vec<Op>], schedule: &[u8]) -> RunOut {
        let n = programs.len();
        if n == 0 {
            return RunOut::default();
        }
        let pool = MemoryPool::new(max);
        let mut stacks: Vec<Vec<u8>> = STACKS.with(|s| {
            let mut s = s.borrow_mut();
            (0..n).map(|_| s.pop().unwrap_or_else(|| vec![0u8; STACK])).collect()
        });
        let run = CoRun {
            ctl: RefCell::new(Ctl::new(max, n, schedule)),
            pool: &pool,
            programs,
            main: UnsafeCell::new(unsafe { std::mem::zeroed() }),
            ctxs: (0..n).map(|_| UnsafeCell::new(unsafe { std::mem::zeroed() })).collect(),
            current: Cell::new(usize::MAX),
        };
        // `run` does not move from here on (the contexts point into themselves)
        unsafe {
            for (i, st) in stacks.iter_mut().enumerate() {
                let c = run.ctxs[i].get();
                assert_eq!(libc::getcontext(c), 0, "harness bug: getcontext");
                (*c).uc_stack.ss_sp = st.as_mut_ptr() as *mut libc::c_void;
                (*c).uc_stack.ss_size = st.len();
                (*c).uc_link = run.main.get();
                libc::makecontext(c, co_entry, 0);
            }
        }
        let prev = CORUN.with(|c| c.replace(&run as *const CoRun as *const ()));
        assert!(prev.is_null(), "harness bug: nested coroutine run");
        set_yield_callback(Some(Box::new(co_yield)));
        let mut last = usize::MAX;
        let mut last_runnable = false;
        loop {
            let next = {
                let mut g = run.ctl.borrow_mut();
                let next = g.decide(last, last_runnable);
                if let Some(nx) = next {
                    if last_runnable && nx != last {
                        g.switches += 1;
                    }
                }
                next
            };
            let Some(next) = next else { break };
            run.current.set(next);
            unsafe {
                libc::swapcontext(run.main.get(), run.ctxs[next].get());
            }
            last = next;
            last_runnable = !run.ctl.borrow().finished[next];
        }
        set_yield_callback(None);
        CORUN.with(|c| c.set(std::ptr::null()));
        STACKS.with(|s| s.borrow_mut().extend(stacks.drain(..)));
        let used = pool.used();
        run.ctl.into_inner().into_out(used)
    }
}

/// One controlled run. Pure function of its arguments (given the engine).
pub fn run(max: usize, programs: &[Vec<Op>], schedule: &[u8]) -> RunOut {
    #[cfg(all(target_os = "linux", target_env = "gnu"))]
    {
        coro::run_coro(max, programs, schedule)
    }
    #[cfg(not(all(target_os = "linux", target_env = "gnu")))]
    {
        run_threads(max, programs, schedule)
    }
}

fn in_domain(max: usize, programs: &[Vec<Op>]) -> Result<(), String> {
    // forced sizes must not be able to wrap usize by themselves (callers never
    // reserve anywhere near usize::MAX); conditional sizes may be anything on a
    // small pool (they are refused), but on a huge pool they could be granted
    let mut forced: u128 = 0;
    for p in programs {
        for op in p {
            match op {
                Op::Alloc(n) | Op::Resize { n, .. } => forced += *n as u128,
                Op::Try(n) => {
                    if max as u128 > (1u128 << 40) {
                        forced += *n as u128
                    } else {
                        forced += (*n).min(max) as u128
                    }
                }
                _ => {}
            }
        }
    }
    if forced >= (1u128 << 62) {
        return Err("sum of reservable sizes could wrap usize".into());
    }
    Ok(())
}

// ---------------------------------------------------------------------------
// check 1: all schedules of a program pair
// ---------------------------------------------------------------------------
#[derive(Clone, Debug, Serialize, Deserialize)]
pub struct PairCase {
    pub max: usize,
    pub programs: Vec<Vec<Op>>,
}

/// Enumerate every schedule of the programs depth-first. Returns (number of
/// schedules, number of non-trivial ones, first violation with its schedule).
pub fn explore(max: usize, programs: &[Vec<Op>], limit: u64) -> (u64, u64, Option<(Vec<u8>, String)>, Option<String>, bool) {
    let mut sched: Vec<u8> = vec![];
    let mut count = 0u64;
    let mut nt = 0u64;
    loop {
        let o = run(max, programs, &sched);
        count += 1;
        if let Some(i) = o.infra {
            return (count, nt, None, Some(i), false);
        }
        if o.two_in_try || o.resize_in_try {
            nt += 1;
        }
        if let Some(v) = o.violation {
            return (count, nt, Some((o.choices.clone(), v)), None, false);
        }
        // odometer: last decision that still has an untried option
        let mut i = o.choices.len();
        let mut next = None;
        while i > 0 {
            i -= 1;
            if o.choices[i] + 1 < o.options[i] {
                let mut s = o.choices[..i].to_vec();
                s.push(o.choices[i] + 1);
                next = Some(s);
                break;
            }
        }
        match next {
            Some(s) => sched = s,
            None => return (count, nt, None, None, true),
        }
        if count >= limit {
            return (count, nt, None, None, false);
        }
    }
}

/// the op alphabet of the exhaustive family on a pool of 4 bytes
fn alphabet(tier: Tier) -> Vec<Op> {
    let mut a = vec![
        Op::Try(2),
        Op::Try(3),
        Op::Alloc(2),
        Op::Resize { slot: 255, n: 4 }, // grow the newest
        Op::Resize { slot: 255, n: 1 }, // shrink the newest
        Op::Drop { slot: 0 },           // drop the oldest
    ];
    if tier == Tier::Thorough {
        a.push(Op::Try(4));
        a.push(Op::Resize { slot: 0, n: 0 });
    }
    a
}

/// all programs of <= `len` ops in which resize/drop only follow a reservation
fn programs_upto(alpha: &[Op], len: usize) -> Vec<Vec<Op>> {
    let mut all: Vec<Vec<Op>> = vec![vec![]];
    let mut frontier: Vec<Vec<Op>> = vec![vec![]];
    for _ in 0..len {
        let mut next = vec![];
        for p in &frontier {
            // may a reservation be live here? (try counts as maybe)
            let mut maybe_live = 0i32;
            for op in p {
                match op {
                    Op::Try(_) | Op::Alloc(_) => maybe_live += 1,
                    Op::Drop { .. } => maybe_live = (maybe_live - 1).max(0),
                    _ => {}
                }
            }
            for op in alpha {
                if matches!(op, Op::Resize { .. } | Op::Drop { .. }) && maybe_live == 0 {
                    continue;
                }
                let mut q = p.clone();
                q.push(op.clone());
                next.push(q);
            }
        }
        all.extend(next.iter().cloned());
        frontier = next;
    }
    all
}

fn steps_estimate(p: &[Op]) -> u64 {
    // yield points of a program without contention (try = 2, others 1, plus the final drops)
    let mut s = 0;
    let mut live = 0i64;
    for op in p {
        match op {
            Op::Try(_) => {
                s += 2;
                live += 1
            }
            Op::Alloc(_) => {
                s += 1;
                live += 1
            }
            Op::Resize { .. } => s += 1,
            Op::Drop { .. } => {
                s += 1;
                live = (live - 1).max(0)
            }
        }
    }
    s + live.max(0) as u64
}

fn binom(n: u64, k: u64) -> u64 {
    let k = k.min(n - k);
    let mut r = 1u64;
    for i in 0..k {
        r = r * (n - i) / (i + 1);
    }
    r
}

pub struct AllSchedules;
impl Check for AllSchedules {
    type Case = PairCase;
    fn name(&self) -> &'static str {
        "all_schedules"
    }
    fn rule(&self) -> &'static str {
        "case = a pair of thread programs whose COMPLETE schedule space was enumerated; non-trivial when some schedule had two threads both between the load and the CAS of try_allocate, or a resize landing between another thread's load and CAS"
    }
    fn cases(&self, _tier: Tier) -> u32 {
        0
    }
    fn strategy(&self, _tier: Tier) -> BoxedStrategy<PairCase> {
        Just(PairCase { max: 4, programs: vec![vec![], vec![]] }).boxed()
    }
    fn exhaustive(&self, tier: Tier) -> Option<Box<dyn Iterator<Item = PairCase> + '_>> {
        let alpha = alphabet(tier);
        let progs = programs_upto(&alpha, 3);
        // quick: every pair whose uncontended interleaving count is small, so the
        // whole tier stays within fixed work; thorough: every pair
        let budget = tier.pick(300u64, u64::MAX);
        let mut v = vec![];
        for (i, a) in progs.iter().enumerate() {
            for b in progs.iter().skip(i) {
                // threads are interchangeable: unordered pairs
                let (sa, sb) = (steps_estimate(a), steps_estimate(b));
                if sa == 0 || sb == 0 {
                    continue; // no concurrency
                }
                if binom(sa + sb, sa) > budget {
                    continue;
                }
                v.push(PairCase { max: 4, programs: vec![a.clone(), b.clone()] });
            }
        }
        Some(Box::new(v.into_iter()))
    }
    fn test(&self, c: &PairCase, obs: &mut Obs) -> Verdict {
        if let Err(e) = in_domain(c.max, &c.programs) {
            return Verdict::Discard(e);
        }
        let (count, nt, viol, infra, complete) = explore(c.max, &c.programs, 5_000_000);
        if let Some(i) = infra {
            panic!("infrastructure: {}", i);
        }
        obs.nontrivial(nt > 0);
        obs.label(format!(
            "schedules:{}",
            match count {
                0..=9 => "1-9",
                10..=99 => "10-99",
                100..=999 => "100-999",
                1000..=9999 => "1e3-1e4",
                _ => ">=1e4",
            }
        ));
        if !complete && viol.is_none() {
            obs.label("enumeration-capped");
        }
        obs.weight(count as u64);
        obs.sample(serde_json::json!({"max": c.max, "programs": c.programs, "schedules": count, "nontrivial_schedules": nt}));
        SCHEDULES_RUN.fetch_add(count, std::sync::atomic::Ordering::Relaxed);
        match viol {
            None => Verdict::Pass,
            Some((sched, msg)) => Verdict::Fail(format!(
                "{} [schedule #{} of this pair; single-run case for check random_schedule: {}]",
                msg,
                count,
                serde_json::json!({"max": c.max, "programs": c.programs, "schedule": sched})
            )),
        }
    }
}
pub static SCHEDULES_RUN: std::sync::atomic::AtomicU64 = std::sync::atomic::AtomicU64::new(0);

// ---------------------------------------------------------------------------
// check 2: generated programs and schedule
// ---------------------------------------------------------------------------
#[derive(Clone, Debug, Serialize, Deserialize)]
pub struct SchedCase {
    pub max: usize,
    pub programs: Vec<Vec<Op>>,
    pub schedule: Vec<u8>,
}

fn op_strategy(max: usize) -> BoxedStrategy<Op> {
    // on an effectively unbounded pool every conditional size can be granted:
    // keep them small there (sum of live sizes must stay far below usize::MAX)
    let cap = if max as u128 > (1u128 << 40) { 16 } else { max };
    let small = prop_oneof![
        6 => 0usize..6,
        2 => Just(cap),
        1 => Just(cap.saturating_add(1)),
        1 => Just(cap / 2 + 1),
        1 => 0usize..40,
    ];
    let small2 = small.clone();
    let small3 = small.clone();
    let huge_try: BoxedStrategy<usize> = if max as u128 > (1u128 << 40) {
        (0usize..6).boxed()
    } else {
        prop_oneof![Just(usize::MAX), Just(usize::MAX - 1), Just(usize::MAX - max), Just(usize::MAX / 2 + 1)].boxed()
    };
    prop_oneof![
        10 => small.prop_map(Op::Try),
        1 => huge_try.prop_map(Op::Try),
        3 => small2.prop_map(|n| Op::Alloc(n.min(1 << 20))),
        4 => (any::<u8>(), small3).prop_map(|(slot, n)| Op::Resize { slot, n: n.min(1 << 20) }),
        4 => any::<u8>().prop_map(|slot| Op::Drop { slot }),
    ]
    .boxed()
}

pub struct RandomSchedule;
impl Check for RandomSchedule {
    type Case = SchedCase;
    fn name(&self) -> &'static str {
        "random_schedule"
    }
    fn rule(&self) -> &'static str {
        "in this run two threads were both between the load and the CAS of try_allocate, or a resize landed between another thread's load and CAS"
    }
    fn cases(&self, tier: Tier) -> u32 {
        tier.pick(20_000, 2_000_000)
    }
    fn strategy(&self, _tier: Tier) -> BoxedStrategy<SchedCase> {
        let max = prop_oneof![
            1 => Just(0usize),
            1 => Just(1usize),
            4 => Just(4usize),
            3 => Just(7usize),
            2 => Just(16usize),
            1 => Just(usize::MAX),
        ];
        (max, 2usize..=3)
            .prop_flat_map(|(max, nthreads)| {
                (
                    Just(max),
                    prop::collection::vec(prop::collection::vec(op_strategy(max), 1..=4), nthreads),
                    // a schedule: mostly "switch a lot"
                    prop::collection::vec(prop_oneof![2 => Just(0u8), 3 => 1u8..3, 1 => any::<u8>()], 0..48),
                )
            })
            .prop_map(|(max, programs, schedule)| SchedCase { max, programs, schedule })
            .boxed()
    }
    fn test(&self, c: &SchedCase, obs: &mut Obs) -> Verdict {
        if let Err(e) = in_domain(c.max, &c.programs) {
            return Verdict::Discard(e);
        }
        if c.programs.is_empty() || c.programs.len() > 8 {
            return Verdict::Discard("thread count".into());
        }
        let o = run(c.max, &c.programs, &c.schedule);
        if let Some(i) = o.infra {
            panic!("infrastructure: {}", i);
        }
        obs.nontrivial(o.two_in_try || o.resize_in_try);
        if o.two_in_try {
            obs.label("two-threads-between-load-and-cas");
        }
        if o.resize_in_try {
            obs.label("resize-between-load-and-cas");
        }
        if o.effect_in_try {
            obs.label("any-effect-between-load-and-cas");
        }
        if o.cas_retries > 0 {
            obs.label("cas-retry");
        }
        if o.refused_though_fits > 0 {
            obs.label("refused-though-it-fitted(not judged)");
        }
        if o.grants > 0 {
            obs.label("grant");
        }
        if o.refusals > 0 {
            obs.label("refusal");
        }
        obs.label(format!("threads:{}", c.programs.len()));
        obs.label(format!("switches:{}", match o.switches { 0 => "0", 1..=3 => "1-3", 4..=9 => "4-9", _ => ">=10" }));
        match o.violation {
            None => Verdict::Pass,
            Some(v) => Verdict::Fail(v),
        }
    }
}


// ---------------------------------------------------------------------------
// check 2b: the OS-thread back end and the user-context back end agree
// ---------------------------------------------------------------------------
pub struct BackendsAgree;
impl Check for BackendsAgree {
    type Case = SchedCase;
    fn name(&self) -> &'static str {
        "os_threads_agree"
    }
    fn rule(&self) -> &'static str {
        "the run on real OS threads (token passing) had at least one context switch; it must equal the single-thread user-context run decision for decision"
    }
    fn cases(&self, tier: Tier) -> u32 {
        tier.pick(400, 40_000)
    }
    fn workers(&self, _tier: Tier) -> usize {
        4
    }
    fn strategy(&self, tier: Tier) -> BoxedStrategy<SchedCase> {
        RandomSchedule.strategy(tier)
    }
    fn test(&self, c: &SchedCase, obs: &mut Obs) -> Verdict {
        if let Err(e) = in_domain(c.max, &c.programs) {
            return Verdict::Discard(e);
        }
        if c.programs.is_empty() || c.programs.len() > 8 {
            return Verdict::Discard("thread count".into());
        }
        let a = run_threads(c.max, &c.programs, &c.schedule);
        if let Some(i) = &a.infra {
            panic!("infrastructure: {}", i);
        }
        obs.nontrivial(a.switches > 0);
        if let Some(v) = &a.violation {
            return Verdict::Fail(format!("(OS threads) {}", v));
        }
        let b = run(c.max, &c.programs, &c.schedule);
        if a != b {
            panic!("harness bug: back ends disagree\n threads: {:?}\n contexts: {:?}", a, b);
        }
        Verdict::Pass
    }
}

// ---------------------------------------------------------------------------
// check 3: unhooked stress
// ---------------------------------------------------------------------------
#[derive(Clone, Debug, Serialize, Deserialize)]
pub struct StressCase {
    pub max: usize,
    /// one program per thread; each is repeated `rounds` times
    pub programs: Vec<Vec<Op>>,
    pub rounds: u32,
    /// only try/shrink/drop are used, so `used <= max` must hold at all times
    pub bounded: bool,
}

pub struct Stress16;
impl Check for Stress16 {
    type Case = StressCase;
    fn name(&self) -> &'static str {
        "stress16"
    }
    fn rule(&self) -> &'static str {
        "16 free-running threads, at least one grant and one refusal observed"
    }
    fn cases(&self, tier: Tier) -> u32 {
        tier.pick(60, 3000)
    }
    fn workers(&self, _tier: Tier) -> usize {
        1
    }
    fn strategy(&self, _tier: Tier) -> BoxedStrategy<StressCase> {
        (any::<bool>(), prop_oneof![Just(8usize), Just(64usize), Just(1000usize)])
            .prop_flat_map(|(bounded, max)| {
                let sz = prop_oneof![4 => 1usize..6, 2 => Just(max / 8 + 1), 1 => Just(max / 2 + 1), 1 => Just(max)];
                let sz2 = sz.clone();
                let sz3 = sz.clone();
                let op = if bounded {
                    prop_oneof![
                        6 => sz.prop_map(Op::Try),
                        2 => any::<u8>().prop_map(|slot| Op::Resize { slot, n: 0 }),
                        1 => any::<u8>().prop_map(|slot| Op::Resize { slot, n: 1 }),
                        4 => any::<u8>().prop_map(|slot| Op::Drop { slot }),
                    ]
                    .boxed()
                } else {
                    prop_oneof![
                        6 => sz.prop_map(Op::Try),
                        2 => sz2.prop_map(Op::Alloc),
                        3 => (any::<u8>(), sz3).prop_map(|(slot, n)| Op::Resize { slot, n }),
                        4 => any::<u8>().prop_map(|slot| Op::Drop { slot }),
                    ]
                    .boxed()
                };
                (
                    Just(bounded),
                    Just(max),
                    prop::collection::vec(prop::collection::vec(op, 4..24), 16),
                    prop_oneof![Just(50u32), Just(400u32)],
                )
            })
            .prop_map(|(bounded, max, programs, rounds)| StressCase { max, programs, rounds, bounded })
            .boxed()
    }
    fn test(&self, c: &StressCase, obs: &mut Obs) -> Verdict {
        use std::sync::atomic::{AtomicBool, AtomicU64, Ordering};
        use std::sync::Barrier;
        if c.bounded {
            // shrink-only resizes in bounded mode (a replayed file could say otherwise)
            for p in &c.programs {
                for op in p {
                    match op {
                        Op::Alloc(_) => return Verdict::Discard("bounded case with allocate".into()),
                        Op::Resize { n, .. } if *n > 1 => return Verdict::Discard("bounded case with growing resize".into()),
                        Op::Try(0) => return Verdict::Discard("bounded case needs sizes >= 1".into()),
                        _ => {}
                    }
                }
            }
        }
        if let Err(e) = in_domain(c.max, &c.programs) {
            return Verdict::Discard(e);
        }
        let pool = MemoryPool::new(c.max);
        let nt = c.programs.len();
        let barrier = Barrier::new(nt + 1);
        let live_sum = AtomicU64::new(0);
        let over = AtomicU64::new(0);
        let grants = AtomicU64::new(0);
        let refusals = AtomicU64::new(0);
        let size_bug = AtomicBool::new(false);
        let mut mid_used = 0usize;
        let mut mid_live = 0u64;
        std::thread::scope(|s| {
            for prog in &c.programs {
                let (pool, barrier, live_sum, over, grants, refusals, size_bug) = (&pool, &barrier, &live_sum, &over, &grants, &refusals, &size_bug);
                s.spawn(move || {
                    let mut live: Vec<MemoryReservation<'_>> = vec![];
                    barrier.wait();
                    for _ in 0..c.rounds {
                        for op in prog {
                            match *op {
                                Op::Try(n) => match pool.try_allocate(n) {
                                    Some(r) => {
                                        grants.fetch_add(1, Ordering::Relaxed);
                                        live.push(r)
                                    }
                                    None => {
                                        refusals.fetch_add(1, Ordering::Relaxed);
                                    }
                                },
                                Op::Alloc(n) => live.push(pool.allocate(n)),
                                Op::Resize { slot, n } => {
                                    if !live.is_empty() {
                                        let i = pick8(slot, live.len());
                                        if c.bounded && n > live[i].size() {
                                            continue; // bounded mode: shrinks only
                                        }
                                        live[i].resize(n);
                                        if live[i].size() != n {
                                            size_bug.store(true, Ordering::Relaxed);
                                        }
                                    }
                                }
                                Op::Drop { slot } => {
                                    if !live.is_empty() {
                                        let i = pick8(slot, live.len());
                                        drop(live.remove(i));
                                    }
                                }
                            }
                            if c.bounded {
                                let u = pool.used();
                                if u > c.max {
                                    over.fetch_max(u as u64, Ordering::Relaxed);
                                }
                            }
                            // keep the per-thread set small so drops are exercised
                            if live.len() > 8 {
                                drop(live.remove(0));
                            }
                        }
                    }
                    // quiescent point 1: everybody reports what it holds
                    live_sum.fetch_add(live.iter().map(|r| r.size() as u64).sum::<u64>(), Ordering::SeqCst);
                    barrier.wait();
                    // main thread compares here
                    barrier.wait();
                    drop(live);
                });
            }
            barrier.wait(); // start
            barrier.wait(); // all reported
            mid_used = pool.used();
            mid_live = live_sum.load(Ordering::SeqCst);
            barrier.wait(); // release for the drops
        });
        let g = grants.load(Ordering::Relaxed);
        let r = refusals.load(Ordering::Relaxed);
        obs.nontrivial(g > 0 && r > 0);
        obs.label(if c.bounded { "bounded(try/shrink/drop)" } else { "all-ops" });
        obs.sample(serde_json::json!({"max": c.max, "grants": g, "refusals": r, "bounded": c.bounded, "rounds": c.rounds}));
        if size_bug.load(Ordering::Relaxed) {
            return Verdict::Fail("size() differs from the requested size after resize".into());
        }
        if mid_used as u64 != mid_live {
            return Verdict::Fail(format!(
                "at quiescence pool.used() = {} but the 16 threads hold reservations summing to {}",
                mid_used, mid_live
            ));
        }
        let o = over.load(Ordering::Relaxed);
        if o > 0 {
            return Verdict::Fail(format!(
                "only conditional reservations and shrinks were issued, yet pool.used() reached {} > max {}",
                o, c.max
            ));
        }
        if pool.used() != 0 {
            return Verdict::Fail(format!("everything dropped but pool.used() = {}", pool.used()));
        }
        Verdict::Pass
    }
}

pub fn property() -> Property {
    Property {
        id: "C33",
        level: "exploration",
        assumptions: &[
            "the sum of all sizes a program can hold at once stays far below usize::MAX (forced allocate/resize are unchecked by design)",
            "interleavings are taken at the granularity of the pool's atomic steps (the hook's yield points), under sequential consistency — weak-memory reorderings are not explored",
            "a refused try_allocate that would have fitted is measured but not judged (the property only forbids grants beyond the limit)",
            "all_schedules: pool limit 4, alphabet {try 2, try 3, allocate 2, grow newest to 4, shrink newest to 1, drop oldest}, 2 threads x <=3 ops; the quick tier keeps the pairs whose uncontended interleaving count is <= 300, the thorough tier all pairs",
        ],
        checks: vec![Box::new(AllSchedules), Box::new(RandomSchedule), Box::new(BackendsAgree), Box::new(Stress16)],
    }
}
