//! C18 — not implemented yet.
use super::Property;

pub fn property() -> Property {
    Property { id: "C18", level: "exploration", assumptions: &[], checks: vec![] }
}
