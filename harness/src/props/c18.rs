//! C18 — Parquet table statistics are sound bounds.
//!
//! Generator: a table of 1..4 Parquet files (a BIGINT, b INTEGER, c DATE,
//! f DOUBLE, s VARCHAR), each file with its own row count (0..24), row-group
//! size, per-column statistics level (none / chunk / page), NULL density
//! (0 % / some / 100 %) and value neighbourhood (so min/max differ from file to
//! file), including i32/i64 extremes. The files are written with the harness'
//! own writer (per-column statistics switch).
//!
//! Oracle (model = the rows that were written, cross-checked against a full
//! `scan()` of the provider): `statistics().row_count` is the exact row count;
//! `null_count == Some(n)` implies n is the true NULL count of the column;
//! `min_i64 / max_i64`, when present, bound every non-NULL value of the column
//! in every file. (`ndv_est` and the sampled float fields are estimates and are
//! not checked here; that they never decide an answer is C03's subject.)
//!
//! Known findings:
//!  * `minmax-ignores-chunks-without-statistics` — a column chunk written
//!    without statistics poisons `null_count` but not `min_i64/max_i64`, which
//!    are then folded from the remaining chunks only and no longer bound the
//!    values of the statistics-less chunk;
//!  * `statistics-ndv-range-overflow` — `(max - min) as u64 + 1` overflows i64
//!    when a BIGINT column spans more than i64::MAX: `statistics()` panics in
//!    builds with overflow checks (the harness' and `cargo test`'s profile).
use super::Property;
use crate::data::{self, ColType, Table, TempDir, Value};
use crate::engine;
use crate::runner::*;
use proptest::prelude::*;
use query_engine::physical::operators::TableProvider;
use query_engine::storage::ParquetTable;
use serde::{Deserialize, Serialize};
use std::path::{Path, PathBuf};

pub const KF_MINMAX: &str = "minmax-ignores-chunks-without-statistics";
pub const KF_NDV: &str = "statistics-ndv-range-overflow";

const COLS: [(&str, ColType); 5] = [
    ("a", ColType::Int),
    ("b", ColType::Int32),
    ("c", ColType::Date),
    ("f", ColType::Double),
    ("s", ColType::Str),
];

#[derive(Clone, Debug, Serialize, Deserialize)]
pub struct FileSpec {
    /// rows of (a, b, c, f, s)
    pub rows: Vec<Vec<Value>>,
    pub rg_size: usize,
    /// per column: 0 = no statistics, 1 = chunk, 2 = page
    pub stats: Vec<u8>,
    pub dictionary: bool,
}
#[derive(Clone, Debug, Serialize, Deserialize)]
pub struct Case {
    pub files: Vec<FileSpec>,
    /// open with ParquetTable::try_from_files (explicit list) instead of the directory
    pub explicit_list: bool,
}

fn write_file(f: &FileSpec, path: &Path) {
    use parquet::arrow::ArrowWriter;
    use parquet::file::properties::{EnabledStatistics, WriterProperties};
    use parquet::schema::types::ColumnPath;
    let t = Table {
        name: "t".into(),
        cols: COLS.iter().map(|(n, t)| data::Column { name: n.to_string(), ty: *t }).collect(),
        rows: f.rows.clone(),
    };
    let mut b = WriterProperties::builder()
        .set_max_row_group_size(f.rg_size.max(1))
        .set_dictionary_enabled(f.dictionary);
    for (i, (name, _)) in COLS.iter().enumerate() {
        let lvl = match f.stats.get(i).copied().unwrap_or(1) {
            0 => EnabledStatistics::None,
            1 => EnabledStatistics::Chunk,
            _ => EnabledStatistics::Page,
        };
        b = b.set_column_statistics_enabled(ColumnPath::from(*name), lvl);
    }
    let file = std::fs::File::create(path).unwrap();
    let mut w = ArrowWriter::try_new(file, t.schema(), Some(b.build())).unwrap();
    if !t.rows.is_empty() {
        w.write(&t.batch(0, t.rows.len())).unwrap();
    }
    w.close().unwrap();
}

fn as_i64(v: &Value) -> Option<i64> {
    match v {
        Value::Int(i) => Some(*i),
        Value::Date(d) => Some(*d as i64),
        _ => None,
    }
}

// ---------------------------------------------------------------------------
// generator
// ---------------------------------------------------------------------------
fn int_base(col: usize, extreme: bool) -> BoxedStrategy<i64> {
    match col {
        0 => {
            if extreme {
                prop_oneof![
                    3 => prop_oneof![Just(0i64), Just(100), Just(-100), Just(1i64 << 40)],
                    1 => Just(i64::MIN),
                    1 => Just(i64::MAX - 5),
                    1 => Just(-(1i64 << 62)),
                    1 => Just(1i64 << 62),
                ]
                .boxed()
            } else {
                prop_oneof![Just(0i64), Just(100), Just(-100), Just(1i64 << 40), Just(-(1i64 << 40)), Just(7)].boxed()
            }
        }
        1 => prop_oneof![
            5 => prop_oneof![Just(0i64), Just(50), Just(-50), Just(1000)],
            1 => Just(i32::MIN as i64),
            1 => Just(i32::MAX as i64 - 5),
        ]
        .boxed(),
        _ => prop_oneof![
            5 => prop_oneof![Just(10957i64), Just(0), Just(-10), Just(20000)],
            1 => Just(i32::MIN as i64),
            1 => Just(i32::MAX as i64 - 5),
        ]
        .boxed(),
    }
}
fn file_spec(extreme: bool) -> BoxedStrategy<FileSpec> {
    let nullp = || prop_oneof![3 => Just(0u32), 3 => Just(30u32), 1 => Just(100u32)];
    let stats = || prop_oneof![7 => Just(1u8), 2 => Just(0u8), 1 => Just(2u8)];
    (
        prop_oneof![1 => Just(0usize), 8 => 1usize..25],
        prop_oneof![Just(1usize), Just(2), Just(3), Just(5), Just(8), Just(100)],
        proptest::collection::vec(stats(), COLS.len()),
        any::<bool>(),
        (int_base(0, extreme), nullp()),
        (int_base(1, extreme), nullp()),
        (int_base(2, extreme), nullp()),
        (nullp(), nullp()),
    )
        .prop_flat_map(|(n, rg_size, stats, dictionary, a, b, c, fs)| {
            (
                Just((rg_size, stats, dictionary, a, b, c, fs)),
                proptest::collection::vec(proptest::collection::vec((0u32..100, 0i64..6), COLS.len()), n),
            )
        })
        .prop_map(|((rg_size, stats, dictionary, a, b, c, fs), cells)| {
            let rows = cells
                .iter()
                .map(|r| {
                    let int = |k: usize, base: i64, np: u32, lo: i64, hi: i64| {
                        if r[k].0 < np {
                            None
                        } else {
                            Some(base.saturating_add(r[k].1).clamp(lo, hi))
                        }
                    };
                    vec![
                        int(0, a.0, a.1, i64::MIN, i64::MAX).map(Value::Int).unwrap_or(Value::Null),
                        int(1, b.0, b.1, i32::MIN as i64, i32::MAX as i64).map(Value::Int).unwrap_or(Value::Null),
                        int(2, c.0, c.1, i32::MIN as i64, i32::MAX as i64)
                            .map(|d| Value::Date(d as i32))
                            .unwrap_or(Value::Null),
                        if r[3].0 < fs.0 { Value::Null } else { Value::Double(r[3].1 as f64 * 0.5) },
                        if r[4].0 < fs.1 { Value::Null } else { Value::Str(["x", "y", "zz", "", "é", "w"][r[4].1 as usize].to_string()) },
                    ]
                })
                .collect();
            FileSpec { rows, rg_size, stats, dictionary }
        })
        .boxed()
}

pub struct Stats;
impl Check for Stats {
    type Case = Case;
    fn name(&self) -> &'static str {
        "footer_statistics"
    }
    fn rule(&self) -> &'static str {
        "the table has >= 2 non-empty files, an integer column holds NULLs, and some integer column has statistics in some chunks but not in others"
    }
    fn cases(&self, tier: Tier) -> u32 {
        tier.pick(3000, 150_000)
    }
    fn strategy(&self, _tier: Tier) -> BoxedStrategy<Case> {
        prop_oneof![9 => Just(false), 1 => Just(true)]
            .prop_flat_map(|extreme| {
                (
                    prop_oneof![
                        1 => proptest::collection::vec(file_spec(extreme), 1..2),
                        6 => proptest::collection::vec(file_spec(extreme), 2..5),
                    ],
                    prop_oneof![3 => Just(false), 1 => Just(true)],
                )
            })
            .prop_flat_map(|(files, explicit_list)| (Just(files), Just(explicit_list), 0u32..100))
            .prop_map(|(mut files, explicit_list, calm)| {
                // 80 % of the tables keep the values of statistics-less chunks
                // inside the range of the chunks that do carry statistics (the
                // open min/max finding then stays silent and the search goes on
                // behind it); the rest leave them wherever they fell.
                if calm < 80 {
                    for k in 0..3 {
                        let (mut lo, mut hi): (Option<i64>, Option<i64>) = (None, None);
                        for f in files.iter().filter(|f| f.stats[k] != 0) {
                            for r in &f.rows {
                                if let Some(v) = as_i64(&r[k]) {
                                    lo = Some(lo.map_or(v, |m| m.min(v)));
                                    hi = Some(hi.map_or(v, |m| m.max(v)));
                                }
                            }
                        }
                        if let (Some(lo), Some(hi)) = (lo, hi) {
                            for f in files.iter_mut().filter(|f| f.stats[k] == 0) {
                                for r in f.rows.iter_mut() {
                                    r[k] = match &r[k] {
                                        Value::Int(v) => Value::Int((*v).clamp(lo, hi)),
                                        Value::Date(v) => Value::Date((*v as i64).clamp(lo, hi) as i32),
                                        o => o.clone(),
                                    };
                                }
                            }
                        }
                    }
                }
                Case { files, explicit_list }
            })
            .boxed()
    }
    fn test(&self, c: &Case, obs: &mut Obs) -> Verdict {
        if c.files.is_empty() || c.files.iter().any(|f| f.rows.iter().any(|r| r.len() != COLS.len())) {
            return Verdict::Discard("malformed case".into());
        }
        let tmp = TempDir::new("c18");
        let dir = tmp.path().join("t");
        std::fs::create_dir_all(&dir).unwrap();
        let mut paths: Vec<PathBuf> = vec![];
        for (i, f) in c.files.iter().enumerate() {
            let p = dir.join(format!("part-{:03}.parquet", i));
            write_file(f, &p);
            paths.push(p);
        }
        let provider = if c.explicit_list {
            ParquetTable::try_from_files(paths.clone())
        } else {
            ParquetTable::try_new(&dir)
        };
        let provider = match provider {
            Ok(p) => p,
            Err(e) => return Verdict::Discard(format!("cannot open table: {}", e.to_string().chars().take(60).collect::<String>())),
        };

        // ---- the model: what was written -------------------------------
        let total: usize = c.files.iter().map(|f| f.rows.len()).sum();
        let ncol = COLS.len();
        let mut nulls = vec![0u64; ncol];
        let mut mins: Vec<Option<i64>> = vec![None; ncol];
        let mut maxs: Vec<Option<i64>> = vec![None; ncol];
        for f in &c.files {
            for r in &f.rows {
                for k in 0..ncol {
                    if r[k].is_null() {
                        nulls[k] += 1;
                    } else if let Some(v) = as_i64(&r[k]) {
                        mins[k] = Some(mins[k].map_or(v, |m| m.min(v)));
                        maxs[k] = Some(maxs[k].map_or(v, |m| m.max(v)));
                    }
                }
            }
        }
        // non-triviality
        let nonempty = c.files.iter().filter(|f| !f.rows.is_empty()).count();
        let int_nulls = (0..3).any(|k| nulls[k] > 0);
        let mixed_stats = (0..3).any(|k| {
            let with = c.files.iter().any(|f| !f.rows.is_empty() && f.stats[k] != 0);
            let without = c.files.iter().any(|f| !f.rows.is_empty() && f.stats[k] == 0);
            with && without
        });
        if mixed_stats {
            obs.label("int-column-with-and-without-statistics");
        }
        if nonempty >= 2 {
            obs.label("multi-file");
        }
        if c.files.iter().any(|f| f.rows.len() > f.rg_size) {
            obs.label("multi-row-group-file");
        }
        obs.nontrivial(nonempty >= 2 && int_nulls && mixed_stats);

        // ---- the provider's own scan must agree with what was written ---
        match std::panic::catch_unwind(std::panic::AssertUnwindSafe(|| provider.scan(None))) {
            Ok(Ok(batches)) => {
                let n: usize = batches.iter().map(|b| b.num_rows()).sum();
                if n != total {
                    return Verdict::Discard(format!("scan() returns {} rows, {} were written (not C18's subject)", n, total));
                }
            }
            _ => return Verdict::Discard("scan() failed".into()),
        }

        // ---- statistics() ------------------------------------------------
        let st = match std::panic::catch_unwind(std::panic::AssertUnwindSafe(|| provider.statistics())) {
            Ok(Some(s)) => s,
            Ok(None) => {
                obs.label("statistics=None");
                return Verdict::Pass;
            }
            Err(p) => {
                let text = engine::panic_text(p);
                // signature: arithmetic overflow AND an integer column whose
                // footer min/max span more than i64::MAX
                let spans = (0..3).any(|k| {
                    let (mut lo, mut hi): (Option<i64>, Option<i64>) = (None, None);
                    for f in &c.files {
                        if f.stats[k] == 0 {
                            continue;
                        }
                        for r in &f.rows {
                            if let Some(v) = as_i64(&r[k]) {
                                lo = Some(lo.map_or(v, |m| m.min(v)));
                                hi = Some(hi.map_or(v, |m| m.max(v)));
                            }
                        }
                    }
                    matches!((lo, hi), (Some(l), Some(h)) if h.checked_sub(l).is_none())
                });
                let msg = format!("statistics() panicked: {}", text);
                if text.contains("overflow") && spans {
                    obs.label("hit:ndv-range-overflow");
                    return Verdict::Known { id: KF_NDV.into(), msg };
                }
                return Verdict::Fail(msg);
            }
        };
        if st.row_count != total {
            return Verdict::Fail(format!("statistics().row_count = {} but the files hold {} rows", st.row_count, total));
        }
        let mut known: Option<String> = None;
        for k in 0..ncol {
            let name = COLS[k].0;
            let cs = match st.column_stats.get(name) {
                Some(cs) => cs,
                None => {
                    obs.label("column-without-entry");
                    continue;
                }
            };
            if let Some(n) = cs.null_count {
                obs.label("null_count-present");
                if n != nulls[k] {
                    return Verdict::Fail(format!(
                        "column {}: null_count = Some({}) but the column holds {} NULLs in {} rows",
                        name, n, nulls[k], total
                    ));
                }
            } else {
                obs.label("null_count-absent");
            }
            if k >= 3 {
                continue;
            }
            for (what, bound, is_min) in [("min_i64", cs.min_i64, true), ("max_i64", cs.max_i64, false)] {
                let Some(bv) = bound else { continue };
                obs.label("int-bound-present");
                // every value must be inside; find offenders and where they live
                let mut offenders = 0usize;
                let mut all_in_statless = true;
                let mut example: Option<(usize, i64)> = None;
                for (fi, f) in c.files.iter().enumerate() {
                    for r in &f.rows {
                        if let Some(v) = as_i64(&r[k]) {
                            let bad = if is_min { v < bv } else { v > bv };
                            if bad {
                                offenders += 1;
                                example.get_or_insert((fi, v));
                                if f.stats[k] != 0 {
                                    all_in_statless = false;
                                }
                            }
                        }
                    }
                }
                if offenders > 0 {
                    let (fi, v) = example.unwrap();
                    let msg = format!(
                        "column {}: {} = {} but file {} holds the value {} ({} values outside the bound; true min {:?} max {:?}); statistics levels of the column per file: {:?}",
                        name,
                        what,
                        bv,
                        fi,
                        v,
                        offenders,
                        mins[k],
                        maxs[k],
                        c.files.iter().map(|f| f.stats[k]).collect::<Vec<_>>()
                    );
                    if all_in_statless {
                        known.get_or_insert(msg);
                    } else {
                        return Verdict::Fail(msg);
                    }
                }
            }
        }
        if let Some(msg) = known {
            obs.label("hit:minmax-ignores-statless-chunks");
            return Verdict::Known { id: KF_MINMAX.into(), msg };
        }
        Verdict::Pass
    }
}

pub fn property() -> Property {
    Property {
        id: "C18",
        level: "exploration",
        assumptions: &[
            "truth is the set of rows written by the harness (the provider's scan() must return the same number of rows, else the case is discarded)",
            "only row_count, null_count and min_i64/max_i64 are facts; ndv_est and the sampled float/string fields are estimates (their non-use for answers is C03's subject)",
            "a panic of statistics() is reported (it reports nothing, so it cannot be 'facts about the files')",
        ],
        checks: vec![Box::new(Stats)],
    }
}
