#!/bin/sh
# run_seeded.sh <seed-dir-name> [extra check args…]
# Applies /verif/seeded/<name>/patch.diff to /repo, runs the quick check of the
# property named in meta.json (field "property"), prints the outcome, and always
# restores /repo (git checkout -- . && git clean of files the patch added).
N="$1"; shift
D=/verif/seeded/$N
[ -f "$D/patch.diff" ] || { echo "no $D/patch.diff"; exit 2; }
P=$(python3 -c "import json;print(json.load(open('$D/meta.json'))['property'])")
cd /repo || exit 2
if [ -n "$(git status --porcelain --untracked-files=no)" ]; then echo "/repo has uncommitted changes; refusing"; exit 2; fi
git apply "$D/patch.diff" || { echo "patch does not apply"; exit 2; }
cd /verif
cp "evidence/$P.json" "/verif/target/evidence-$P.keep" 2>/dev/null
./check "$P" "$@" > "/verif/target/seeded-$N.log" 2>&1
rc=$?
# the evidence of a run against a seeded change is not evidence about /repo: put the old file back
[ -f "/verif/target/evidence-$P.keep" ] && mv "/verif/target/evidence-$P.keep" "evidence/$P.json"
grep -E "^(VIOLATION|SUMMARY|BUILD-FAILED)" "/verif/target/seeded-$N.log" | cut -c1-300
# remove replay files written by this mutant run
for f in $(grep -E "^VIOLATION" "/verif/target/seeded-$N.log" | sed 's/.*replay=//'); do case "$f" in */fail-*) rm -f "$f";; esac; done
cd /repo && git checkout -- . && git clean -fdq -- src tests 2>/dev/null
echo "seeded=$N property=$P exit=$rc"
exit 0
