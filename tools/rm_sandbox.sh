#!/bin/sh
N="$1"; S=/root/scratch/$N
[ -n "$N" ] || exit 2
git -C /repo worktree remove --force "$S/repo" 2>/dev/null
rm -rf "$S"
git -C /repo worktree prune
