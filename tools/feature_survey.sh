#!/bin/sh
# dev aid: failures per profile spec (C01 check in survey mode)
out=/verif/target/feature_survey.txt; : > $out
for spec in "$@"; do
  rm -f /verif/target/survey-C01.log /verif/target/survey-C01.jsonl
  r=$(C01_PROFILE="$spec" VERIF_SURVEY=1 /verif/target/debug/check C01 | tail -1 | grep -o "evaluations=[0-9]*")
  n=$( [ -f /verif/target/survey-C01.log ] && grep -c "^===" /verif/target/survey-C01.log || echo 0)
  echo "$n failures  $r  $spec" >> $out
  [ -f /verif/target/survey-C01.jsonl ] && cp /verif/target/survey-C01.jsonl "/verif/target/fs-$(echo $spec | tr '+' '_').jsonl"
done
