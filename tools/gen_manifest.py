#!/usr/bin/env python3
"""Regenerates /verif/MANIFEST.json from the table below + `check --list`.
A property is claimed iff it has an entry in CLAIMED."""
import json, subprocess, sys

HOOK_COMMITS = ["89cc7e2", "26df212"]

# id -> (technique, level text, level note, design_ref)
CLAIMED = {
 "C01": ("proptest-generated SQL statements (choice-tape grammar generator) over generated small tables, differential against an independent reference SQL evaluator (refsql, itself cross-checked against SQLite)",
         "Generated statements over the full grammar of the property (projection, WHERE, all join kinds, GROUP BY/HAVING, DISTINCT, ORDER BY/LIMIT/OFFSET with tie-group validity, set operations, derived tables, CTEs, correlated/uncorrelated subqueries, CASE/COALESCE/IN/BETWEEN/LIKE) on tables with NULLs and duplicates and random batch splits; engine answer must equal the reference multiset / ORDER BY tie groups, an engine error is allowed. Two generated checks: a core grammar measured free of open findings, and the full grammar whose disagreements are attributed to an open finding only through precise signature predicates (kf_sql.rs). Exploration: thousands of cases per run, ~100+ distinct NULL/duplicate-sensitive multi-clause statements.",
         "Trusts refsql (validated against SQLite on ~15k generated statements with zero semantic disagreement) and the harness comparison rules (DESIGN 3.4). Statements producing -0.0/NaN, integer overflow or LIMIT inside sub-selects are excluded by construction.", "5 C01"),
 "C04": ("configuration differential (engine vs engine, refsql as third opinion): one generated row set registered as memory (1 batch / random batches) and as Parquet in several generated layouts, with morsel execution on/off and with the verif-hooks threshold overrides (forced streaming scan, no prescan, forced disjoint aggregation)",
         "Filtered scans, global and grouped aggregates (nullable / Int32 / Date32 / dense and sparse keys), self-joins and repeated references, joins over streaming probes, sort/limit: every layout and path must return the same answer, and an error on one layout only is a violation. Path marks (verif-hooks) measure which scan/aggregate path ran. Exploration.",
         "Forced-path variants run single-threaded because the overrides are process-global atomics.", "5 C04"),
 "C07": ("configuration differential: batch layouts in-process (repeated runs), thread counts in sub-process workers (RAYON_NUM_THREADS 1/2/3/8; layouts of up to 41 batches, mixed MIN/MAX/COUNT(DISTINCT) aggregate lists, mostly-NULL columns), and a partition walk executing every declared output partition of every physical operator",
         "The same statement over the same rows must answer the same for one batch vs random batch layouts (incl. >=1000 rows in >=2 batches), under every thread count, and on repetition; every partition 0..output_partitions() of every operator must execute and partition output_partitions() must be refused. Exploration; interleavings are varied by repetition only.",
         "rayon's pool size is per process, hence sub-process workers.", "5 C07"),
 "C08": ("configuration differential: each statement under log-uniform memory limits from 16 B to 64 MB (plus limits placed near the data size) vs the default budget",
         "Sorts over every key type with DESC / NULLS FIRST, top-k with OFFSET, joins of every kind and key type, grouped / global / DISTINCT aggregates over 300-9,500-row tables in 1-17 batches: the limited answer equals the unlimited answer or is an explicit error. Non-trivial = a limited run really spilled and answered. Exploration.",
         "Spill is detected through the engine's own spill metrics.", "5 C08"),

 "C09": ("engine-vs-engine differential over generated in-process clusters (1-8 participants, a harness FragmentTransport that calls the worker entry on peer contexts and IPC-encodes replies): forced-distributed execution vs single-node ctx.sql",
         "1-3 multi-file Parquet tables (incl. empty tables and tables with fewer splits than nodes), self at any position, peers on the same files or a byte-identical copy; a scatter profile (Concat / TwoPhase / TopN incl. AVG over unequal shards and TopN with OFFSET) and a gather profile (full grammar + windows): same multiset, ORDER BY judged against the single node's tie groups, NotImplemented refusals accepted, approximations not. Exploration.",
         "refsql is printed as third opinion only; a gather result equal to one node over in-memory copies of the full tables is classified as a local layout dependence, not a distribution fault.", "5 C09"),
 "C10": ("fault enumeration at the FragmentTransport seam: the fault-free run records every remote reply, then every exchange is combined with every fault kind (alone and in generated pairs); plus divergent worker copies (remote participants mount a copy written from other rows: differential against the identical-copies answer)",
         "Per generated table set and 2-4-node cluster, one scatter and one forced-gather statement; faults: transport error, HTTP 500/503, empty body, truncation at every IPC message boundary / 1-7 bytes into the next prefix / the metadata-body seam / sampled interior offsets, sampled single-byte corruption, dropped end-of-stream marker, x-qe-rows +-1 or missing, digest altered in flight. The query must return Err or exactly the fault-free answer ('masked'); any other Ok is a violation. ~2,900 fault instances per quick run.",
         "Faults are injected at the transport seam (status, x-qe-rows, body byte for byte); the socket-level proxy variant is not built.", "5 C10"),
 "C45": ("proptest over gather-path statements on 2-4-table catalogs (quoted mixed-case names; tables that appear only inside subqueries): a walker over the bound plan incl. subquery expressions vs GatherPlan.tables, then execute_gathered vs ctx.sql",
         "Joins, filters on non-projected columns, correlated / uncorrelated / SELECT-list / under-OR subqueries over tables that appear only there, CTEs, set operations, windows, SELECT * and t.*: every column the statement reads must be in the gathered table (or the gathered run still answers), and execute_gathered must return the single-node answer. Exploration.",
         "A result equal to one node over in-memory copies of the full tables passes with a label (gathering lost nothing).", "5 C45"),

 "C11": ("proptest over synthetic footer-only and real Parquet inventories: validity predicate over the SplitSet + metamorphic invariances (file order, mount path) + digest sensitivity",
         "Generated tables of 1-12 files x 0-10 row groups (rows 0..1e7, bytes 0..2^40 via footer-only files written with ParquetMetaDataWriter, plus real files), 1..64 nodes: splits must cover each non-empty row group exactly once in contiguous ranges, bytes/rows must sum exactly, order must be canonical; permuting the file list or moving the files must not change sequence or digest; changing one attribute must change the digest. Exploration.",
         "Footer-only files stand in for huge row groups; the engine's footer cache is keyed by path so every case uses fresh paths.", "5 C11"),
 "C12": ("exhaustive enumeration of small instances (brute-force OPT) + proptest-generated larger instances (branch-and-bound / planted OPT): partition, accounting, determinism and the LPT bound in exact integer arithmetic",
         "All multisets of <=9 sizes over 0..7 and all sequences of <=6 sizes over 0..4 for 1..4 nodes are enumerated completely (173k instances) and 6000 generated instances up to 200 splits / 64 nodes follow; every split owned once, totals recomputed, two calls and a permuted-insertion twin identical, 3*N*max <= (4N-1)*OPT in u128. Exhaustive for the stated small bound, exploration beyond.",
         "OPT for generated instances comes from an independent branch-and-bound (<=14 splits) or from planted equal-sum bins.", "5 C12"),
 "C13": ("proptest over real Parquet tables, arbitrary split-to-node assignments and hand-cut sub-row-group ranges: union of shard scans vs the generated rows (own 3VL filter evaluator)",
         "Generated tables (1-6 files, tiny row groups, unique id), splits from enumerate or hand-recut, arbitrary or LPT assignment to 1..8 nodes, projections and pushed filters: every shard reports parquet_files()==None, the union of shard scans is the table exactly once, filtered unions contain every matching row, and SELECT/COUNT/SUM through shard_context add up. Exploration.",
         "OR filters are restricted to non-null columns.", "5 C13"),
 "C14": ("proptest over initiator/worker table pairs that are identical or differ in exactly one split-relevant attribute, plus protocol faults",
         "For generated pairs (identical copy under another mount; renamed file; other row-group size; one row more/fewer; encoding change that only moves total_byte_size; dropped file; foreign digest; out-of-range shard index) execute_fragment must run and reassemble the table when the footers agree and must fail otherwise. Exploration; variants that leave the footers unchanged are discarded.",
         "Expected outcome is computed from the check's own footer reads.", "5 C14"),
 "C05": ("proptest over generated Parquet files with tiny row groups and edge values: prune_row_groups / row_group_definitely_matches vs the engine's interpreter on the decoded rows; end-to-end Parquet vs memory differential incl. the forced streaming scan",
         "Files of 2-12 row groups over int32/int64/double/utf8/date with NULL-only groups, NaN/-0.0/inf, |v|>2^53, non-ASCII and truncated-statistics strings, statistics disabled per column; predicates from comparisons/BETWEEN/IN/NOT/AND/OR with literals of every handled type on either side. No pruned row group may hold a row the interpreter keeps; every 'definitely matches' row group must satisfy the predicate on all rows (also under an independent 3VL over the interpreter's atoms); SELECT and aggregates over Parquet must equal the memory registration. Exploration.",
         "The interpreter (evaluate_expr) is the semantic reference, as the property says 'enabling skipping never changes the answer'.", "5 C05"),
 "C06": ("proptest over predicates generated inside the compiled subset and batches with special values/lengths/slices: CompiledPredicate::evaluate vs evaluate_expr bit for bit; QE_COMPILE=0 vs default in sub-process workers",
         "Predicates over F64/I64/I32/Date32 columns (arithmetic, comparisons, AND/OR/NOT, BETWEEN, register pressure around MAX_REGS, four name-qualification modes) on batches of lengths 0..3000+ around the 1024 chunk boundary with NULL/NaN/-0.0/inf and per-column slice offsets: validity equal at every row, value equal at every valid row; 40 end-to-end cases compare row sets between a QE_COMPILE=0 worker and a default worker (FilterExec, ctx.sql over memory and Parquet). Exploration.",
         "compile()==None cases are counted as trivial.", "5 C06"),
 "C15": ("stateful/model-based proptest: generated histories of discovery, probe and resolve-error operations stepped against a reference model with invariants after every step",
         "Histories of <=40 operations over an 11-address universe (self, localhost / [::1] / local-interface aliases, port-only differences, peers, duplicates, an unresolvable name): members sorted and unique, exactly one self never listed as peer, peer set equal to the model, resolve errors change nothing, generation monotone and strictly increasing on a set change, equal-set re-resolution keeps every peer record, resolved() sticky. Exploration.",
         "'Is this me' is decided independently of the engine via bind() locality and name resolution of the sandbox.", "5 C15"),
 "C16": ("proptest-generated byte streams through the real socket path (scripted loopback peer: truncation point, write chunking, close or stall) and through parse_response directly; framing oracle computed from the bytes actually sent",
         "Generated responses (status-line variants, headers, Content-Length correct/missing/wrong/repeated/unparseable, bodies to 16 KiB) cut anywhere and delivered in generated chunks then closed or stalled: the client returns Err, or Ok with the sent status, headers and the complete body - never a body shorter than every plain Content-Length, never a panic, and within timeout + slack. Exploration; the thorough tier adds a libFuzzer target on parse_response.",
         "Stall cases use a 150 ms client timeout and allow 15 s slack on a loaded box.", "5 C16"),
 "C18": ("proptest over generated multi-file Parquet tables with per-column/per-file statistics levels: statistics() vs the written rows",
         "Tables of 1-4 files with any row-group layout, NULL density 0/30/100 %, Int32/Int64/Date32 extremes, statistics none/chunk/page per column and file: row_count exact, null_count==Some(n) => n true, min_i64/max_i64 bound every value. Exploration. (That estimates never decide an answer is covered by the optimizer differential C03.)",
         "The written rows are the reference; scan() row count must agree with them.", "5 C18"),
 "C33": ("generated and exhaustively enumerated schedules: a token-passing controller owns the interleaving at every atomic step of the pool (verif-hooks yield points); sequential reference stepped at linearisation points",
         "2-3 logical threads with programs of <=4 operations (try_allocate/allocate/resize/drop) on a small-limit pool: for program pairs the complete schedule space is enumerated by DFS (2,370 pairs quick / 38,226 thorough), 20,000 random schedules beyond, cross-checked against real OS threads and a 16-thread un-hooked stress run. Every granted try_allocate fitted, used() equals the sum of live reservations after every operation, zero after all drops, never wraps. Exhaustive for the stated small bound, exploration beyond; weak-memory reorderings are not modelled (one atomic location).",
         "Schedules are run as coroutines on one OS thread (same decision code as the OS-thread back end, cross-checked decision for decision).", "5 C33"),
 "C41": ("proptest round-trip over generated bodies x chunkings (extensions, hex case, trailers, boundaries inside CRLF), planted framing faults judged by an independent strict RFC 7230 reader, arbitrary token soup under catch_unwind, end-to-end through a scripted chunked server",
         "dechunk(encode(body, chunking)) == body for generated bodies up to 64 KiB; ten kinds of planted malformation must be rejected; arbitrary bytes incl. sizes beyond usize::MAX never panic; GravitinoSource::list_filesets decodes a chunked reply. Exploration; the thorough tier adds a libFuzzer target.",
         "Inputs the strict reader calls 'lenient' (accepted by tolerant decoders) are not judged.", "5 C41"),

 "C17": ("stateful proptest: generated Iceberg table histories written by a minimal independent Iceberg writer (Parquet + Avro manifests + metadata.json generations) and interpreted against a snapshot->live-files->rows model",
         "Histories of append / remove (tombstones) / overwrite / manifest rewrite (ADDED->EXISTING) / metadata rewrite (equal or newer last-updated-ms) / expire / rollback, format v1/v2, four metadata naming schemes incl. lagging version-hint, four URI forms, with refusal injections (delete files, ORC/AVRO, s3:// and hdfs:// URIs, unknown / empty snapshots): register_iceberg(dir, None|Some(id)) + SELECT * must equal the model's rows for every listed snapshot and every injection must be an error. Exploration.",
         "The model is updated from what each operation means, never by reading manifests back; the legacy IcebergScanExec operator is not reachable from register_iceberg and is not covered.", "5 C17"),
 "C19": ("stateful proptest: write / query / rewrite histories over one path with controlled length and mtime (virtual clock via set_modified), executed in sub-process workers under QE_IPC_CACHE=0, unset and 1; model = last written content",
         "Histories with same-length rewrites (padded footer key/value), preserved / same-second / backwards mtimes, in-place or rename writes, re-registration and external sidecar builds; every query's answer must equal the last written content in all three cache configurations (an error after a rewrite counts as not reading the new content). Exploration.",
         "QE_IPC_CACHE is read once per process, hence sub-process workers; quick tier is dominated by process spawns.", "5 C19"),
 "C20": ("configuration differential across sub-process workers (sidecars off / cold unset / fresh build / reused / unset after build) (table shapes include single row groups of k*8192+r rows around the sidecar re-slicing unit) plus repeated multi-process build/read races on cold directories, with a post-race completeness check",
         "Tables with dictionary-eligible, all-NULL and wide string columns over several row groups: every answer under any sidecar configuration equals the QE_IPC_CACHE=0 answer and every built sidecar equals the Parquet row groups cell for cell; in races (1-8 builder and 1-4 looping reader processes released together) every Ok answer equals the reference and the sidecar directory is complete afterwards. Exploration by repeated-race sampling: the harness does not own the OS schedule between processes (weakest level in this suite; stated in DESIGN 6).",
         "Reader/builder errors during a race are recorded as labels, only differing answers and incomplete sidecars are violations.", "5 C20"),

 "C02": ("proptest: boolean / scalar expression trees over a table that is the full cross product of tiny nullable domains, each tree observed in six placements (WHERE, projection, HAVING, WHERE above LEFT JOIN, INNER ON, LEFT ON); oracle = refsql plus an independent per-row 3VL evaluator",
         "Trees of depth <=4 over comparisons, IS NULL, IN-lists with NULL elements, BETWEEN, LIKE, AND/OR/NOT, IS DISTINCT FROM, boolean columns and literal-only subtrees (constant folding), a third inside the compiled-predicate subset: kept rows = rows where the predicate is TRUE, projected value exactly TRUE/FALSE/NULL, CASE/COALESCE/NULLIF/arithmetic NULL exactly where SQL says. Exploration; non-trivial = a NULL sub-result on which null-strict evaluation would decide differently.",
         "Two independent oracles (refsql and the module's evaluator) are compared on every case.", "5 C02"),
 "C21": ("proptest with a focused aggregate generator; each statement is run through six engine configurations (memory 1 batch / many batches, spilling memory limit, Parquet morsel / forced-disjoint / morsel-off) and every answer is compared with refsql",
         "Grouped, global and LEFT-JOINed COUNT(*)/COUNT/SUM/AVG/MIN/MAX/COUNT(DISTINCT) over columns with 0/30/70/100 % NULLs, NULL group keys, never-true filters: NULL inputs ignored, SUM/AVG/MIN/MAX of no non-NULL input NULL and COUNT 0, NULL keys one group, a global aggregate over no rows exactly one row - on every path. Path marks (verif-hooks) measure which aggregation path ran. Exploration.",
         "Configurations that set a process-global hook run under an exclusive lock.", "5 C21"),
 "C22": ("proptest with a focused join generator (2- and 3-relation shapes, all seven join kinds, 1-3 equi-keys over BIGINT/INTEGER/VARCHAR/DATE incl. mixed widths, residual ON predicates, NULL keys, duplicates, empty sides; plus many-batch sides of 34-64 tiny batches); refsql nested-loop oracle across memory / spill / Parquet / forced-streaming configurations plus the swapped statement",
         "Inner, left, right, full, semi, anti, cross and comma joins must return exactly the SQL result: NULL keys never match, unmatched rows NULL-extended, residual ON filters candidate pairs before match tracking, independent of build side, runtime filters and registration. Exploration.",
         "PARALLEL_BUILD_THRESHOLD is not crossed in the quick tier.", "5 C22"),
 "C25": ("proptest with a focused ORDER BY/LIMIT/OFFSET generator; validity predicate over refsql's sorted multiset with tie groups; each case run with default memory and with a really-spilling memory limit; LIMIT inside derived tables with a total order; plus 10k-40k-row sorts spilled into runs longer than the 8192-row merge buffer, judged by order + per-position tie-group membership",
         "1-4 sort keys (alias, ordinal, non-selected column, expression) x ASC/DESC x NULLS FIRST/LAST/default over nullable int/float/string/date/bool columns with heavy ties, every LIMIT/OFFSET combination, 0-30 or 1000+ rows in 0-10 batches: output ordered as stated, NULLs placed as stated (default last), LIMIT n OFFSET m = rows m+1..m+n up to ties, for full sort, fused top-k and spilled sort. Exploration.",
         "Runs above 8192 rows per spill run are not exercised in the quick tier.", "5 C25"),

 "C23": ("proptest with a focused subquery generator; two oracles: refsql, and production optimizer vs the rule list without SubqueryDecorrelation/FlattenDependentJoin (row-by-row executor)",
         "[NOT] EXISTS / [NOT] IN / scalar aggregate subqueries in WHERE and SELECT list, correlated on 0-2 (in)equalities in either orientation, under AND/OR/NOT, over joins or derived tables, nesting depth 2, NULLs and empties on both sides: engine answer must equal refsql and the decorrelated plan must equal row-by-row execution. Exploration; the coarse 'correlated-subquery' class is replaced here by ten root-cause signatures.",
         "Scalar subqueries are aggregates only (provably single-row non-aggregates are not generated).", "5 C23"),
 "C24": ("proptest with a focused set-operation generator (row pools with controlled multiplicities on both sides, arbitrary operator trees, flat chains for precedence); oracle = refsql multiset algebra",
         "2-5 SELECT leaves over tables sharing 1-3 column types, rows drawn with repetition from a small pool (identical and NULL-containing rows on both sides), combined by UNION/INTERSECT/EXCEPT x DISTINCT/ALL in arbitrary trees and unparenthesised chains (standard precedence): result multiset must equal the reference. Exploration.",
         "45 % of cases are NULL-free so the search continues behind the open NULL-row finding.", "5 C24"),
 "C26": ("proptest with a focused window-function generator (all 16 functions, ROWS frames with every bound combination, RANGE frames with UNBOUNDED/CURRENT/numeric offsets, unique tiebreaks where SQL's answer depends on peer order); oracle = refsql's O(n^2) window evaluator, validated against SQLite on 18,000 statements",
         "Partitions by 0-2 columns, orders by 0-3 keys with ties and NULLs, several windows per SELECT, windows inside expressions: every row's value must equal the SQL definition. Exploration.",
         "Named windows (WINDOW w AS ...) are not generated.", "5 C26"),
 "C27": ("proptest with a focused GROUPING SETS / ROLLUP / CUBE generator; oracle = refsql's expansion, self-checked on every case against the UNION ALL of plain GROUP BYs",
         "GROUPING SETS lists incl. the empty and repeated sets, ROLLUP and CUBE over 1-3 columns in any order with NULLs in the grouping columns, 1-3 aggregates, GROUPING() with 1-3 arguments in any order: the union of one aggregate per set, absent columns NULL, standard bitmask. Exploration.",
         "Quick tier is 500 cases (each grouping set is a separate aggregate pipeline in the engine).", "5 C27"),
 "C28": ("proptest with a focused CTE generator (name reuse in nested scopes, multiple references, references inside subqueries, CTE named like a base table); two oracles: refsql lexical scoping, and metamorphic textual inlining of every reference (engine vs engine)",
         "1-3 CTEs referenced 1-3 times (joins, self-joins, unions, t.*), nested WITH clauses reusing an outer name with another column set, references inside EXISTS/IN/scalar subqueries: each reference must yield the nearest enclosing definition's rows, and the statement must equal its WITH-free inlining. Exploration.",
         "refsql's scoping agreed with SQLite on ~3,500 generated statements (the rest are rejected by SQLite for dialect reasons).", "5 C28"),
 "C44": ("proptest with a focused VALUES generator (direct, derived with and without column aliases, CTE, UNION ALL, filtered, joined, aggregated); oracle = refsql, cross-checked against SQLite on 3,000 statements",
         "VALUES lists of 1-8 rows x 1-5 columns (integer, double, mixed, string with quotes / 'NULL' / non-ASCII, boolean, all-NULL; NULL in the first row) must produce exactly their rows in every use. Exploration.",
         "Column names are always defined by the statement itself.", "5 C44"),

 "C29": ("generated / damaged / hostile / harvested SQL, generated function calls over multi-byte text and edge numbers, and an exhaustive grid of every function name x argument tuples (83 504 statements), executed in crash-isolating worker sub-processes with a panic hook and a two-stage watchdog",
         "Every statement (grammar-generated, token-damaged, deeply nested or oversized, and all 800 SQL strings harvested from the repository plus TPC-H Q1-22, plain and damaged) runs in a long-lived worker process against generated tables plus TPC-H SF 0.001; the oracle is: an Ok or Err reply - never a panic (reported with message and location), never a dead worker (signal), never silence (10 s, then 90 s alone in a fresh process). Exploration; the whole harvested corpus is replayed exhaustively on every run.",
         "Hangs are judged by wall clock only after a 90 s solo confirmation on tiny tables; panics that only exist in overflow-checked builds are still panics of the build the repository tests.", "5 C29"),

 "C03": ("engine-vs-engine differential with refsql as third opinion: production optimizer (statistics-aware, tables registered as memory and as Parquet) vs the unoptimized bound plan, plus every rule alone and every prefix of the production order; a third generator targets the key-packing rules (per-column domain widths); disagreements are narrowed to the first rule that changes the answer",
         "Generators built to make the statistics rules fire (null-free duplicated keys with range >= rows - the ndv_est uniqueness trap, also through DATE keys and join keys; two-integer group/join keys straddling 2^31/2^32 and negatives; aggregates above duplicating joins; OR-of-conjunctions; HAVING totals; EXISTS/IN below joins; shadowing derived columns; sort+limit over reduced aggregates): optimized answer must equal the unoptimized one. Exploration.",
         "Quick tier runs single rules and prefixes on the Parquet (statistics) side only.", "5 C03"),
 "C30": ("proptest over sqlgen statements plus hand-written shapes (windows, grouping sets, VALUES, star joins, alias collisions, unaliased outputs, set operations) on memory and Parquet: reported schemas vs every returned batch",
         "QueryResult.schema and physical_plan().schema() must have the same column count, names and types (up to nullability and dictionary encoding) as every returned batch. Exploration. (Flight GetSchema is checked in C34.)",
         "Only statements that plan are judged.", "5 C30"),
 "C31": ("proptest over bound plans of generated statements, with and without statistics: every rule alone, every prefix and the production pipeline must return Ok, keep output names/types, resolve every column reference against the children schemas (harness walker over the public plan/expr enums), and still lower and execute",
         "The harness's copy of the production rule list is compared with Optimizer::new() on every case. Exploration; non-trivial = the rule changed the plan.",
         "The column walker is calibrated on the bound plan (the engine's own run-time lookup rule).", "5 C31"),
 "C32": ("proptest over connected inner-join graphs of 2-7 relations (chains, stars, cycles, cliques, composite edges, non-equi extras, join keys wrapped in CAST / neutral arithmetic / unary minus) written as comma joins, explicit joins or mixed, with and without statistics: validity predicate on the optimized plan + answer equality",
         "No cross join / empty-ON inner join, every base relation exactly once, column equivalence classes of the equality predicates equal the original's (union-find; packed key pairs count as their two equalities), every non-equality predicate still present, every join's ON spans both inputs; and the answer equals the unoptimized plan's. Exploration.",
         "Implied equalities are accepted, as the property allows.", "5 C32"),
 "C34": ("generated statements and tickets against freshly spawned 1-3-node in-process clusters on loopback: Flight (GetFlightInfo -> DoGet, GetSchema) vs POST /sql?format=arrow",
         "Statements over spec-described Parquet tables (0, 1-299, 4097-6000 rows; NULLs; wide / non-ASCII strings) from 28 templates (scatter, top-N, two-phase, zero-row, gather-only, every error class), modes auto/force/off spelled independently on both doors: same schema and rows, distributed flag = x-qe-distributed, trailer rows = streamed rows = x-qe-rows, metadata on the last message only, no data message above 4096 rows, GetSchema/FlightInfo describe the batches, errors fail on both doors with corresponding classes, malformed / oversized / wrong-version / unknown-mode tickets are refused with InvalidArgument and never executed. Exploration.",
         "Each case uses fresh nodes on port 0; at most 4 cases run concurrently.", "5 C34"),
 "C35": ("stateful proptest: node lifecycle histories (loader immediate / slow / gated / failing; peers up / down / unknown / not-loaded / killed) x request phases x modes x formats against a decision table read from the node's own membership view",
         "Before the load finishes /sql and /fragment answer 503 (a failed load stays unavailable with the loader's message); mode=0 answers locally; auto distributes iff >=2 members are up and the shape is exactly mergeable, else local with a reason; mode=1 never answers 200 with x-qe-distributed:false and a failed fan-out is an error, never a local fallback; Arrow / JSON / CSV bodies decode to exactly the engine's rows and x-qe-rows matches. Exploration.",
         "Wall clock never decides: loaders are gated by the check; a changed membership view discards the case.", "5 C35"),
 "C43": ("proptest over FixedSizeList<Float32,d> tables with tied / NULL / zero vectors in memory and Parquet: production optimizer vs the rule list without VectorSearchPushdown, plus a k-best-distances reference and must-not-fire shapes",
         "ORDER BY <distance> [ASC|DESC] LIMIT k [OFFSET m] for the four distance functions, k up to n+3: same rows as the full sort + LIMIT up to distance ties (multiset of the k best distances within 1e-6); the rewrite must not fire on extra sort keys, missing LIMIT, wrapped distances, wrong direction, filters or joins. Exploration.",
         "Distances are compared with C38's tolerance.", "5 C43"),

 "C36": ("proptest over 187 function signatures: engine evaluation over columns, re-sliced batches, literals and mixed paths, compared with independent Rust references, algebraic laws / known-answer vectors, and NULL-propagation rules",
         "Each generated case evaluates one scalar function on 1-16 argument tuples four ways (column batch, re-sliced batches, all-literal, mixed) and demands agreement with an independent reference where a repo document settles the value, with laws (round-trips, idempotence, digest known answers) elsewhere, NULL-in-NULL-out for strict arguments, and equality of all evaluation paths. Exploration; path-only functions get the weaker oracle (stated in DESIGN).",
         "References are taken from the repository's function tests / Trino plan docs; regions no document settles are compared for path agreement only.", "5 C36"),
 "C37": ("proptest: encode/decode round-trip against the logical array model; SIMD helpers differential against the equivalent arrow kernels",
         "Generated Int32/Int64/Float64/Utf8/Boolean arrays (NULLs with hidden values, runs, constants, slices) must survive encode_optimal().decode() with identical type/length/validity/values; filter/compare/add/multiply/sum/count helpers must equal arrow::compute. Exploration with open known findings for the validity-blind helpers (signature-classified, search continues behind them).",
         "arrow kernels are the reference for the SIMD helpers, as the property states.", "5 C37"),
 "C38": ("proptest: vector distance kernels and their SQL forms against f64 reference formulas with an analytic error bound; slicing invariance; error/NULL contracts",
         "l2_distance/cosine_distance/cosine_similarity/dot_product on generated FixedSizeList<Float32,d> batches (d 1..1024 dense around lane multiples, NULL rows, slices, related/zero/spiky vectors) must match the f64 formula within 4*d*eps*sum|terms|+1e-6, be slice-invariant bit for bit, reject dimension mismatches and propagate NULL. Exploration.",
         "Component magnitudes restricted to 0 or 1e-15..1e15 (f32 accumulation by design).", "5 C38"),
 "C39": ("generated (scale factor, seed) pairs: repeat/concurrent/Parquet-roundtrip determinism, row-count ratios, foreign-key containment",
         "Each (sf, seed) pair is generated twice sequentially, on 4 concurrent threads and once through Parquet; all must be cell-identical, row counts within 1 of ratio*sf, and the 8 single-column foreign keys the generator claims must hit existing rows (o_custkey excluded: documented 1.5x range). Exploration over 12 pairs (quick) / 300 (thorough).",
         "Only small scale factors (<=0.05) are explored.", "5 C39"),
 "C40": ("proptest: CLI CSV/JSON writers round-tripped through the csv crate + a strict RFC 4180 reader and serde_json",
         "Generated result batches (strings built from quotes, commas, CR/LF, control chars, BOM, non-ASCII; numbers incl. NaN/inf/extremes; hot column names; 0-3 batches) are formatted by the real /repo/src/cli/output.rs (compiled into the harness) and must parse back to exactly the displayed cell text / values. Exploration.",
         "The REPL sub-process path is not exercised (it only calls the same formatter).", "5 C40"),
 "C42": ("proptest: render(set) -> parse round-trip against a set model; exhaustive small grid + generated for the fan-out bounds",
         "Generated cpulists (ranges, singletons, overlaps, disorder, whitespace, junk tokens) must parse to exactly the sorted set they denote; workers_for bounds checked on an exhaustive 40x40 grid plus generated extremes. Exploration: thousands of distinct non-trivial lists per run, no proof of absence.",
         "Trusts the harness's renderer/denotation model; junk is limited to tokens with no numeric reading.", "5 C42"),
}

LEVEL_CATEGORY = {"C10": "fault_enumeration"}

NOT_YET = "check not implemented yet in this revision (work in progress; see DESIGN.md §5 for the planned generator/oracle)"

def main():
    props = [json.loads(l) for l in open("/verif/properties.jsonl")]
    checks = []
    na = []
    for p in props:
        pid = p["id"]
        if pid in CLAIMED:
            tech, text, note, ref = CLAIMED[pid]
            checks.append({
                "property_id": pid,
                "quick_cmd": f"./check {pid} --tier quick",
                "thorough_cmd": f"./check {pid} --tier thorough",
                "evidence_file": f"/verif/evidence/{pid}.json",
                "replay_cmd_template": f"./check {pid} --replay {{path}}",
                "engine": "qe_verif",
                "level_claimed": {"category": LEVEL_CATEGORY.get(pid, "exploration"), "text": text, "design_ref": ref},
                "level_note": note,
                "technique": tech,
            })
        else:
            na.append({"property_id": pid, "reason": NOT_YET})
    m = {
        "version": 1,
        "setup_cmd": "cd /verif/harness && CARGO_NET_OFFLINE=true cargo build --bin check && mkdir -p /verif/target/tmp",
        "hooks": {
            "guard": "cargo feature `verif-hooks` of crate query_engine (off by default)",
            "enable": "the harness crate /verif/harness depends on query_engine by path (/repo) with features=[\"verif-hooks\"]; every ./check run does `cargo build` first, so it is rebuilt from /repo's working tree",
            "baseline_off_cmd": "cd /repo && cargo test --workspace --no-fail-fast --offline",
            "source_commits": HOOK_COMMITS,
            "add_only": True,
        },
        "engines": [{
            "name": "qe_verif",
            "path": "/verif/harness",
            "serves_properties": [c["property_id"] for c in checks],
            "kind_free_text": "Rust harness crate: proptest-driven generated checks (sharded over 16 threads, fixed seeds from VERIF_SEED), own reference SQL evaluator, replay tier, known-findings file",
        }],
        "checks": checks,
        "notes": "exit 0 held / 1 VIOLATION / 2 infrastructure (build failure, watchdog) — exit 2 is never a violation. Known findings: /verif/known_findings.json.",
        "not_applicable": na,
    }
    json.dump(m, open("/verif/MANIFEST.json", "w"), indent=1)
    print(f"claimed {len(checks)} / not_applicable {len(na)}")

main()
