#!/usr/bin/env python3
"""Regenerates /verif/MANIFEST.json from the table below + `check --list`.
A property is claimed iff it has an entry in CLAIMED."""
import json, subprocess, sys

HOOK_COMMITS = ["89cc7e2"]

# id -> (technique, level text, level note, design_ref)
CLAIMED = {
 "C42": ("proptest: render(set) -> parse round-trip against a set model; exhaustive small grid + generated for the fan-out bounds",
         "Generated cpulists (ranges, singletons, overlaps, disorder, whitespace, junk tokens) must parse to exactly the sorted set they denote; workers_for bounds checked on an exhaustive 40x40 grid plus generated extremes. Exploration: thousands of distinct non-trivial lists per run, no proof of absence.",
         "Trusts the harness's renderer/denotation model; junk is limited to tokens with no numeric reading.", "§5 C42"),
}

LEVEL_CATEGORY = {"C10": "fault_enumeration"}

NOT_YET = "check not implemented yet in this revision (work in progress; see DESIGN.md §5 for the planned generator/oracle)"

def main():
    props = [json.loads(l) for l in open("/verif/properties.jsonl")]
    checks = []
    na = []
    for p in props:
        pid = p["id"]
        if pid in CLAIMED:
            tech, text, note, ref = CLAIMED[pid]
            checks.append({
                "property_id": pid,
                "quick_cmd": f"./check {pid} --tier quick",
                "thorough_cmd": f"./check {pid} --tier thorough",
                "evidence_file": f"/verif/evidence/{pid}.json",
                "replay_cmd_template": f"./check {pid} --replay {{path}}",
                "engine": "qe_verif",
                "level_claimed": {"category": LEVEL_CATEGORY.get(pid, "exploration"), "text": text, "design_ref": ref},
                "level_note": note,
                "technique": tech,
            })
        else:
            na.append({"property_id": pid, "reason": NOT_YET})
    m = {
        "version": 1,
        "setup_cmd": "cd /verif/harness && CARGO_NET_OFFLINE=true cargo build --bin check && mkdir -p /verif/target/tmp",
        "hooks": {
            "guard": "cargo feature `verif-hooks` of crate query_engine (off by default)",
            "enable": "the harness crate /verif/harness depends on query_engine by path (/repo) with features=[\"verif-hooks\"]; every ./check run does `cargo build` first, so it is rebuilt from /repo's working tree",
            "baseline_off_cmd": "cd /repo && cargo test --workspace --no-fail-fast --offline",
            "source_commits": HOOK_COMMITS,
            "add_only": True,
        },
        "engines": [{
            "name": "qe_verif",
            "path": "/verif/harness",
            "serves_properties": [c["property_id"] for c in checks],
            "kind_free_text": "Rust harness crate: proptest-driven generated checks (sharded over 16 threads, fixed seeds from VERIF_SEED), own reference SQL evaluator, replay tier, known-findings file",
        }],
        "checks": checks,
        "notes": "exit 0 held / 1 VIOLATION / 2 infrastructure (build failure, watchdog) — exit 2 is never a violation. Known findings: /verif/known_findings.json.",
        "not_applicable": na,
    }
    json.dump(m, open("/verif/MANIFEST.json", "w"), indent=1)
    print(f"claimed {len(checks)} / not_applicable {len(na)}")

main()
