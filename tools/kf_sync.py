#!/usr/bin/env python3
"""kf_sync.py <PROP> [seeds…]   (development aid, never run by a registered command)

Brings the known-findings entries of one property in line with the CURRENT tree:
 1. surveys the property with several seeds (VERIF_SURVEY=1),
 2. for every finding class still hit: refreshes the witness (kf_update.py --apply),
 3. for every OPEN entry whose class was not hit: replays its witness; if the
    witness passes now the entry is marked `fixed` (commit = the fix commit
    named in FIX_MAP, else the repository HEAD at which it stopped reproducing);
    if the witness still fails the entry stays open.
Prints UNCLASSIFIED counts — those must be zero before committing.
"""
import json, os, subprocess, sys, collections

ROOT = os.environ.get("VERIF_ROOT", "/verif")
FIX_MAP = json.load(open(ROOT + "/tools/kf_fix_map.json")) if os.path.exists(ROOT + "/tools/kf_fix_map.json") else {}

def main():
    prop = sys.argv[1]
    seeds = sys.argv[2:] or ["1", "2", "3", "4"]
    for ext in ("jsonl", "log"):
        try: os.remove(f"{ROOT}/target/survey-{prop}.{ext}")
        except FileNotFoundError: pass
    env = dict(os.environ, VERIF_SURVEY="1")
    for s in seeds:
        subprocess.run([ROOT + "/target/debug/check", prop, "--seed", s], env=env, stdout=subprocess.DEVNULL, stderr=subprocess.DEVNULL)
    path = f"{ROOT}/target/survey-{prop}.jsonl"
    rows = [json.loads(l) for l in open(path)] if os.path.exists(path) else []
    classes = collections.Counter(r["class"] for r in rows)
    print(prop, dict(classes))
    subprocess.run(["python3", ROOT + "/tools/kf_update.py", prop, "--apply"], stdout=subprocess.DEVNULL)
    kf = json.load(open(ROOT + "/known_findings.json"))
    head = subprocess.check_output(["git", "-C", "/repo", "rev-parse", "--short", "HEAD"]).decode().strip()
    changed = False
    for e in kf["findings"]:
        if e["property"] != prop or e["status"] != "open" or e["id"] in classes:
            continue
        w = e.get("witness")
        if not w or not os.path.exists(f"{ROOT}/{w}"):
            continue  # witness-less entry: keep as is
        r = subprocess.run([ROOT + "/target/debug/check", prop, "--replay", f"{ROOT}/{w}"], capture_output=True, text=True)
        if r.returncode == 0 and "PASS" in r.stdout:
            e["status"] = "fixed"
            e["commit"] = FIX_MAP.get(e["id"], head + " (no longer reproduces at this commit)")
            changed = True
            print("   fixed:", e["id"], e["commit"])
        else:
            print("   still open (witness fails, class not hit in survey):", e["id"])
    if changed:
        json.dump(kf, open(ROOT + "/known_findings.json", "w"), indent=1)

main()
