#!/usr/bin/env python3
"""baseline_compare.py <cargo-test-log>: every test listed in
/root/.vp/BASELINE.json stable_pass must be 'ok' in the log (guard OFF run)."""
import json, re, sys
want = set(json.load(open('/root/.vp/BASELINE.json'))['stable_pass'])
cur = None; ok = set(); bad = set()
for line in open(sys.argv[1], errors='replace'):
    m = re.search(r'Running (unittests )?(\S+) \(', line)
    if m:
        p = m.group(2)
        if p == 'src/lib.rs': cur = 'query_engine::'
        elif p == 'src/main.rs': cur = 'query_engine::bin/query_engine::'
        else: cur = 'query_engine::' + p.split('/')[-1].replace('.rs', '') + '::'
        continue
    m = re.match(r'test (\S+) \.\.\. (\w+)', line)
    if m and cur:
        (ok if m.group(2) == 'ok' else bad).add(cur + m.group(1))
missing = sorted(want - ok)
print(f"stable_pass={len(want)} passed_now={len(want & ok)} not_passing={len(missing)}")
for t in missing[:40]: print("  NOT PASSING:", t, "(failed)" if t in bad else "(not run)")
sys.exit(1 if missing else 0)
