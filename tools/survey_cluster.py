#!/usr/bin/env python3
"""dev aid: cluster target/survey-<ID>.jsonl by (ref events, structural features)"""
import json,re,collections,sys
pid=sys.argv[1]
rows=[json.loads(l) for l in open(f'/verif/target/survey-{pid}.jsonl')]
print(len(rows),'failures')
def ev(m):
    x=re.search(r'ref-events: \{(.*)\}',m); return tuple(sorted(e.strip('" ') for e in x.group(1).split(',') if e.strip())) if x else ()
KEEP=('group_by','global_agg','distinct','correlated','exists','in_subquery','not_in_subquery','scalar_subquery','case_simple','having','count_distinct','derived','cte','limit','order_by')
c=collections.Counter()
for r in rows:
    f=set(r['case'].get('features',[]))
    key=(ev(r['message']), tuple(sorted(x for x in f if x.startswith('join_') or x in KEEP or x.startswith(('union','intersect','except')))))
    c[key]+=1
for k,v in c.most_common(int(sys.argv[2]) if len(sys.argv)>2 else 60): print(v,k)
