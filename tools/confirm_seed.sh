#!/bin/sh
# confirm_seed.sh <G> <ID>
# Independently re-confirms a seeded change produced by a seeding agent:
#   worktree /tmp/seed-<G> (clean), private target /tmp/seed-<G>-target,
#   inputs  /tmp/seed-out/<ID>/{patch.diff, meta.json, demo file(s)}.
# Steps: (1) demo passes on the clean tree, (2) patch applies and compiles,
# (3) demo FAILS with the patch, (4) the 744 stable tests still pass with the
# patch. Writes /tmp/seed-out/<ID>/confirm.json and restores the worktree.
G="$1"; ID="$2"
W=/tmp/seed-$G; O=/tmp/seed-out/$ID; T=/tmp/seed-$G-target
[ -f "$O/patch.diff" ] || { echo "no patch for $ID"; exit 2; }
cd "$W" || exit 2
git checkout -q -- . ; git clean -fdq
# demo files: everything in the out dir that is a .rs file goes to tests/
DEMOS=""
for f in "$O"/*.rs; do [ -f "$f" ] || continue; cp "$f" tests/; DEMOS="$DEMOS $(basename "$f" .rs)"; done
[ -n "$DEMOS" ] || { echo "no demo .rs for $ID"; exit 2; }
run_demos() {
  rc=0
  for d in $DEMOS; do
    CARGO_TARGET_DIR=$T cargo test --offline --test "$d" > "$O/confirm-$1-$d.log" 2>&1 || rc=1
  done
  return $rc
}
run_demos clean; CLEAN=$?
git apply "$O/patch.diff" || { echo "{\"id\":\"$ID\",\"error\":\"patch does not apply\"}" > "$O/confirm.json"; git checkout -q -- .; git clean -fdq; exit 1; }
run_demos patched; PATCHED=$?
CARGO_TARGET_DIR=$T cargo test --workspace --lib --bins --tests --no-fail-fast --offline > "$O/confirm-suite.log" 2>&1
SUITE=$(python3 /tmp/seedtools/baseline_compare.py "$O/confirm-suite.log" | head -1)
git checkout -q -- . ; git clean -fdq
python3 - "$ID" "$CLEAN" "$PATCHED" "$SUITE" > "$O/confirm.json" <<'EOF'
import json,sys
i,clean,patched,suite=sys.argv[1:5]
print(json.dumps({"id":i,"demo_passes_without_patch":clean=="0","demo_fails_with_patch":patched!="0","suite_with_patch":suite,
  "confirmed": clean=="0" and patched!="0" and "not_passing=0" in suite}))
EOF
cat "$O/confirm.json"
