#!/usr/bin/env python3
"""kf_update.py <PROP> [--apply]

Development aid (never run by a registered command): reads the survey of a
property (VERIF_SURVEY=1 ./check <PROP> → target/survey-<PROP>.jsonl), and for
every failure class that carries a known-finding id picks the smallest failing
case as witness → replays/<PROP>/kf-<id>.json, and makes sure
known_findings.json lists (id, property=<PROP>, status=open) with the summary /
signature text taken from the harness (`check --kf-sigs`) or from EXTRA below.
UNCLASSIFIED failures are printed and never written anywhere.
"""
import json, sys, subprocess, os, collections
ROOT = os.environ.get("VERIF_ROOT", "/verif")

EXTRA = {}  # id -> (summary, signature) for findings whose signature lives in a property module

def main():
    prop = sys.argv[1]
    apply = "--apply" in sys.argv
    path = f"{ROOT}/target/survey-{prop}.jsonl"
    rows = [json.loads(l) for l in open(path)] if os.path.exists(path) else []
    sigs = {s["id"]: s for s in json.loads(subprocess.check_output([ROOT + "/target/debug/check", "--kf-sigs"]))}
    extra_path = f"{ROOT}/target/kf-extra-{prop}.json"
    if os.path.exists(extra_path):
        for k, v in json.load(open(extra_path)).items():
            sigs[k] = {"id": k, "summary": v["summary"], "signature": v["signature"]}
    by = collections.defaultdict(list)
    for r in rows:
        by[r["class"]].append(r)
    kf_path = ROOT + "/known_findings.json"
    kf = json.load(open(kf_path))
    changed = False
    for cls, rs in sorted(by.items()):
        print(f"{len(rs):5d}  {cls}")
        if cls == "UNCLASSIFIED":
            continue
        if cls not in sigs:
            print(f"   !! no summary text for finding id {cls}")
            continue
        rs.sort(key=lambda r: len(json.dumps(r["case"])))
        w = rs[0]
        rel = f"replays/{prop}/kf-{cls}.json"
        if apply:
            os.makedirs(f"{ROOT}/replays/{prop}", exist_ok=True)
            doc = {"property": prop, "check": w["check"], "expect": f"known:{cls}", "message": w["message"], "case": w["case"]}
            json.dump(doc, open(f"{ROOT}/{rel}", "w"), indent=1)
            ent = next((e for e in kf["findings"] if e["id"] == cls and e["property"] == prop), None)
            if ent is None:
                kf["findings"].append({"id": cls, "property": prop, "status": "open",
                                       "summary": sigs[cls]["summary"], "signature": sigs[cls]["signature"], "witness": rel})
                changed = True
            else:
                ent["witness"] = rel
                ent["summary"] = sigs[cls]["summary"]; ent["signature"] = sigs[cls]["signature"]
                changed = True
    if apply and changed:
        kf["findings"].sort(key=lambda e: (e["property"], e["id"]))
        json.dump(kf, open(kf_path, "w"), indent=1)
        print("known_findings.json updated")

main()
