#!/usr/bin/env python3
"""seed_record.py: fold my own confirmation (/tmp/seed-out/<ID>/confirm.json) and the
outcome of my check against the change (/verif/target/seeded-<ID>.log) into
/verif/seeded/<ID>/meta.json, and regenerate /verif/seeded/RESULTS.md."""
import json, os, glob, re
rows=[]
for d in sorted(glob.glob('/verif/seeded/C*')):
    i=os.path.basename(d)
    mp=f'{d}/meta.json'
    if not os.path.exists(mp): continue
    m=json.load(open(mp))
    cp=f'/tmp/seed-out/{i}/confirm.json'
    if os.path.exists(cp):
        m['confirmed_by_me']=json.load(open(cp))
        m['what_i_ran_to_confirm']='tools/confirm_seed.sh: demo on the clean worktree (must pass), demo with patch.diff applied (must fail), `cargo test --workspace --lib --bins --tests` with the patch + tools/baseline_compare.py (744 stable tests must pass), in a scratch worktree under /tmp with a private target dir'
    lp=f'/verif/target/seeded-{i}.log'
    if os.path.exists(lp):
        t=open(lp,errors='replace').read()
        viol=re.findall(r'^VIOLATION property=(\S+) replay=\S+/fail-([A-Za-z0-9_]+?)-(?:w\d+|exh)-',t,re.M)
        summ=re.findall(r'^SUMMARY .*$',t,re.M)
        m['my_check']={'command':f'tools/run_seeded.sh {i}  (git -C /repo apply patch.diff; ./check {m["property"]} --tier quick; git checkout)', 'caught': bool(viol), 'failing_checks': sorted(set(v[1] for v in viol)), 'summary': summ[-1] if summ else None}
    json.dump(m,open(mp,'w'),indent=1)
    rows.append((i,m))
with open('/verif/seeded/RESULTS.md','w') as f:
    f.write('# Seeded changes (from independent sub-agents) and what the checks did with them\n\n| seed | property | needs to manifest | confirmed by me | caught by quick tier | failing sub-check(s) |\n|---|---|---|---|---|---|\n')
    for i,m in rows:
        c=m.get('confirmed_by_me',{}).get('confirmed')
        k=m.get('my_check',{})
        f.write(f"| {i} | {m['property']} | {m.get('needs','')[:160].replace('|','/')} | {c} | {k.get('caught')} | {', '.join(k.get('failing_checks',[]))} |\n")
print(open('/verif/seeded/RESULTS.md').read())
