#!/usr/bin/env python3
"""Cross-check the harness's reference SQL evaluator (refsql) against SQLite.

Usage: sqlite_crosscheck.py <export.json> [--show N]
The export is produced by `check --export <profile> <n> <seed> <file>`.
Disagreements here are bugs in refsql (or dialect differences to be excluded),
never verdicts about the engine. Exit 0 iff no disagreement.
"""
import json, sqlite3, sys, math

def norm(v):
    if isinstance(v, bool):
        return int(v)
    if isinstance(v, float):
        return ('n', v + 0.0)  # -0.0 -> 0.0
    if isinstance(v, int):
        return ('n', float(v))
    if v is None:
        return ('0',)
    return ('s', v)

def row_key(r):
    return tuple(norm(v) for v in r)

def close(a, b):
    if len(a) != len(b):
        return False
    for x, y in zip(a, b):
        if x[0] != y[0]:
            return False
        if x[0] == 'n':
            if not math.isclose(x[1], y[1], rel_tol=1e-9, abs_tol=1e-12):
                return False
        elif x != y:
            return False
    return True

def multiset_equal(a, b):
    a = sorted(a, key=repr); b = sorted(b, key=repr)
    if len(a) != len(b):
        return False
    return all(close(x, y) for x, y in zip(a, b))

TYPES = {"Int": "INTEGER", "Int32": "INTEGER", "Double": "REAL", "Str": "TEXT", "Date": "TEXT", "Bool": "INTEGER"}

def main():
    path = sys.argv[1]
    show = 5
    if "--show" in sys.argv:
        show = int(sys.argv[sys.argv.index("--show") + 1])
    doc = json.load(open(path))
    bad = 0; errs = 0; ok = 0; shown = 0; ties = 0
    err_kinds = {}
    for c in doc["cases"]:
        con = sqlite3.connect(":memory:")
        con.execute("PRAGMA case_sensitive_like=ON")
        for t in c["tables"]:
            cols = ", ".join(f'{n} {TYPES[ty]}' for n, ty in t["cols"])
            con.execute(f'CREATE TABLE {t["name"]} ({cols})')
            if t["rows"]:
                ph = ",".join("?" * len(t["cols"]))
                con.executemany(f'INSERT INTO {t["name"]} VALUES ({ph})', t["rows"])
        try:
            got = con.execute(c["sql"]).fetchall()
        except Exception as e:
            errs += 1
            k = str(e)[:50]
            err_kinds[k] = err_kinds.get(k, 0) + 1
            continue
        # LIMIT/OFFSET cutting through ties admits several answers: not comparable here
        if (c["limit"] is not None or c["offset"] is not None) and c["tie_groups"] is not None \
                and len(set(c["tie_groups"])) != len(c["tie_groups"]):
            ties += 1
            continue
        ref = [row_key(r) for r in c["ref_rows"]]
        g = [row_key(r) for r in got]
        same = multiset_equal(ref, g)
        # when ORDER BY gives a total order (every tie group a single row) compare sequences too
        if same and c["ordered"] and c["tie_groups"] is not None and c["limit"] is None and c["offset"] is None:
            tg = c["tie_groups"]
            if len(set(tg)) == len(tg):
                same = all(close(x, y) for x, y in zip(ref, g))
        if same:
            ok += 1
        else:
            bad += 1
            if shown < show:
                shown += 1
                print("DISAGREE:", c["sql"])
                for t in c["tables"]:
                    print("  table", t["name"], t["cols"], t["rows"])
                print("  refsql:", c["ref_rows"])
                print("  sqlite:", got)
    print(f"cases={len(doc['cases'])} agree={ok} disagree={bad} sqlite_errors={errs} skipped_limit_ties={ties}")
    if err_kinds:
        print("sqlite error kinds:", err_kinds)
    sys.exit(1 if bad else 0)

main()
