#!/bin/sh
# mk_sandbox.sh <name>: private copy of /repo (git worktree) + /verif harness +
# build output under /root/scratch/<name>, for developing / mutation-testing a
# check without touching /repo or /verif. Remove with rm_sandbox.sh <name>.
set -e
N="$1"; S=/root/scratch/$N
[ -n "$N" ] || { echo "usage: $0 name"; exit 2; }
mkdir -p "$S"
git -C /repo worktree add --detach "$S/repo" HEAD >/dev/null 2>&1
mkdir -p "$S/verif"
rsync -a --exclude target --exclude .git /verif/ "$S/verif/"
sed -i "s#path = \"/repo\"#path = \"$S/repo\"#" "$S/verif/harness/Cargo.toml"
sed -i "s#target-dir = \"/verif/target\"#target-dir = \"$S/verif/target\"#" "$S/verif/harness/.cargo/config.toml"
mkdir -p "$S/verif/target"
cp -a /verif/target/debug "$S/verif/target/" 2>/dev/null || true
mkdir -p "$S/verif/target/tmp"
cat > "$S/verif/check" <<EOS
#!/bin/sh
export CARGO_NET_OFFLINE=true VERIF_ROOT=$S/verif
cd $S/verif/harness || exit 2
if ! cargo build --bin check >$S/verif/target/build.log 2>&1; then
  echo "BUILD-FAILED" >&2; grep -E "^error" -A12 $S/verif/target/build.log | head -80 >&2; exit 2
fi
exec $S/verif/target/debug/check "\$@"
EOS
chmod +x "$S/verif/check"
echo "$S"
