#![no_main]
//! C41 (thorough tier): arbitrary bytes -> gravitino::verif_dechunk never panics;
//! and a well-formed re-encoding of any decoded body decodes to the same body.
use libfuzzer_sys::fuzz_target;
use query_engine::metastore::gravitino::verif_dechunk;

fuzz_target!(|data: &[u8]| {
    if let Some(body) = verif_dechunk(data) {
        // round trip through a canonical single-chunk encoding
        let mut enc = Vec::new();
        if !body.is_empty() {
            enc.extend_from_slice(format!("{:x}\r\n", body.len()).as_bytes());
            enc.extend_from_slice(&body);
            enc.extend_from_slice(b"\r\n");
        }
        enc.extend_from_slice(b"0\r\n\r\n");
        assert_eq!(verif_dechunk(&enc).as_deref(), Some(&body[..]));
    }
});
