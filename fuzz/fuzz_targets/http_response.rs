#![no_main]
//! C16 (thorough tier): arbitrary bytes -> http_client::verif_parse_response.
//! Oracle: Err, or Ok whose status/body are consistent with the bytes: the body
//! is everything after the first blank line and is never shorter than a
//! declared (parseable, single) Content-Length; never panics.
use libfuzzer_sys::fuzz_target;
use query_engine::distributed::http_client::verif_parse_response;

fuzz_target!(|data: &[u8]| {
    if let Ok(r) = verif_parse_response(data) {
        let split = data.windows(4).position(|w| w == b"\r\n\r\n").expect("Ok without header terminator");
        assert!(r.body.len() <= data.len() - split - 4, "body longer than the bytes after the header");
        let cls: Vec<&str> = r.headers.iter().filter(|(k, _)| k == "content-length").map(|(_, v)| v.as_str()).collect();
        if cls.len() == 1 {
            if let Ok(n) = cls[0].trim().parse::<usize>() {
                assert!(r.body.len() >= n, "Ok with body {} shorter than declared Content-Length {}", r.body.len(), n);
            }
        }
    }
});
