#![no_main]
//! C29 (thorough tier): arbitrary bytes -> ExecutionContext::sql on a context with
//! small memory tables. Oracle: returns Ok/Err; a panic or abort is a finding.
//! Known panic sites (open findings of C29) are tolerated so that campaigns
//! keep going (VERIF_FUZZ_STRICT=1 disables the allow-list for replays).
use libfuzzer_sys::fuzz_target;
use std::sync::{Arc, OnceLock};

struct Env {
    rt: tokio::runtime::Runtime,
    ctx: query_engine::ExecutionContext,
}

fn env() -> &'static Env {
    static E: OnceLock<Env> = OnceLock::new();
    E.get_or_init(|| {
        use arrow::array::*;
        use arrow::datatypes::*;
        let strict = std::env::var("VERIF_FUZZ_STRICT").map(|v| v == "1").unwrap_or(false);
        let default_hook = std::panic::take_hook();
        std::panic::set_hook(Box::new(move |info| {
            let loc = info.location().map(|l| l.file().to_string()).unwrap_or_default();
            let msg = format!("{}", info);
            // allow-list = open known findings of C29 (see known_findings.json)
            let known = msg.contains("index out of bounds") && loc.contains("hash_join.rs");
            if strict || !known {
                default_hook(info);
                std::process::abort();
            }
        }));
        let rt = tokio::runtime::Builder::new_multi_thread().worker_threads(2).enable_all().build().unwrap();
        let mut ctx = query_engine::ExecutionContext::new();
        let schema = Arc::new(Schema::new(vec![
            Field::new("a", DataType::Int64, true),
            Field::new("b", DataType::Utf8, true),
            Field::new("c", DataType::Float64, true),
            Field::new("d", DataType::Date32, true),
        ]));
        let batch = arrow::record_batch::RecordBatch::try_new(
            schema.clone(),
            vec![
                Arc::new(Int64Array::from(vec![Some(1), None, Some(3), Some(1)])),
                Arc::new(StringArray::from(vec![Some("x"), Some(""), None, Some("é")])),
                Arc::new(Float64Array::from(vec![Some(0.5), Some(-1.0), None, Some(2.0)])),
                Arc::new(Date32Array::from(vec![Some(10957), None, Some(11000), Some(10957)])),
            ],
        )
        .unwrap();
        for name in ["r", "s", "t"] {
            ctx.register_table(name.to_string(), schema.clone(), vec![batch.clone()]);
        }
        Env { rt, ctx }
    })
}

fuzz_target!(|data: &[u8]| {
    if data.len() > 4096 {
        return;
    }
    let Ok(sql) = std::str::from_utf8(data) else { return };
    // the exponential nested-EXISTS finding would stall the campaign
    if sql.to_ascii_uppercase().matches("EXISTS").count() > 5 {
        return;
    }
    let e = env();
    let _ = std::panic::catch_unwind(std::panic::AssertUnwindSafe(|| {
        let _ = e.rt.block_on(async { tokio::time::timeout(std::time::Duration::from_secs(20), e.ctx.sql(sql)).await });
    }));
});
